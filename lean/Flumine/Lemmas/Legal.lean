/- Lemmas/Legal.lean — every status step that the simulated execution appends to an order's status log is a
   legal step of the documented lifecycle: `LX w w'` says that from w to w' the log of every order of w was extended by
   a legal path starting at its status.  Proved here for the status setters, the response handlers and the execution of
   a whole package (the orders of the package being distinct, in flight or complete). -/
import Flumine.Lemmas.Strand
import Mathlib.Tactic.SplitIfs
namespace Flumine.Legal
open Flumine Flumine.World Flumine.OL Flumine.Ids Flumine.Inv Flumine.Settle Flumine.Strand

/-- the documented lifecycle (`C03.legal`) plus the two steps of an order that never left: a refused order (VIOLATION)
    may be submitted again (PENDING) or refused again (VIOLATION) -/
def legal' (s : Option Status) (t : Status) : Bool :=
  C03.legal s t || (s == some .violation && (t == .pending || t == .violation))

/-- `chain s path`: every step of `path`, started at status `s`, is legal -/
def chain : Option Status → List Status → Bool
  | _, [] => true
  | s, t :: r => legal' s t && chain (some t) r

/-- the status after walking `path` from `s` -/
def lastOr : Option Status → List Status → Option Status
  | s, [] => s
  | _, t :: r => lastOr (some t) r

theorem chain_append (s : Option Status) (p q : List Status) : chain s (p ++ q) = (chain s p && chain (lastOr s p) q) := by
  induction p generalizing s with
  | nil => simp [chain, lastOr]
  | cons t r ih => simp [chain, lastOr, ih, Bool.and_assoc]

theorem lastOr_append (s : Option Status) (p q : List Status) : lastOr s (p ++ q) = lastOr (lastOr s p) q := by
  induction p generalizing s with
  | nil => simp [lastOr]
  | cons t r ih => simp [lastOr, ih]

/-- order o' is order o with its status log extended by a legal path (possibly empty) and its status moved accordingly -/
def Ext (o o' : Order) : Prop :=
  ∃ path, o'.log = o.log ++ path ∧ chain o.status path = true ∧ o'.status = lastOr o.status path

theorem Ext.refl (o : Order) : Ext o o := ⟨[], by simp, rfl, rfl⟩

theorem Ext.of_same {o o' : Order} (hs : o'.status = o.status) (hl : o'.log = o.log) : Ext o o' :=
  ⟨[], by simp [hl], rfl, by simp [lastOr, hs]⟩

theorem Ext.trans {a b c : Order} (h1 : Ext a b) (h2 : Ext b c) : Ext a c := by
  obtain ⟨p, hp1, hp2, hp3⟩ := h1
  obtain ⟨q, hq1, hq2, hq3⟩ := h2
  refine ⟨p ++ q, by rw [hq1, hp1, List.append_assoc], ?_, by rw [hq3, hp3, lastOr_append]⟩
  rw [chain_append, hp2, ← hp3, hq2]; rfl

theorem Ext.step (o : Order) (now : Time) (s : Status) (hl : legal' o.status s = true) : Ext o (stamped o now s) :=
  ⟨[s], rfl, by simp [chain, hl], rfl⟩

/-- from w to w' every order of w is still there, and the log of every order grew by a legal path (for an id that names no
    order `order!` is the default order - no status, empty log - so for an order created on the way this says that its whole
    log is a legal path from "no status") -/
structure LX (w w' : World) : Prop where
  has : ∀ oid, HasOrder w oid → HasOrder w' oid
  ext : ∀ oid, Ext (w.order! oid) (w'.order! oid)

theorem LX.refl (w : World) : LX w w := ⟨fun _ h => h, fun _ => Ext.refl _⟩
theorem LX.trans {a b c : World} (h1 : LX a b) (h2 : LX b c) : LX a c :=
  ⟨fun oid h => h2.has oid (h1.has oid h), fun oid => (h1.ext oid).trans (h2.ext oid)⟩

theorem LX.of_eq {w w' : World} (h : w'.orders = w.orders) : LX w w' :=
  ⟨fun oid ho => (hasOrder_congr w w' h oid).mpr ho, fun oid => by rw [order!_congr w w' h oid]; exact Ext.refl _⟩

theorem lx_foldl {α} (f : World → α → World) (hf : ∀ w a, LX w (f w a)) (l : List α) (w : World) : LX w (l.foldl f w) := by
  induction l generalizing w with
  | nil => exact LX.refl w
  | cons a as ih => rw [List.foldl_cons]; exact (hf w a).trans (ih _)

theorem lx_modifyOrder (w : World) (a : Nat) (f : Order → Order) (hf : ∀ y, y.id = a → (f y).id = a)
    (hs : (f (w.order! a)).status = (w.order! a).status ∧ (f (w.order! a)).log = (w.order! a).log) : LX w (w.modifyOrder a f) := by
  refine ⟨fun oid ho => hasOrder_modify w oid a f ho hf, fun oid => ?_⟩
  rcases Fl.order!_modify' w a oid f hf with h | ⟨e, _, h⟩
  · rw [h]; exact Ext.refl _
  · rw [h, e]; exact Ext.of_same hs.1 hs.2

theorem lx_orderUpdateStatus (w : World) (a : Nat) (s : Status) (ha : HasOrder w a) (hl : legal' (w.order! a).status s = true) :
    LX w (w.orderUpdateStatus a s) := by
  refine ⟨fun oid ho => hasOrder_orderUpdateStatus w oid a s ho, fun oid => ?_⟩
  by_cases e : oid = a
  · rw [e, orderUpdateStatus_self w a s ha]; exact Ext.step _ _ _ hl
  · rw [orderUpdateStatus_other w oid a s ha e]; exact Ext.refl _

/-- `executable()`: nothing on a complete order, otherwise one step that must be legal -/
theorem lx_orderExecutable (w : World) (a : Nat) (ha : HasOrder w a)
    (hl : (w.order! a).complete = true ∨ legal' (w.order! a).status .executable = true) : LX w (w.orderExecutable a) := by
  unfold orderExecutable
  split
  · exact lx_modifyOrder w a (fun o => { o with ud := {} }) (fun _ h => h) ⟨rfl, rfl⟩
  · rename_i hc
    rcases hl with h | h
    · exact absurd h hc
    · exact (lx_orderUpdateStatus w a .executable ha h).trans
        (lx_modifyOrder (w.orderUpdateStatus a .executable) a (fun o => { o with ud := {} }) (fun _ h => h) ⟨rfl, rfl⟩)

theorem lx_orderExecutionComplete (w : World) (a : Nat) (ha : HasOrder w a)
    (hl : legal' (w.order! a).status .executionComplete = true) : LX w (w.orderExecutionComplete a) := by
  unfold orderExecutionComplete
  exact (lx_orderUpdateStatus w a .executionComplete ha hl).trans
    (lx_modifyOrder (w.orderUpdateStatus a .executionComplete) a (fun o => { o with ud := {}, completeAt := some w.clock }) (fun _ h => h) ⟨rfl, rfl⟩)

theorem lx_tradeEnter (w : World) (t : Nat) : LX w (w.tradeEnter t) := LX.of_eq (tradeEnter_orders w t)
theorem lx_tradeExit (w : World) (t : Nat) : LX w (w.tradeExit t) := LX.of_eq (tradeExit_orders w t)

theorem lx_logPlaced (w : World) (b : Nat) (bid : Option Nat) : LX w (w.logPlaced b bid) := by
  unfold logPlaced
  have k1 := lx_modifyOrder w b (fun o => { o with placedAt := some w.clock }) (fun _ h => h) ⟨rfl, rfl⟩
  cases bid with
  | none => exact k1
  | some v =>
    exact (k1.trans (lx_modifyOrder _ b (fun o => { o with betId := some v }) (fun _ h => h) ⟨rfl, rfl⟩)).trans
      (LX.of_eq (w := (w.modifyOrder b fun o => { o with placedAt := some w.clock }).modifyOrder b fun o => { o with betId := some v }) rfl)

/-! ### the state of an order a handler is about to handle -/

/-- in flight and not complete, or EXECUTION_COMPLETE and complete: every status from which both outcomes of a handler
    (`executable()`, `execution_complete()`) are legal steps or no step at all -/
def Pre (o : Order) : Prop :=
  ((o.status = some .pending ∨ o.status = some .cancelling ∨ o.status = some .updating ∨ o.status = some .replacing) ∧ o.complete = false) ∨
  (o.status = some .executionComplete ∧ o.complete = true)

theorem Pre.executable {o : Order} (h : Pre o) : o.complete = true ∨ legal' o.status .executable = true := by
  rcases h with ⟨h | h | h | h, _⟩ | ⟨_, h⟩
  · right; rw [h]; decide
  · right; rw [h]; decide
  · right; rw [h]; decide
  · right; rw [h]; decide
  · left; exact h

theorem Pre.complete {o : Order} (h : Pre o) : legal' o.status .executionComplete = true := by
  rcases h with ⟨h | h | h | h, _⟩ | ⟨h, _⟩ <;> rw [h] <;> decide

theorem pre_same {x : Nat} {w w' : World} (h : Same x w w') (hp : Pre (w.order! x)) : Pre (w'.order! x) := by
  unfold Pre at hp ⊢; rw [h.1, h.2]; exact hp

/-! ### the handler steps -/

theorem lx_placeStep (p : Package) (w : World) (a : Nat) (ha : HasOrder w a) (hp : Pre (w.order! a)) : LX w (placeStep p w a) := by
  unfold placeStep
  simp only
  have k1 : LX w (w.tradeEnter (w.order! a).trade).bumpBetId := (lx_tradeEnter w _).trans (LX.of_eq (w := w.tradeEnter (w.order! a).trade) rfl)
  have e1 : Same a w (w.tradeEnter (w.order! a).trade).bumpBetId := same_of_orders (tradeEnter_orders w (w.order! a).trade)
  generalize (w.tradeEnter (w.order! a).trade).bumpBetId = w1 at k1 e1
  generalize placeResponse p w1 (w.order! a) = pr
  have k2 := k1.trans (lx_modifyOrder w1 a (fun o => { o with sim := pr.1 }) (fun _ h => h) ⟨rfl, rfl⟩)
  have e2 := same_trans e1 (same_modifyOrder w1 a (fun o => { o with sim := pr.1 }) (fun _ h => h) ⟨rfl, rfl⟩ a)
  generalize w1.modifyOrder a (fun o => { o with sim := pr.1 }) = w2 at k2 e2
  have k3 := k2.trans (lx_logPlaced w2 a pr.2.betId)
  have e3 : Same a w (w2.logPlaced a pr.2.betId) := by
    refine same_trans e2 ?_
    unfold logPlaced
    have q1 := same_modifyOrder w2 a (fun o => { o with placedAt := some w2.clock }) (fun _ h => h) ⟨rfl, rfl⟩ a
    cases pr.2.betId with
    | none => exact q1
    | some v => exact same_trans (same_trans q1 (same_modifyOrder _ a (fun o => { o with betId := some v }) (fun _ h => h) ⟨rfl, rfl⟩ a)) (same_of_orders rfl)
  generalize w2.logPlaced a pr.2.betId = w3 at k3 e3
  have ha3 : HasOrder w3 a := k3.has a ha
  have hp3 : Pre (w3.order! a) := pre_same e3 hp
  cases pr.2.status with
  | success => exact (k3.trans (lx_orderExecutable w3 a ha3 hp3.executable)).trans (lx_tradeExit _ _)
  | failure => exact (k3.trans (lx_orderExecutionComplete w3 a ha3 hp3.complete)).trans (lx_tradeExit _ _)

theorem lx_cancelStep (p : Package) (acc : World × Nat) (a : Nat) (ha : HasOrder acc.1 a) (hp : Pre (acc.1.order! a)) :
    LX acc.1 (cancelStep p acc a).1 := by
  obtain ⟨w, failed⟩ := acc
  unfold cancelStep
  simp only
  simp only at ha hp
  have k1 := lx_tradeEnter w (w.order! a).trade
  have e1 : Same a w (w.tradeEnter (w.order! a).trade) := same_of_orders (tradeEnter_orders w (w.order! a).trade)
  generalize w.tradeEnter (w.order! a).trade = w1 at k1 e1
  generalize (w.order! a).sim.cancel (((w1.market! p.market).book).getD {}).status
    (if (w.order! a).ud.hasReduction then (w.order! a).ud.sizeReduction else none) = cr
  have k2 := k1.trans (lx_modifyOrder w1 a (fun o => { o with sim := cr.1, cancelResponses := o.cancelResponses + 1 }) (fun _ h => h) ⟨rfl, rfl⟩)
  have e2 := same_trans e1 (same_modifyOrder w1 a (fun o => { o with sim := cr.1, cancelResponses := o.cancelResponses + 1 }) (fun _ h => h) ⟨rfl, rfl⟩ a)
  generalize w1.modifyOrder a (fun o => { o with sim := cr.1, cancelResponses := o.cancelResponses + 1 }) = w2 at k2 e2
  have ha2 : HasOrder w2 a := k2.has a ha
  have hp2 : Pre (w2.order! a) := pre_same e2 hp
  cases cr.2.status with
  | success =>
    simp only
    split
    · exact (k2.trans (lx_orderExecutionComplete w2 a ha2 hp2.complete)).trans (lx_tradeExit _ _)
    · exact (k2.trans (lx_orderExecutable w2 a ha2 hp2.executable)).trans (lx_tradeExit _ _)
  | failure => exact (k2.trans (lx_orderExecutable w2 a ha2 hp2.executable)).trans (lx_tradeExit _ _)

theorem lx_updateStep (p : Package) (acc : World × Nat) (a : Nat) (ha : HasOrder acc.1 a) (hp : Pre (acc.1.order! a)) :
    LX acc.1 (updateStep p acc a).1 := by
  obtain ⟨w, failed⟩ := acc
  unfold updateStep
  simp only
  simp only at ha hp
  have k1 := lx_tradeEnter w (w.order! a).trade
  have e1 : Same a w (w.tradeEnter (w.order! a).trade) := same_of_orders (tradeEnter_orders w (w.order! a).trade)
  generalize w.tradeEnter (w.order! a).trade = w1 at k1 e1
  generalize (w.order! a).sim.update (((w1.market! p.market).book).getD {}).view (w.order! a).sim.persistence = ur
  have k2 := k1.trans (lx_modifyOrder w1 a (fun o => { o with sim := ur.1, updateResponses := o.updateResponses + 1 }) (fun _ h => h) ⟨rfl, rfl⟩)
  have e2 := same_trans e1 (same_modifyOrder w1 a (fun o => { o with sim := ur.1, updateResponses := o.updateResponses + 1 }) (fun _ h => h) ⟨rfl, rfl⟩ a)
  generalize w1.modifyOrder a (fun o => { o with sim := ur.1, updateResponses := o.updateResponses + 1 }) = w2 at k2 e2
  have ha2 : HasOrder w2 a := k2.has a ha
  have hp2 : Pre (w2.order! a) := pre_same e2 hp
  exact (k2.trans (lx_orderExecutable w2 a ha2 hp2.executable)).trans (lx_tradeExit _ _)


/-! ### the simulated replace: the replaced order completes, the replacement is created (no status), placed (PENDING) and
    released (EXECUTABLE) - or refused (EXECUTION_COMPLETE at once) -/

theorem order!_missing (w : World) (oid : Nat) (h : ¬ HasOrder w oid) : w.order! oid = default := by
  unfold order! order?
  cases hf : w.orders.find? (fun x => decide (x.id = oid)) with
  | none => rfl
  | some x => exact absurd ⟨x, hf⟩ h

/-- appending a fresh order (the next id, no status, empty log) -/
theorem ext_append (w : World) (r : Order) (hid : r.id = w.orders.length) (hst : r.status = none) (hlog : r.log = []) (hI : Inv.Inv w)
    (oid : Nat) : Ext (w.order! oid) (({ w with orders := w.orders ++ [r] } : World).order! oid) := by
  have hn : ¬ HasOrder w r.id := by rw [hid]; exact Fl.not_hasOrder_len w w hI (Keeps.refl w)
  by_cases ho : HasOrder w oid
  · rw [Fin.order!_append w { w with orders := w.orders ++ [r] } r rfl oid ho]
    exact Ext.refl _
  · rw [order!_missing w oid ho]
    by_cases e : oid = r.id
    · rw [e, Fl.order!_append_new w { w with orders := w.orders ++ [r] } r rfl hn]
      exact Ext.of_same hst hlog
    · have : ({ w with orders := w.orders ++ [r] } : World).order! oid = default := by
        apply order!_missing
        rintro ⟨x, hx⟩
        simp only [List.find?_append] at hx
        cases hf : w.orders.find? (fun x => decide (x.id = oid)) with
        | some y => exact ho ⟨y, hf⟩
        | none =>
          rw [hf] at hx
          simp only [Option.none_or, List.find?_cons, List.find?_nil] at hx
          split at hx
          · rename_i hd; simp only [decide_eq_true_eq] at hd; exact e hd.symm
          · cases hx
      rw [this]
      exact Ext.refl _

theorem lx_createReplacement (w : World) (a : Nat) (np sz : Rat) (cr : Time) (hI : Inv.Inv w) : LX w (w.createReplacement a np sz cr).1 := by
  have g := good_createReplacement w a np sz cr
  refine ⟨fun oid ho => g.1.hasOrder oid ho, fun oid => ?_⟩
  unfold createReplacement
  simp only
  rw [order!_congr _ _ (setTrade_orders _ _)]
  exact ext_append w _ rfl rfl rfl hI oid

theorem lx_blotterAdd (w : World) (m a : Nat) : LX w (w.blotterAdd m a) := by
  unfold blotterAdd
  exact (LX.of_eq (w := w) (w' := w.modifyMarket m fun mk => { mk with active := true, blotter := mk.blotter ++ [a], live := mk.live ++ [a] }) rfl).trans
    (lx_modifyOrder _ a (fun o => { o with inBlotter := true, blotterClient := o.client }) (fun _ h => h) ⟨rfl, rfl⟩)

/-- `market.place_order(order, execute=False)` on an order without a status: one legal step (PENDING) if it is accepted,
    none if it is refused -/
theorem lx_txnPlace_noexec (w : World) (t : Txn) (rid : Nat) (v : Option Int) (hr : HasOrder w rid) (hst : (w.order! rid).status = none) :
    LX w (w.txnPlace t rid v false false).1 := by
  unfold txnPlace
  simp only [Bool.false_and, Bool.false_eq_true, if_false]
  have k1 := lx_modifyOrder w rid (fun o => { o with client := some t.client }) (fun _ h => h) ⟨rfl, rfl⟩
  have e1 := same_modifyOrder w rid (fun o => { o with client := some t.client }) (fun _ h => h) ⟨rfl, rfl⟩ rid
  have h1 := hasOrder_modify w rid rid (fun o => { o with client := some t.client }) hr (fun _ h => h)
  generalize w.modifyOrder rid (fun o => { o with client := some t.client }) = w1 at k1 e1 h1
  split
  · exact k1
  · have k2 := k1.trans (lx_modifyOrder w1 rid (fun o => { o with publishTime := some (((w1.market! t.market).book).getD {}).pt, marketVersion := v }) (fun _ h => h) ⟨rfl, rfl⟩)
    have e2 := same_trans e1 (same_modifyOrder w1 rid (fun o => { o with publishTime := some (((w1.market! t.market).book).getD {}).pt, marketVersion := v }) (fun _ h => h) ⟨rfl, rfl⟩ rid)
    have h2 := hasOrder_modify w1 rid rid (fun o => { o with publishTime := some (((w1.market! t.market).book).getD {}).pt, marketVersion := v }) h1 (fun _ h => h)
    generalize w1.modifyOrder rid (fun o => { o with publishTime := some (((w1.market! t.market).book).getD {}).pt, marketVersion := v }) = w2 at k2 e2 h2
    unfold orderPlacing
    have hl : legal' (w2.order! rid).status .pending = true := by rw [e2.1, hst]; decide
    have k3 := k2.trans (lx_orderUpdateStatus w2 rid .pending h2 hl)
    generalize w2.orderUpdateStatus rid .pending = w3 at k3
    have k4 := k3.trans (lx_blotterAdd w3 t.market rid)
    split
    · exact k4.trans (LX.of_eq (w := w3.blotterAdd t.market rid) rfl)
    · exact k4

/-- the place half of a simulated replace; `a` is the order being replaced -/
theorem lx_replacePlace (p : Package) (w : World) (o : Order) (a : Nat) (book : Book) (np : Option Rat) (sc : Rat) (failed : Nat)
    (ha : HasOrder w a) (hI : Inv.Inv w) (hp : Pre (w.order! a)) : LX w (replacePlace p w o a book np sc failed).1 := by
  unfold replacePlace
  simp only
  have k1 : LX w (w.orderExecutionComplete a).bumpBetId :=
    (lx_orderExecutionComplete w a ha hp.complete).trans (LX.of_eq (w := w.orderExecutionComplete a) rfl)
  have g1 : Good w (w.orderExecutionComplete a).bumpBetId := (good_orderExecutionComplete w a).trans (good_bumpBetId _)
  have hc1 : ((w.orderExecutionComplete a).bumpBetId.order! a).complete = true := by
    rw [order!_congr _ _ (show (w.orderExecutionComplete a).bumpBetId.orders = (w.orderExecutionComplete a).orders from rfl)]
    rw [C03.executionComplete_self w a ha]; rfl
  generalize (w.orderExecutionComplete a).bumpBetId = w1 at k1 g1 hc1
  have hI1 : Inv.Inv w1 := g1.2 hI
  have ha1 : HasOrder w1 a := g1.1.hasOrder a ha
  obtain ⟨hlen, hst2, _⟩ := Fl.createReplacement_new w1 a (np.getD 0) sc p.created hI1
  have hnb : ∀ m, (w1.createReplacement a (np.getD 0) sc p.created).2 ∉ (w1.market! m).blotter := by
    intro m hc
    have := (hI1.blotter_hasOrder m _ hc)
    rw [hlen] at this
    exact Fl.not_hasOrder_len w1 w1 hI1 (Keeps.refl w1) this
  have hne : a ≠ (w1.createReplacement a (np.getD 0) sc p.created).2 := by
    intro e; rw [hlen] at e
    exact Fl.not_hasOrder_len w1 w1 hI1 (Keeps.refl w1) (e ▸ ha1)
  have hr := createReplacement_mem w1 a (np.getD 0) sc p.created
  have hmkts : (w1.createReplacement a (np.getD 0) sc p.created).1.markets = w1.markets := by unfold createReplacement; rfl
  have s12 := lx_createReplacement w1 a (np.getD 0) sc p.created hI1
  have hc2 : ((w1.createReplacement a (np.getD 0) sc p.created).1.order! a).complete = true := by
    unfold createReplacement
    simp only
    rw [order!_congr _ _ (setTrade_orders _ _), Fin.order!_append w1 { w1 with orders := w1.orders ++ [_] } _ rfl a ha1]
    exact hc1
  unfold Fl.St at hst2
  generalize w1.createReplacement a (np.getD 0) sc p.created = cr at hr hst2 hne s12 hc2 hnb hmkts
  obtain ⟨w2, rid⟩ := cr
  simp only at hr hst2 hne s12 hc2 hnb hmkts ⊢
  have hr2 : HasOrder w2 rid := (hasOrder_iff w2 rid).mpr hr
  have ha2 : HasOrder w2 a := s12.has a ha1
  generalize (w2.order! rid).sim.place p.marketVersion (w2.client! p.client).bpe (w2.client! ((w2.order! rid).client.getD 0)).fullMatch book.view
    ((runnerOf book (w2.order! rid).sel (w2.order! rid).hc).getD { sel := (w2.order! rid).sel }).view false none w2.betId = pr
  have s23 := lx_modifyOrder w2 rid (fun x => { x with sim := pr.1 }) (fun _ h => h) ⟨rfl, rfl⟩
  have e3 := same_modifyOrder w2 rid (fun x => { x with sim := pr.1 }) (fun _ h => h) ⟨rfl, rfl⟩ rid
  have ea3 := same_modifyOrder w2 rid (fun x => { x with sim := pr.1 }) (fun _ h => h) ⟨rfl, rfl⟩ a
  have hm3 : (w2.modifyOrder rid (fun x => { x with sim := pr.1 })).markets = w1.markets := hmkts
  generalize w2.modifyOrder rid (fun x => { x with sim := pr.1 }) = w3 at s23 e3 ea3 hm3
  have hr3 : HasOrder w3 rid := s23.has rid hr2
  have ha3 : HasOrder w3 a := s23.has a ha2
  have hst3 : (w3.order! rid).status = none := by rw [e3.1]; exact hst2
  have hc3 : (w3.order! a).complete = true := by rw [ea3.2]; exact hc2
  have k3 : LX w w3 := (k1.trans s12).trans s23
  cases pr.2.status with
  | success =>
    simp only
    have s34 : LX w3 ((w3.modifyOrder rid (fun x => { x with placedAt := some w3.clock, betId := pr.2.betId })).emit (.orderEvent rid)) :=
      (lx_modifyOrder w3 rid (fun x => { x with placedAt := some w3.clock, betId := pr.2.betId }) (fun _ h => h) ⟨rfl, rfl⟩).trans
      (LX.of_eq (w := w3.modifyOrder rid (fun x => { x with placedAt := some w3.clock, betId := pr.2.betId }))
        (w' := (w3.modifyOrder rid (fun x => { x with placedAt := some w3.clock, betId := pr.2.betId })).emit (.orderEvent rid)) rfl)
    have e4 : Same rid w3 ((w3.modifyOrder rid (fun x => { x with placedAt := some w3.clock, betId := pr.2.betId })).emit (.orderEvent rid)) :=
      same_trans (same_modifyOrder w3 rid (fun x => { x with placedAt := some w3.clock, betId := pr.2.betId }) (fun _ h => h) ⟨rfl, rfl⟩ rid) (same_of_orders rfl)
    have hm4 : ((w3.modifyOrder rid (fun x => { x with placedAt := some w3.clock, betId := pr.2.betId })).emit (.orderEvent rid)).markets = w1.markets := hm3
    generalize (w3.modifyOrder rid (fun x => { x with placedAt := some w3.clock, betId := pr.2.betId })).emit (.orderEvent rid) = w4 at s34 e4 hm4
    have hr4 : HasOrder w4 rid := s34.has rid hr3
    have hst4 : (w4.order! rid).status = none := by rw [e4.1]; exact hst3
    have hnb4 : rid ∉ (w4.market! p.market).blotter := by rw [Inv.market!_congr w4 w1 hm4]; exact hnb p.market
    have s45 := lx_txnPlace_noexec w4 { market := p.market, client := o.client.getD ((w4.clients.head?.map (·.id)).getD 0) } rid none hr4 hst4
    have e5 := txnPlace_noexec_self w4 { market := p.market, client := o.client.getD ((w4.clients.head?.map (·.id)).getD 0) } rid none hr4 hnb4
      (by unfold Fl.St; exact hst4)
    generalize (w4.txnPlace { market := p.market, client := o.client.getD ((w4.clients.head?.map (·.id)).getD 0) } rid none false false).1 = w5 at s45 e5
    have hr5 : HasOrder w5 rid := s45.has rid hr4
    have hl5 : legal' (w5.order! rid).status .executable = true := by
      have := congrArg Prod.fst e5; unfold SC at this; simp only at this; rw [this]; decide
    exact (((k3.trans s34).trans s45).trans (lx_orderExecutable w5 rid hr5 (Or.inr hl5))).trans (lx_tradeExit _ _)
  | failure =>
    simp only
    have hl3 : legal' (w3.order! rid).status .executionComplete = true := by rw [hst3]; decide
    have s34 := lx_orderExecutionComplete w3 rid hr3 hl3
    have f34 := fr_orderExecutionComplete w3 rid w3 rid hr3 (Or.inl rfl)
    have ea4 : Same a w3 (w3.orderExecutionComplete rid) := f34.2 a hne ha3
    generalize w3.orderExecutionComplete rid = w4 at s34 ea4
    have ha4 : HasOrder w4 a := s34.has a ha3
    have hc4 : (w4.order! a).complete = true := by rw [ea4.2]; exact hc3
    exact ((k3.trans s34).trans (lx_orderExecutable w4 a ha4 (Or.inl hc4))).trans (lx_tradeExit _ _)

/-- one step of `execute_replace` -/
theorem lx_replaceStep (p : Package) (acc : World × Nat) (pr : Nat × Option Rat) (ha : HasOrder acc.1 pr.1) (hI : Inv.Inv acc.1)
    (hp : Pre (acc.1.order! pr.1)) : LX acc.1 (replaceStep p acc pr).1 := by
  obtain ⟨w, failed⟩ := acc
  obtain ⟨a, newPrice⟩ := pr
  unfold replaceStep
  simp only
  simp only at ha hI hp
  have k1 := lx_tradeEnter w (w.order! a).trade
  have g1 := good_tradeEnter w (w.order! a).trade
  have e1 : Same a w (w.tradeEnter (w.order! a).trade) := same_of_orders (tradeEnter_orders w (w.order! a).trade)
  generalize w.tradeEnter (w.order! a).trade = w1 at k1 g1 e1
  generalize (w.order! a).sim.cancel (((w1.market! p.market).book).getD {}).status
    (if (w.order! a).ud.hasReduction then (w.order! a).ud.sizeReduction else none) = cr
  have k2 := k1.trans (lx_modifyOrder w1 a (fun o => { o with sim := cr.1, cancelResponses := o.cancelResponses + 1 }) (fun _ h => h) ⟨rfl, rfl⟩)
  have g2 := g1.trans (good_modifyOrder w1 a (fun o => { o with sim := cr.1, cancelResponses := o.cancelResponses + 1 }) (fun _ => rfl))
  have e2 := same_trans e1 (same_modifyOrder w1 a (fun o => { o with sim := cr.1, cancelResponses := o.cancelResponses + 1 }) (fun _ h => h) ⟨rfl, rfl⟩ a)
  generalize w1.modifyOrder a (fun o => { o with sim := cr.1, cancelResponses := o.cancelResponses + 1 }) = w2 at k2 g2 e2
  have ha2 : HasOrder w2 a := k2.has a ha
  have hp2 : Pre (w2.order! a) := pre_same e2 hp
  cases cr.2.status with
  | failure => exact (k2.trans (lx_orderExecutable w2 a ha2 hp2.executable)).trans (lx_tradeExit _ _)
  | success => exact k2.trans (lx_replacePlace p w2 _ a _ newPrice _ failed ha2 (g2.2 hI) hp2)


/-! ### a fold of handler steps over distinct orders, and a whole package -/

theorem fold_lx {σ α} (wof : σ → World) (key : α → Nat) (f : σ → α → σ) (P : World → Prop)
    (hstep : ∀ s a, HasOrder (wof s) (key a) → P (wof s) → Pre ((wof s).order! (key a)) → LX (wof s) (wof (f s a)))
    (hfr : ∀ s a, HasOrder (wof s) (key a) → P (wof s) → Fr (wof s) (key a) (wof s) (wof (f s a)))
    (hP : ∀ s a, HasOrder (wof s) (key a) → P (wof s) → P (wof (f s a)))
    (l : List α) (hnd : (l.map key).Nodup) (s : σ) (hw : P (wof s))
    (hl : ∀ a ∈ l, HasOrder (wof s) (key a) ∧ Pre ((wof s).order! (key a))) : LX (wof s) (wof (l.foldl f s)) := by
  induction l generalizing s with
  | nil => exact LX.refl _
  | cons b rest ih =>
    rw [List.foldl_cons]
    obtain ⟨hb, hpb⟩ := hl b List.mem_cons_self
    have fr := hfr s b hb hw
    rw [List.map_cons, List.nodup_cons] at hnd
    refine (hstep s b hb hw hpb).trans (ih hnd.2 (f s b) (hP s b hb hw) ?_)
    intro x hx
    obtain ⟨hxo, hxp⟩ := hl x (List.mem_cons_of_mem _ hx)
    have hne : key x ≠ key b := fun e => hnd.1 (e ▸ List.mem_map_of_mem hx)
    exact ⟨fr.hasOrder _ hxo, pre_same (fr.2 (key x) hne hxo) hxp⟩

/-- executing a whole package - of any kind - appends only legal steps to the status logs: the orders of the package being
    distinct and each in flight (PENDING / CANCELLING / UPDATING / REPLACING, not complete) or EXECUTION_COMPLETE -/
theorem lx_executePackage (w : World) (p : Package) (hI : Inv.Inv w) (hnd : p.orders.Nodup)
    (hp : ∀ oid ∈ p.orders, HasOrder w oid ∧ Pre (w.order! oid)) : LX w (w.executePackage p) := by
  have hpo : ∀ oid ∈ w.packageOrders p, HasOrder w oid ∧ Pre (w.order! oid) := fun oid h => hp oid (List.mem_filter.mp h).1
  have hndp : (w.packageOrders p).Nodup := hnd.filter _
  unfold executePackage
  cases p.kind with
  | place =>
    simp only; unfold executePlace
    have := fold_lx (σ := World) id id (placeStep p) Inv.Inv
      (fun s a h _ hpre => lx_placeStep p s a h hpre)
      (fun s a h _ => fr_placeStep s p s a h)
      (fun s a _ hi => (good_placeStep p s a).2 hi) (w.packageOrders p) (by simpa using hndp) w hI hpo
    simp only [id] at this
    exact this.trans (LX.of_eq rfl)
  | cancel =>
    simp only; unfold executeCancel
    simp only
    have := fold_lx (σ := World × Nat) (·.1) id (cancelStep p) Inv.Inv
      (fun s a h _ hpre => lx_cancelStep p s a h hpre)
      (fun s a h _ => fr_cancelStep s.1 p s a h)
      (fun s a _ hi => (good_cancelStep p s a).2 hi) (w.packageOrders p) (by simpa using hndp) (w, 0) hI hpo
    generalize (w.packageOrders p).foldl (cancelStep p) (w, 0) = r at this
    obtain ⟨w1, failed⟩ := r
    simp only at this ⊢
    split
    · exact this.trans (LX.of_eq rfl)
    · exact this
  | update =>
    simp only; unfold executeUpdate
    simp only
    have := fold_lx (σ := World × Nat) (·.1) id (updateStep p) Inv.Inv
      (fun s a h _ hpre => lx_updateStep p s a h hpre)
      (fun s a h _ => fr_updateStep s.1 p s a h)
      (fun s a _ hi => (good_updateStep p s a).2 hi) (w.packageOrders p) (by simpa using hndp) (w, 0) hI hpo
    generalize (w.packageOrders p).foldl (updateStep p) (w, 0) = r at this
    obtain ⟨w1, failed⟩ := r
    simp only at this ⊢
    split
    · exact this.trans (LX.of_eq rfl)
    · exact this
  | replace =>
    simp only; unfold executeReplace
    simp only
    have hz : ∀ a ∈ (((w.packageOrders p).filter fun oid => (w.order! oid).status ≠ some .executionComplete).map fun oid => (oid, (w.order! oid).ud.newPrice)),
        HasOrder w a.1 ∧ Pre (w.order! a.1) := by
      intro a ha
      obtain ⟨oid, ho, rfl⟩ := List.mem_map.mp ha
      exact hpo oid (List.mem_filter.mp ho).1
    have hndz : ((((w.packageOrders p).filter fun oid => (w.order! oid).status ≠ some .executionComplete).map fun oid => (oid, (w.order! oid).ud.newPrice)).map (·.1)).Nodup := by
      rw [List.map_map]
      have : ((fun (x : Nat × Option Rat) => x.1) ∘ fun oid => (oid, (w.order! oid).ud.newPrice)) = id := by funext x; rfl
      rw [this, List.map_id]
      exact hndp.filter _
    generalize (((w.packageOrders p).filter fun oid => (w.order! oid).status ≠ some .executionComplete).map fun oid => (oid, (w.order! oid).ud.newPrice)) = zs at hz hndz
    have := fold_lx (σ := World × Nat) (·.1) (·.1) (replaceStep p) Inv.Inv
      (fun s a h hi hpre => lx_replaceStep p s a h hi hpre)
      (fun s a h hi => fr_replaceStep s.1 p s a h hi (Ids.Keeps.refl s.1))
      (fun s a _ hi => (good_replaceStep p s a).2 hi) zs hndz (w, 0) hI hz
    generalize zs.foldl (replaceStep p) (w, 0) = r at this
    obtain ⟨w1, failed⟩ := r
    simp only at this ⊢
    split
    · exact (this.trans (LX.of_eq rfl)).trans (LX.of_eq rfl)
    · exact this.trans (LX.of_eq rfl)


/-! ### the whole log of an order is a legal path from "no status" -/

def LLo (o : Order) : Prop := chain none o.log = true ∧ o.status = lastOr none o.log

theorem LLo.ext {o o' : Order} (h : LLo o) (e : Ext o o') : LLo o' := by
  obtain ⟨p, hp1, hp2, hp3⟩ := e
  refine ⟨?_, ?_⟩
  · rw [hp1, chain_append, h.1, ← h.2, hp2]; rfl
  · rw [hp3, hp1, lastOr_append, ← h.2]

/-- every order of the world has a legal log (the default order - an id that names no order - trivially) -/
def LL (w : World) : Prop := ∀ oid, LLo (w.order! oid)

theorem LL.step {w w' : World} (h : LL w) (x : LX w w') : LL w' := fun oid => (h oid).ext (x.ext oid)

/-- a legal log never ends in EXPIRED (no legal step leads there) -/
theorem LLo.not_expired {o : Order} (h : LLo o) : o.status ≠ some .expired := by
  obtain ⟨h1, h2⟩ := h
  rw [h2]
  clear h2
  suffices ∀ (s : Option Status) (l : List Status), s ≠ some .expired → chain s l = true → lastOr s l ≠ some .expired from
    this none o.log (by simp) h1
  intro s l
  induction l generalizing s with
  | nil => intro hs _; exact hs
  | cons t r ih =>
    intro _ hc
    simp only [chain, Bool.and_eq_true] at hc
    refine ih (some t) ?_ hc.2
    intro e
    cases Option.some.inj e
    revert hc
    cases s with
    | none => simp [legal', C03.legal]
    | some s' => cases s' <;> simp [legal', C03.legal]

/-! ### the due packages, one after the other -/

theorem pre_of_sent {o : Order} (h : Fin.Sent o) (hne : o.status ≠ some .executable) : Pre o := by
  obtain ⟨hs, hc⟩ := h
  rcases hs with h | h | h | h | h | h
  · exact Or.inl ⟨Or.inl h, by rw [hc _ h]; rfl⟩
  · exact absurd h hne
  · exact Or.inl ⟨Or.inr (Or.inl h), by rw [hc _ h]; rfl⟩
  · exact Or.inl ⟨Or.inr (Or.inr (Or.inl h)), by rw [hc _ h]; rfl⟩
  · exact Or.inl ⟨Or.inr (Or.inr (Or.inr h)), by rw [hc _ h]; rfl⟩
  · exact Or.inr ⟨h, by rw [hc _ h]; rfl⟩

theorem lx_execAll (l : List Package) (w : World) (hI : Inv.Inv w) (hnd : (l.flatMap (·.orders)).Nodup)
    (hp : ∀ p ∈ l, ∀ oid ∈ p.orders, HasOrder w oid ∧ Pre (w.order! oid)) : LX w (l.foldl (fun w p => w.executePackage p) w) := by
  induction l generalizing w with
  | nil => exact LX.refl w
  | cons p rest ih =>
    rw [List.foldl_cons]
    rw [List.flatMap_cons, List.nodup_append] at hnd
    obtain ⟨hndp, hndr, hdis⟩ := hnd
    have hpp := hp p List.mem_cons_self
    have s1 := lx_executePackage w p hI hndp hpp
    refine s1.trans (ih (w.executePackage p) ((good_executePackage w p).2 hI) hndr ?_)
    intro q hq oid ho
    obtain ⟨hoo, hpo⟩ := hp q (List.mem_cons_of_mem _ hq) oid ho
    have hnp : oid ∉ p.orders := fun hin => hdis oid hin oid (List.mem_flatMap.mpr ⟨q, hq, ho⟩) rfl
    exact ⟨s1.has oid hoo, pre_same (fr_executePackage w p hI (fun x hx => (hpp x hx).1) oid hoo hnp) hpo⟩

/-- `_check_pending_packages`: in a state where the queued packages hold distinct orders, none of them EXECUTABLE, all of
    them in their market's blotter - what `FI` and `BI` say of every reachable state - executing the due packages appends
    only legal steps -/
theorem lx_checkPendingPackages (w : World) (mid : Nat) (f : Fl.FI w none) (hB : ∀ M, Fin.BI M w) : LX w (w.checkPendingPackages mid) := by
  unfold checkPendingPackages
  simp only
  have hsub := Fl.sublist_flatMap_filter w.queue (·.orders) (fun p => decide (p.market = mid ∧ p.delay < elapsedSeconds w.clock p.created))
  have hq : Fl.pendIds w none = w.queue.flatMap (·.orders) := by unfold Fl.pendIds Fl.batchIds Fl.queueIds; simp
  have hnd : ((w.queue.filter fun p => decide (p.market = mid ∧ p.delay < elapsedSeconds w.clock p.created)).flatMap (·.orders)).Nodup :=
    hsub.nodup (hq ▸ f.nd)
  have hp : ∀ p ∈ (w.queue.filter fun p => decide (p.market = mid ∧ p.delay < elapsedSeconds w.clock p.created)), ∀ oid ∈ p.orders,
      HasOrder w oid ∧ Pre (w.order! oid) := by
    intro p hpm oid ho
    have hin : oid ∈ Fl.pendIds w none := by rw [hq]; exact List.mem_flatMap.mpr ⟨p, (List.mem_filter.mp hpm).1, ho⟩
    have hhome := f.hm oid hin
    unfold Fl.Home at hhome
    exact ⟨f.ex oid hin, pre_of_sent ((hB _).sent oid hhome) (f.ne oid hin)⟩
  exact (lx_execAll _ w f.inv hnd hp).trans (LX.of_eq rfl)


/-! ### matching, removals, the completion loop, the close: `execution_complete()` on orders of a blotter -/

theorem sent_complete_legal {o : Order} (h : Fin.Sent o) : legal' o.status .executionComplete = true := by
  rcases h.1 with h | h | h | h | h | h <;> rw [h] <;> decide

/-- a fold whose steps keep the blotter invariant of market `mid`, each step about an order of that blotter -/
theorem fold_bi {σ α} (mid : Nat) (wof : σ → World) (key : α → Nat) (f : σ → α → σ)
    (hstep : ∀ s a, Fin.BI mid (wof s) → key a ∈ ((wof s).market! mid).blotter → LX (wof s) (wof (f s a)) ∧ Fin.FS mid (wof s) (wof (f s a)))
    (l : List α) (s : σ) (hb : Fin.BI mid (wof s)) (hin : ∀ a ∈ l, key a ∈ ((wof s).market! mid).blotter) :
    LX (wof s) (wof (l.foldl f s)) ∧ Fin.BI mid (wof (l.foldl f s)) := by
  induction l generalizing s with
  | nil => exact ⟨LX.refl _, hb⟩
  | cons b rest ih =>
    rw [List.foldl_cons]
    obtain ⟨x1, f1⟩ := hstep s b hb (hin b List.mem_cons_self)
    obtain ⟨hb1, st1⟩ := f1.2 hb
    obtain ⟨x2, hb2⟩ := ih (f s b) hb1 (fun a ha => st1.1 _ (hin a (List.mem_cons_of_mem _ ha)))
    exact ⟨x1.trans x2, hb2⟩

theorem fold_bi' {α} (mid : Nat) (f : World → α → World)
    (hstep : ∀ w a, Fin.BI mid w → LX w (f w a) ∧ Fin.FS mid w (f w a))
    (l : List α) (w : World) (hb : Fin.BI mid w) : LX w (l.foldl f w) ∧ Fin.BI mid (l.foldl f w) := by
  induction l generalizing w with
  | nil => exact ⟨LX.refl _, hb⟩
  | cons b rest ih =>
    rw [List.foldl_cons]
    obtain ⟨x1, f1⟩ := hstep w b hb
    obtain ⟨x2, hb2⟩ := ih (f w b) (f1.2 hb).1
    exact ⟨x1.trans x2, hb2⟩

theorem removalOnOrder_log (w : World) (m : Market) (rsel : Nat) (rhc : Rat) (raf : Option Rat) (o : Order) :
    (w.removalOnOrder m rsel rhc raf o).log = o.log := by
  unfold removalOnOrder
  simp only
  repeat' split
  all_goals rfl

theorem lx_processRunnerRemoval (w : World) (mid rsel : Nat) (rhc : Rat) (raf : Option Rat) : LX w (w.processRunnerRemoval mid rsel rhc raf) := by
  unfold processRunnerRemoval
  simp only
  exact lx_foldl _ (fun w oid => lx_modifyOrder w oid _ (fun o h => by rw [Ids.removalOnOrder_id w _ rsel rhc raf o]; exact h)
    ⟨(Fin.removalOnOrder_status w _ rsel rhc raf _).1, removalOnOrder_log w _ rsel rhc raf _⟩) _ w

theorem lx_matchStep (mid : Nat) (r : Bool) (acc : World × List (Nat × Rat × List (Rat × Rat))) (o0 : Order)
    (hb : Fin.BI mid acc.1) (hin : o0.id ∈ (acc.1.market! mid).blotter) : LX acc.1 (matchStep mid r acc o0).1 := by
  obtain ⟨w, lk⟩ := acc
  simp only at hb hin
  have ho : HasOrder w o0.id := hb.inv.blotter_hasOrder mid _ hin
  have hid : (w.order! o0.id).id = o0.id := order!_id w o0.id ho
  unfold matchStep
  simp only
  split
  · exact LX.refl w
  · generalize (w.order! o0.id).sim.call _ _ _ _ = cr
    rw [hid]
    have k1 := lx_modifyOrder w o0.id (fun x => { x with sim := cr.1 }) (fun _ h => h) ⟨rfl, rfl⟩
    have e1 := same_modifyOrder w o0.id (fun x => { x with sim := cr.1 }) (fun _ h => h) ⟨rfl, rfl⟩ o0.id
    split
    · refine k1.trans (lx_orderExecutionComplete _ o0.id (k1.has _ ho) ?_)
      rw [e1.1]; exact sent_complete_legal (hb.sent _ hin)
    · exact k1

theorem lx_matchOrders (w : World) (mid : Nat) (l : List Order) (r : Bool) (hb : Fin.BI mid w)
    (hl : ∀ x ∈ l, x.id ∈ (w.market! mid).blotter) : LX w (w.matchOrders mid l r) ∧ Fin.BI mid (w.matchOrders mid l r) := by
  unfold matchOrders
  exact fold_bi mid (·.1) (fun (x : Order) => x.id) (matchStep mid r)
    (fun s a hbs hin => ⟨lx_matchStep mid r s a hbs hin, Fin.fs_matchStep mid mid r s a (hbs.inv.blotter_hasOrder mid _ hin)⟩)
    l (w, (w.market! mid).analytics.map fun a => (a.sel, a.hc, a.traded)) hb hl

theorem blotter_order_id (w : World) (mid : Nat) (hb : Fin.BI mid w) (l : List Nat) (hl : ∀ oid ∈ l, oid ∈ (w.market! mid).blotter)
    (x : Order) (hx : x ∈ l.map w.order!) : x.id ∈ (w.market! mid).blotter := by
  obtain ⟨oid, ho, rfl⟩ := List.mem_map.mp hx
  rw [order!_id w oid (hb.inv.blotter_hasOrder mid oid (hl oid ho))]
  exact hl oid ho

theorem lx_matchStrategy (mid : Nat) (w : World) (sid : Nat) (hb : Fin.BI mid w) :
    LX w (matchStrategy mid w sid) ∧ Fin.FS mid w (matchStrategy mid w sid) := by
  refine ⟨?_, Fin.fs_matchStrategy mid mid w sid⟩
  unfold matchStrategy
  simp only
  split
  · exact LX.refl w
  · refine (lx_matchOrders w mid _ false hb ?_).1
    intro x hx
    have hx1 := Fin.mem_sortOrders' _ x hx
    unfold strategyLive at hx1
    exact blotter_order_id w mid hb _ (fun _ h => h) x (List.mem_filter.mp hx1).1

theorem lx_mwProcessSimulatedOrders (w : World) (mid : Nat) (hb : Fin.BI mid w) : LX w (w.mwProcessSimulatedOrders mid) := by
  unfold mwProcessSimulatedOrders
  simp only
  split
  · exact (fold_bi' mid (matchStrategy mid) (fun w sid h => lx_matchStrategy mid w sid h) _ w hb).1
  · split
    · exact LX.refl w
    · refine (lx_matchOrders w mid _ true hb ?_).1
      intro x hx
      exact blotter_order_id w mid hb _ (fun oid ho => hb.inv.live_sub mid oid ho) x (Fin.mem_sortOrders' _ x hx)

theorem lx_mwUpdateAnalytics (w : World) (mid : Nat) : LX w (w.mwUpdateAnalytics mid).1 := by
  unfold mwUpdateAnalytics
  exact LX.of_eq rfl

theorem lx_simulatedMiddleware (w : World) (mid : Nat) (hb : Fin.BI mid w) : LX w (w.simulatedMiddleware mid) := by
  unfold simulatedMiddleware
  simp only
  have k1 := lx_mwUpdateAnalytics w mid
  have b1 := ((Fin.fs_mwUpdateAnalytics mid w mid).2 hb).1
  generalize w.mwUpdateAnalytics mid = p at k1 b1
  have k2 := fold_bi' mid (fun w (k : Nat × Rat × Option Rat) => w.processRunnerRemoval mid k.1 k.2.1 k.2.2)
    (fun w k _ => ⟨lx_processRunnerRemoval w mid k.1 k.2.1 k.2.2, Fin.fs_processRunnerRemoval mid w mid k.1 k.2.1 k.2.2⟩) p.2 p.1 b1
  split
  · exact (k1.trans k2.1).trans (lx_mwProcessSimulatedOrders _ mid k2.2)
  · exact k1.trans k2.1

theorem lx_blotterComplete (w : World) (m oid : Nat) : LX w (w.blotterComplete m oid) := LX.of_eq rfl

/-- one order of the completion loop -/
theorem lx_loopStep (mid : Nat) (w : World) (oid : Nat) (hb : Fin.BI mid w) (hin : oid ∈ (w.market! mid).blotter) :
    LX w (let o := w.order! oid
      if o.complete then w.blotterComplete mid oid
      else match o.sim.kind with
        | .limit => if o.sim.sizeRemaining = 0 then (w.orderExecutionComplete oid).blotterComplete mid oid else w
        | _ => if o.sim.simStatus = .executionComplete then (w.orderExecutionComplete oid).blotterComplete mid oid else w) := by
  have ho : HasOrder w oid := hb.inv.blotter_hasOrder mid oid hin
  have hdone : LX w ((w.orderExecutionComplete oid).blotterComplete mid oid) :=
    (lx_orderExecutionComplete w oid ho (sent_complete_legal (hb.sent oid hin))).trans (lx_blotterComplete _ mid oid)
  simp only
  split
  · exact lx_blotterComplete w mid oid
  · split
    · split
      · exact hdone
      · exact LX.refl w
    · split
      · exact hdone
      · exact LX.refl w

theorem lx_processSimulatedOrders (w : World) (mid : Nat) (hb : Fin.BI mid w) : LX w (w.processSimulatedOrders mid) := by
  unfold processSimulatedOrders
  simp only
  have k1 := fold_bi mid id id (fun w oid =>
      let o := w.order! oid
      if o.complete then w.blotterComplete mid oid
      else match o.sim.kind with
        | .limit => if o.sim.sizeRemaining = 0 then (w.orderExecutionComplete oid).blotterComplete mid oid else w
        | _ => if o.sim.simStatus = .executionComplete then (w.orderExecutionComplete oid).blotterComplete mid oid else w)
    (fun w oid hbw hin => ⟨lx_loopStep mid w oid hbw hin, Fin.fs_loopStep mid mid w oid (hbw.inv.blotter_hasOrder mid oid hin)⟩)
    (w.market! mid).live w hb (fun oid ho => hb.inv.live_sub mid oid ho)
  refine k1.1.trans (lx_foldl _ ?_ _ _)
  intro w s
  split
  · exact LX.of_eq rfl
  · exact LX.refl w

theorem lx_blotterProcessClosed (w : World) (mid : Nat) (book : Book) (hb : Fin.BI mid w) : LX w (w.blotterProcessClosed mid book) := by
  unfold blotterProcessClosed
  simp only
  refine (fold_bi mid id id _ ?_ (w.market! mid).blotter w hb (fun _ h => h)).1
  intro w oid hbw hin
  have ho : HasOrder w oid := hbw.inv.blotter_hasOrder mid oid hin
  simp only [id]
  split
  · exact ⟨LX.refl w, Fin.FS.refl mid w⟩
  · refine ⟨?_, Fin.fs_setOrder mid w oid _ ho ⟨order!_id w oid ho, rfl, rfl⟩⟩
    rw [setOrder_eq_modify]
    simp only [order!_id w oid ho]
    exact lx_modifyOrder w oid _ (fun _ _ => rfl) ⟨rfl, rfl⟩


/-! ### requests -/

theorem lx_orderViolation (w : World) (a : Nat) (msg : String) (ha : HasOrder w a) : LX w (w.orderViolation a msg) := by
  unfold orderViolation
  split
  · exact LX.refl w
  · rename_i hg
    have hl : legal' (w.order! a).status .violation = true := by
      cases hs : (w.order! a).status with
      | none => decide
      | some s =>
        rw [hs] at hg
        simp only [Option.isSome_some, true_and, ne_eq, Decidable.not_not] at hg
        rw [hg]; decide
    exact (lx_orderUpdateStatus w a .violation ha hl).trans
      (lx_modifyOrder (w.orderUpdateStatus a .violation) a (fun o => { o with ud := {}, violationMsg := some msg }) (fun _ h => h) ⟨rfl, rfl⟩)

/-- an accepted cancel / update / replace request: the order was EXECUTABLE -/
theorem lx_request (w : World) (a : Nat) (o' : Order) (s : Status) (ha : HasOrder w a) (hid : o'.id = a)
    (hst : o'.status = (w.order! a).status) (hlog : o'.log = (w.order! a).log)
    (hx : (w.order! a).status = some .executable) (hs : s = .cancelling ∨ s = .updating ∨ s = .replacing) :
    LX w ((w.setOrder o').orderUpdateStatus a s) := by
  have k1 : LX w (w.setOrder o') := by
    rw [setOrder_eq_modify, hid]
    exact lx_modifyOrder w a (fun _ => o') (fun _ _ => hid) ⟨hst, hlog⟩
  refine k1.trans (lx_orderUpdateStatus _ a s (k1.has a ha) ?_)
  have := order!_setOrder_self w o' (by rw [hid]; exact ha)
  rw [hid] at this
  rw [this, hst, hx]
  rcases hs with e | e | e <;> rw [e] <;> decide

theorem lx_orderCancel (w w' : World) (a : Nat) (red : Option Rat) (ha : HasOrder w a) (h : w.orderCancel a red = .ok w') : LX w w' := by
  unfold orderCancel at h
  simp only at h
  split_ifs at h with h1 h2 h3 h4
  have := (Except.ok.inj h).symm
  subst this
  exact lx_request w a _ .cancelling ha (order!_id w a ha) rfl rfl (Decidable.of_not_not h4) (Or.inl rfl)

theorem lx_orderUpdate (w w' : World) (a : Nat) (p : String) (ha : HasOrder w a) (h : w.orderUpdate a p = .ok w') : LX w w' := by
  unfold orderUpdate at h
  simp only at h
  split_ifs at h with h1 h2 h3 h4
  have := (Except.ok.inj h).symm
  subst this
  exact lx_request w a _ .updating ha (order!_id w a ha) rfl rfl (Decidable.of_not_not h4) (Or.inr (Or.inl rfl))

theorem lx_orderReplace (w w' : World) (a : Nat) (p : Rat) (ha : HasOrder w a) (h : w.orderReplace a p = .ok w') : LX w w' := by
  unfold orderReplace at h
  simp only at h
  split_ifs at h with h1 h2 h3 h4
  have := (Except.ok.inj h).symm
  subst this
  exact lx_request w a _ .replacing ha (order!_id w a ha) rfl rfl (Decidable.of_not_not h4) (Or.inr (Or.inr rfl))

theorem lx_setCtx (w : World) (c : RunnerCtx) : LX w (w.setCtx c) := LX.of_eq (setCtx_orders w c)
theorem lx_setClient (w : World) (c : Client) : LX w (w.setClient c) := LX.of_eq rfl

theorem lx_validateControls (w : World) (oid cid : Nat) (k : PackKind) (ho : HasOrder w oid) : LX w (w.validateControls oid cid k).1 := by
  unfold validateControls
  simp only
  split
  · exact lx_orderViolation w oid _ ho
  · split
    · exact lx_orderViolation w oid _ ho
    · split
      · split_ifs
        · exact (lx_setCtx w _).trans (lx_orderViolation _ oid _ ((lx_setCtx w _).has oid ho))
        · exact lx_orderViolation w oid _ ho
      · split_ifs
        · exact (lx_setCtx w _).trans (lx_setClient _ _)
        · exact ((lx_setCtx w _).trans (lx_setClient _ _)).trans (lx_orderViolation _ oid _ (((lx_setCtx w _).trans (lx_setClient _ _)).has oid ho))
        · exact lx_setClient w _
        · exact (lx_setClient w _).trans (lx_orderViolation _ oid _ ((lx_setClient w _).has oid ho))

theorem lx_txnCancel (w : World) (t : Txn) (oid : Nat) (red : Option Rat) (f : Bool) (ho : HasOrder w oid) :
    LX w (w.txnCancel t oid red f).1 := by
  unfold txnCancel
  simp only
  split
  · exact LX.refl w
  · have k1 : LX w (if (!f) = true then w.validateControls oid t.client .cancel else (w, none)).1 := by
      split
      · exact lx_validateControls w oid t.client .cancel ho
      · exact LX.refl w
    generalize (if (!f) = true then w.validateControls oid t.client .cancel else (w, none)) = vr at k1
    obtain ⟨w1, r⟩ := vr
    cases r with
    | some r => exact k1
    | none =>
      simp only at k1 ⊢
      cases h : w1.orderCancel oid red with
      | error e => exact k1
      | ok w2 => exact k1.trans (lx_orderCancel w1 w2 oid red (k1.has oid ho) h)

theorem lx_txnUpdate (w : World) (t : Txn) (oid : Nat) (p : String) (f : Bool) (ho : HasOrder w oid) :
    LX w (w.txnUpdate t oid p f).1 := by
  unfold txnUpdate
  simp only
  split
  · exact LX.refl w
  · have k1 : LX w (if (!f) = true then w.validateControls oid t.client .update else (w, none)).1 := by
      split
      · exact lx_validateControls w oid t.client .update ho
      · exact LX.refl w
    generalize (if (!f) = true then w.validateControls oid t.client .update else (w, none)) = vr at k1
    obtain ⟨w1, r⟩ := vr
    cases r with
    | some r => exact k1
    | none =>
      simp only at k1 ⊢
      cases h : w1.orderUpdate oid p with
      | error e => exact k1
      | ok w2 => exact k1.trans (lx_orderUpdate w1 w2 oid p (k1.has oid ho) h)

theorem lx_txnReplace (w : World) (t : Txn) (oid : Nat) (p : Rat) (v : Option Int) (f : Bool) (ho : HasOrder w oid) :
    LX w (w.txnReplace t oid p v f).1 := by
  unfold txnReplace
  simp only
  split
  · exact LX.refl w
  · have k1 : LX w (if (!f) = true then w.validateControls oid t.client .replace else (w, none)).1 := by
      split
      · exact lx_validateControls w oid t.client .replace ho
      · exact LX.refl w
    generalize (if (!f) = true then w.validateControls oid t.client .replace else (w, none)) = vr at k1
    obtain ⟨w1, r⟩ := vr
    cases r with
    | some r => exact k1
    | none =>
      simp only at k1 ⊢
      cases h : w1.orderReplace oid p with
      | error e => exact k1
      | ok w2 => exact k1.trans (lx_orderReplace w1 w2 oid p (k1.has oid ho) h)

/-- `Transaction.place_order`: an order that is accepted had no status or was a refused order that never left - given that an
    order with any other status is in the blotter of the transaction's market or EXECUTION_COMPLETE, and so refused -/
theorem lx_txnPlace (w : World) (t : Txn) (oid : Nat) (v : Option Int) (ex force : Bool) (ho : HasOrder w oid)
    (hU : Fl.Unsent (Fl.St w oid) ∨ oid ∈ (w.market! t.market).blotter ∨ Fl.St w oid = some .executionComplete) :
    LX w (w.txnPlace t oid v ex force).1 := by
  unfold txnPlace
  simp only
  have k0 := lx_modifyOrder w oid (fun o => { o with client := some t.client }) (fun _ h => h) ⟨rfl, rfl⟩
  have q0 := Fl.q_modifyOrder w [] w oid (fun o => { o with client := some t.client }) (fun _ h => h) rfl rfl
  generalize w.modifyOrder oid (fun o => { o with client := some t.client }) = w0 at k0 q0
  have h0 := k0.has oid ho
  have k1 : LX w0 (if (ex && !force) = true then w0.validateControls oid t.client .place else (w0, none)).1 ∧
      Fl.Q w [] w0 (if (ex && !force) = true then w0.validateControls oid t.client .place else (w0, none)).1 := by
    split
    · exact ⟨lx_validateControls w0 oid t.client .place h0, Fl.q_validateControls w [] w0 oid t.client .place h0⟩
    · exact ⟨LX.refl w0, Fl.Q.refl w [] w0⟩
  generalize (if (ex && !force) = true then w0.validateControls oid t.client .place else (w0, none)) = vr at k1
  obtain ⟨w1, r⟩ := vr
  simp only at k1 ⊢
  obtain ⟨k1, q1⟩ := k1
  have h1 := k1.has oid h0
  have q01 := q0.trans q1
  cases r with
  | some r => exact k0.trans k1
  | none =>
    simp only
    split
    · exact k0.trans k1
    · rename_i hnc
      rw [Bool.or_eq_true, not_or] at hnc
      have hn1 : oid ∉ (w1.market! t.market).blotter := fun hin => hnc.1 (List.contains_iff_mem.mpr hin)
      have hne1 : (w1.order! oid).status ≠ some .executionComplete := by
        intro he; apply hnc.2; rw [he]; rfl
      -- the status the order has now is "unsent"
      have hun : Fl.Unsent (w1.order! oid).status := by
        have hmv := q01.fr oid ho ho
        unfold Fl.St at hmv
        rcases hmv with e | e | ⟨hx, _⟩ | ⟨hu, e⟩
        · rw [e]
          rcases hU with hU | hU | hU
          · exact hU
          · exact absurd (q01.bl t.market oid hU) hn1
          · unfold Fl.St at hU; rw [e, hU] at hne1; exact absurd rfl hne1
        · exact absurd e hne1
        · cases hx
        · rw [e]; exact Or.inr rfl
      have k2 := lx_modifyOrder w1 oid (fun o => { o with publishTime := some (((w1.market! t.market).book).getD {}).pt, marketVersion := v }) (fun _ h => h) ⟨rfl, rfl⟩
      have e2 : ((w1.modifyOrder oid (fun o => { o with publishTime := some (((w1.market! t.market).book).getD {}).pt, marketVersion := v })).order! oid).status = (w1.order! oid).status := by
        rw [order!_modify_self w1 oid _ h1 (by intro x hx; exact hx)]
      generalize w1.modifyOrder oid (fun o => { o with publishTime := some (((w1.market! t.market).book).getD {}).pt, marketVersion := v }) = w2 at k2 e2
      have h2 := k2.has oid h1
      have hl2 : legal' (w2.order! oid).status .pending = true := by
        rw [e2]; rcases hun with e | e <;> rw [e] <;> decide
      have k3 := lx_orderUpdateStatus w2 oid .pending h2 hl2
      have base := ((k0.trans k1).trans k2).trans k3
      unfold orderPlacing
      generalize w2.orderUpdateStatus oid .pending = w3 at base
      have k4 := base.trans (lx_blotterAdd w3 t.market oid)
      split
      · split
        · exact (k4.trans (LX.of_eq rfl)).trans (LX.of_eq (ctxPlace_orders _ _ _))
        · exact k4.trans (LX.of_eq (ctxPlace_orders _ _ _))
      · split
        · exact k4.trans (LX.of_eq rfl)
        · exact k4

theorem lx_txnExecute (w : World) (t : Txn) : LX w (w.txnExecute t).1 := LX.of_eq (txnExecute_orders w t)

theorem lx_txnExit (w : World) (t : Txn) : LX w (w.txnExit t) := by
  unfold txnExit
  split
  · exact lx_txnExecute w t
  · exact LX.refl w


/-! ### one scripted action, under the invariants of a reachable state -/

/-- in a reachable state (requests through the order's own market) an order is unsent, or in its market's blotter, or
    EXECUTION_COMPLETE: a placement of it through its own market is legal or refused -/
theorem unsent_or_refused {w : World} {b : Option Txn} (hf : Fl.FI w b) (c : CV w b) (hl : LL w) (oid : Nat) (ho : HasOrder w oid)
    (M : Nat) (hM : (w.order! oid).market = M) :
    Fl.Unsent (Fl.St w oid) ∨ oid ∈ (w.market! M).blotter ∨ Fl.St w oid = some .executionComplete := by
  have home_in : Fl.Home w oid → oid ∈ (w.market! M).blotter := fun h => by unfold Fl.Home at h; rw [hM] at h; exact h
  have hinfl : InFl (Fl.St w oid) → oid ∈ (w.market! M).blotter := fun h => home_in (hf.hm oid (c.cv oid ho h))
  cases hs : Fl.St w oid with
  | none => exact Or.inl (Or.inl rfl)
  | some s =>
    cases s with
    | pending => exact Or.inr (Or.inl (hinfl (by rw [hs]; exact Or.inl rfl)))
    | cancelling => exact Or.inr (Or.inl (hinfl (by rw [hs]; exact Or.inr (Or.inl rfl))))
    | updating => exact Or.inr (Or.inl (hinfl (by rw [hs]; exact Or.inr (Or.inr (Or.inl rfl)))))
    | replacing => exact Or.inr (Or.inl (hinfl (by rw [hs]; exact Or.inr (Or.inr (Or.inr rfl)))))
    | executable => exact Or.inr (Or.inl (home_in (hf.hx oid ho hs)))
    | executionComplete => exact Or.inr (Or.inr rfl)
    | violation => exact Or.inl (Or.inr rfl)
    | expired => exact absurd hs ((hl oid).not_expired)

theorem lx_doActionCore (w : World) (mid : Nat) (batch : Option Txn) (a : Action) (h : Fl.FIm mid w batch) (c : CV w batch) (hl : LL w)
    (hloc : a.foreign w mid = false) : LX w (w.doActionCore mid batch a).1 := by
  obtain ⟨hf, hex, hbm⟩ := h
  unfold doActionCore
  simp only
  split
  · exact LX.refl w
  · rename_i hmiss
    have hin : ∀ tg, a.target? = some tg → HasOrder w (tg.resolve w) := by
      intro tg htg
      rw [hasOrder_iff]
      apply target_mem w tg hf.inv
      rw [htg] at hmiss
      simpa using hmiss
    have hlocal : ∀ tg, a.target? = some tg → (w.order! (tg.resolve w)).market = mid := by
      intro tg htg
      unfold Action.foreign at hloc
      rw [htg] at hloc hmiss
      simp only [Option.map_some, Option.getD_some, Bool.not_eq_true] at hmiss
      simp only [hmiss, Bool.not_false, Bool.true_and, decide_eq_false_iff_not, ne_eq, Decidable.not_not] at hloc
      exact hloc
    cases a with
    | create o tr =>
      have hk : ∀ (w' : World), w'.orders = w.orders ++ [{ o with id := w.orders.length, created := w.clock, statusAt := w.clock, status := none, complete := false, log := [] }] →
          LX w w' := by
        intro w' h1
        refine ⟨fun oid ho => ?_, fun oid => ?_⟩
        · obtain ⟨x, hx⟩ := ho
          exact ⟨x, by rw [h1, List.find?_append, hx]; rfl⟩
        · have := ext_append w { o with id := w.orders.length, created := w.clock, statusAt := w.clock, status := none, complete := false, log := [] } rfl rfl rfl hf.inv oid
          rw [order!_congr ({ w with orders := w.orders ++ [_] } : World) w' h1 oid]
          exact this
      cases tr with
      | none => exact hk _ (by simp [setTrade])
      | some t => exact hk _ (by simp [setTrade])
    | place tg v force =>
      have ho := hin tg rfl
      have hmk : (w.order! (tg.resolve w)).market = mid := hlocal tg rfl
      cases batch with
      | some t =>
        exact lx_txnPlace w t (tg.resolve w) v true force ho (unsent_or_refused hf c hl _ ho t.market (by rw [hmk, hbm t rfl]))
      | none =>
        exact (lx_txnPlace w _ (tg.resolve w) v true force ho (unsent_or_refused hf c hl _ ho mid hmk)).trans (lx_txnExit _ _)
    | cancel tg red force =>
      have ho := hin tg rfl
      cases batch with
      | some t => exact lx_txnCancel w t (tg.resolve w) red force ho
      | none => exact (lx_txnCancel w _ (tg.resolve w) red force ho).trans (lx_txnExit _ _)
    | update tg pers force =>
      have ho := hin tg rfl
      cases batch with
      | some t => exact lx_txnUpdate w t (tg.resolve w) pers force ho
      | none => exact (lx_txnUpdate w _ (tg.resolve w) pers force ho).trans (lx_txnExit _ _)
    | replace tg price v force =>
      have ho := hin tg rfl
      cases batch with
      | some t => exact lx_txnReplace w t (tg.resolve w) price v force ho
      | none => exact (lx_txnReplace w _ (tg.resolve w) price v force ho).trans (lx_txnExit _ _)
    | batchBegin c0 =>
      cases batch with
      | some t => exact lx_txnExit w t
      | none => exact LX.refl w
    | batchExecute =>
      cases batch with
      | some t => exact lx_txnExecute w t
      | none => exact LX.refl w
    | batchEnd =>
      cases batch with
      | some t => exact lx_txnExit w t
      | none => exact LX.refl w


theorem lx_processCloseMarket (w : World) (mid : Nat) (book : Book) (hb : Fin.BI mid w) : LX w (w.processCloseMarket mid book) := by
  unfold processCloseMarket
  split
  · exact LX.of_eq rfl
  · rename_i m hm
    have k0 : LX w (if (!m.closed) = true then w.modifyMarket mid (fun m => { m with closed := true, closedAt := some w.clock }) else w) ∧
        Fin.FS mid w (if (!m.closed) = true then w.modifyMarket mid (fun m => { m with closed := true, closedAt := some w.clock }) else w) := by
      split
      · exact ⟨LX.of_eq rfl, Fin.fs_modifyMarket mid w mid _ (fun _ => ⟨rfl, rfl, rfl⟩)⟩
      · exact ⟨LX.refl w, Fin.FS.refl mid w⟩
    have k01 : LX w ((if (!m.closed) = true then w.modifyMarket mid (fun m => { m with closed := true, closedAt := some w.clock }) else w).modifyMarket mid
        (fun m => { m with book := some book })) := k0.1.trans (LX.of_eq rfl)
    have b01 : Fin.BI mid ((if (!m.closed) = true then w.modifyMarket mid (fun m => { m with closed := true, closedAt := some w.clock }) else w).modifyMarket mid
        (fun m => { m with book := some book })) :=
      ((k0.2.trans (Fin.fs_modifyMarket mid _ mid (fun m => { m with book := some book }) (fun _ => ⟨rfl, rfl, rfl⟩))).2 hb).1
    have k : LX w (((if (!m.closed) = true then w.modifyMarket mid (fun m => { m with closed := true, closedAt := some w.clock }) else w).modifyMarket mid
        (fun m => { m with book := some book })).blotterProcessClosed mid book) :=
      k01.trans (lx_blotterProcessClosed _ mid book b01)
    simp only
    generalize (((if (!m.closed) = true then w.modifyMarket mid (fun m => { m with closed := true, closedAt := some w.clock }) else w).modifyMarket mid
        (fun m => { m with book := some book })).blotterProcessClosed mid book) = w1 at k
    exact k.trans (LX.of_eq rfl)

/-! ### the invariant carried through the actions of a callback, an update, a run -/

theorem ll_doAction (w : World) (mid : Nat) (batch : Option Txn) (a : Action) (hz : (w.doAction mid batch a).1.foreign = 0)
    (h : FJ mid w batch) (hl : LL w) : LL (w.doAction mid batch a).1 := by
  obtain ⟨hloc, hnote⟩ := Ghost.doAction_foreign_zero w mid batch a hz
  unfold doAction
  rw [hnote]
  exact hl.step (lx_doActionCore w mid batch a h.1 h.2 hl hloc)

theorem lj_doActions (w : World) (mid : Nat) (as : List Action) (hz : (w.doActions mid as).1.foreign = 0) (f : Fl.FI w none) (c : CV w none)
    (hl : LL w) (hex : (w.market? mid).isSome = true) :
    Fl.FI (w.doActions mid as).1 none ∧ CV (w.doActions mid as).1 none ∧ ((w.doActions mid as).1.market? mid).isSome = true ∧
    LL (w.doActions mid as).1 := by
  obtain ⟨r1, r2, r3⟩ := fj_doActions w mid as hz f c hex
  refine ⟨r1, r2, r3, ?_⟩
  unfold doActions at hz ⊢
  simp only at hz ⊢
  have key := Fl.fold_cond (fun (s : World × Option Txn × List String) => s.1.foreign)
    (fun (acc : World × Option Txn × List String) a =>
      ((acc.1.doAction mid acc.2.1 a).1, (acc.1.doAction mid acc.2.1 a).2.1, acc.2.2 ++ [(acc.1.doAction mid acc.2.1 a).2.2]))
    (fun s => FJ mid s.1 s.2.1 ∧ LL s.1) (fun s a => Ghost.doAction_le s.1 mid s.2.1 a)
    (fun s a h0 hp => ⟨fj_doAction s.1 mid s.2.1 a h0 hp.1, ll_doAction s.1 mid s.2.1 a h0 hp.1 hp.2⟩) as (w, none, [])
  generalize as.foldl _ (w, none, []) = r at hz key
  obtain ⟨w1, b, outs⟩ := r
  cases b with
  | some t =>
    simp only at hz key ⊢
    have hz1 : w1.foreign = 0 := by rw [Ghost.txnExit_foreign] at hz; exact hz
    exact (key hz1 ⟨⟨⟨f, hex, fun t ht => by cases ht⟩, c⟩, hl⟩).2.step (lx_txnExit w1 t)
  | none =>
    simp only at hz key ⊢
    exact (key hz ⟨⟨⟨f, hex, fun t ht => by cases ht⟩, c⟩, hl⟩).2


/-- one market update -/
theorem ll_processMarketBook (w : World) (mid : Nat) (book : Book) (script : Nat → List Action)
    (hz : (w.processMarketBook mid book script).1.foreign = 0) (f : Fl.FI w none) (c : CV w none) (hl : LL w) :
    LL (w.processMarketBook mid book script).1 := by
  unfold processMarketBook at hz ⊢
  simp only at hz ⊢
  have q0 : Fl.Q w [] w (w.setClock book.pt) := Fl.Q.of_eq rfl rfl rfl rfl
  have c0 : CV (w.setClock book.pt) none := cv_calm q0 rfl rfl (fun M => Fin.FS.of_eq rfl rfl (fun _ hp => hp)) c
  have f0 := Fl.fi_calm q0 f
  have l0 : LL (w.setClock book.pt) := hl.step (LX.of_eq rfl)
  generalize w.setClock book.pt = w0 at q0 c0 f0 l0 hz
  have c1 : Fl.FI (if w0.queue.isEmpty = true then w0 else w0.checkPendingPackages mid) none ∧
      CV (if w0.queue.isEmpty = true then w0 else w0.checkPendingPackages mid) none ∧
      LL (if w0.queue.isEmpty = true then w0 else w0.checkPendingPackages mid) := by
    split
    · exact ⟨f0, c0, l0⟩
    · exact ⟨(Fl.fi_checkPendingPackages w0 mid f0).1, cv_checkPendingPackages w0 mid f0 c0, l0.step (lx_checkPendingPackages w0 mid f0 c0.bi)⟩
  generalize (if w0.queue.isEmpty = true then w0 else w0.checkPendingPackages mid) = w1 at c1 hz
  obtain ⟨f1, c1, l1⟩ := c1
  split
  · exact l1.step (lx_processCloseMarket w1 mid book (c1.bi mid))
  · rename_i hclosed
    rw [if_neg hclosed] at hz
    have q2 : Fl.Q w1 [] w1 (if (w1.market? mid).isNone = true then
          ({ w1 with markets := w1.markets ++ [({ id := mid, book := some book } : Market)] } : World).emit (.marketEvent mid)
        else if (w1.market! mid).closed = true then w1.modifyMarket mid (fun m => { m with closed := false }) else w1) ∧
        CV (if (w1.market? mid).isNone = true then
          ({ w1 with markets := w1.markets ++ [({ id := mid, book := some book } : Market)] } : World).emit (.marketEvent mid)
        else if (w1.market! mid).closed = true then w1.modifyMarket mid (fun m => { m with closed := false }) else w1) none ∧
        LL (if (w1.market? mid).isNone = true then
          ({ w1 with markets := w1.markets ++ [({ id := mid, book := some book } : Market)] } : World).emit (.marketEvent mid)
        else if (w1.market! mid).closed = true then w1.modifyMarket mid (fun m => { m with closed := false }) else w1) := by
      split
      · rename_i hnone
        have k := (Fl.q_appendMarket w1 [] w1 { id := mid, book := some book } hnone rfl rfl).trans (Fl.q_emit w1 [] _ (.marketEvent mid))
        exact ⟨k, cv_calm k rfl rfl (fun M => (Fin.fs_appendMarket M w1 { id := mid, book := some book } hnone rfl rfl).trans (Fin.fs_emit M _ _)) c1,
          l1.step (LX.of_eq rfl)⟩
      · split
        · have k := Fl.q_modifyMarket w1 [] w1 mid (fun m => { m with closed := false }) (fun _ => ⟨rfl, rfl, rfl⟩)
          exact ⟨k, cv_calm k rfl rfl (fun M => Fin.fs_modifyMarket M w1 mid _ (fun _ => ⟨rfl, rfl, rfl⟩)) c1, l1.step (LX.of_eq rfl)⟩
        · exact ⟨Fl.Q.refl w1 [] w1, c1, l1⟩
    have x2 : ((if (w1.market? mid).isNone = true then
          ({ w1 with markets := w1.markets ++ [({ id := mid, book := some book } : Market)] } : World).emit (.marketEvent mid)
        else if (w1.market! mid).closed = true then w1.modifyMarket mid (fun m => { m with closed := false }) else w1).market? mid).isSome = true := by
      split
      · exact Fl.appendMarket_isSome w1 { id := mid, book := some book }
      · rename_i hn
        have hs : (w1.market? mid).isSome = true := by
          cases h : w1.market? mid with
          | none => rw [h] at hn; exact absurd rfl hn
          | some x => rfl
        split
        · exact Fl.modifyMarket_isSome w1 mid (fun m => { m with closed := false }) (fun _ => rfl) mid hs
        · exact hs
    generalize (if (w1.market? mid).isNone = true then
          ({ w1 with markets := w1.markets ++ [({ id := mid, book := some book } : Market)] } : World).emit (.marketEvent mid)
        else if (w1.market! mid).closed = true then w1.modifyMarket mid (fun m => { m with closed := false }) else w1) = w2 at q2 x2 hz
    obtain ⟨q2, c2, l2⟩ := q2
    have f2 := Fl.fi_calm q2 f1
    have q3a := Fl.q_modifyMarket w2 [] w2 mid (fun m => { m with book := some book }) (fun _ => ⟨rfl, rfl, rfl⟩)
    have c3a := cv_calm q3a rfl rfl (fun M => Fin.fs_modifyMarket M w2 mid (fun m => { m with book := some book }) (fun _ => ⟨rfl, rfl, rfl⟩)) c2
    have f3a := Fl.fi_calm q3a f2
    have l3a : LL (w2.modifyMarket mid (fun m => { m with book := some book })) := l2.step (LX.of_eq rfl)
    have x3a := Fl.modifyMarket_isSome w2 mid (fun m => { m with book := some book }) (fun _ => rfl) mid x2
    generalize w2.modifyMarket mid (fun m => { m with book := some book }) = w2b at q3a c3a f3a x3a l3a hz
    have q3 := Fl.q_simulatedMiddleware w2b [] w2b mid f3a.inv
    have c3 := cv_calm q3 (by simp) (by simp) (fun M => Fin.fs_simulatedMiddleware M w2b mid) c3a
    have f3 := Fl.fi_calm q3 f3a
    have l3 : LL (w2b.simulatedMiddleware mid) := l3a.step (lx_simulatedMiddleware w2b mid (c3a.bi mid))
    have x3 := q3.mx mid x3a
    generalize w2b.simulatedMiddleware mid = w3 at q3 c3 f3 x3 l3 hz
    have c4 : Fl.FI (if (w3.market! mid).active = true then w3.processSimulatedOrders mid else w3) none ∧
        CV (if (w3.market! mid).active = true then w3.processSimulatedOrders mid else w3) none ∧
        ((if (w3.market! mid).active = true then w3.processSimulatedOrders mid else w3).market? mid).isSome = true ∧
        LL (if (w3.market! mid).active = true then w3.processSimulatedOrders mid else w3) := by
      split
      · have k := Fl.q_processSimulatedOrders w3 [] w3 mid f3.inv
        exact ⟨Fl.fi_calm k f3, cv_calm k (by simp) (by simp) (fun M => Fin.fs_processSimulatedOrders M w3 mid) c3, k.mx mid x3,
          l3.step (lx_processSimulatedOrders w3 mid (c3.bi mid))⟩
      · exact ⟨f3, c3, x3, l3⟩
    generalize (if (w3.market! mid).active = true then w3.processSimulatedOrders mid else w3) = w4 at c4 hz
    have hle : ∀ (acc : World × List (Nat × List String)) (s : Strategy), acc.1.foreign ≤
        (if s.streams.contains book.streamId = true then
          (((if (w1.market? mid).isNone = true then acc.1.emit (.newMarket s.id mid) else acc.1).emit (.bookCallback s.id mid book.pt)).doActions mid (script s.id)).1
        else acc.1).foreign := by
      intro acc s
      split
      · refine Nat.le_trans ?_ (Ghost.doActions_le _ mid _)
        split <;> simp
      · exact Nat.le_refl _
    refine (Fl.fold_cond_pair _ (fun w => Fl.FI w none ∧ CV w none ∧ (w.market? mid).isSome = true ∧ LL w) ?_ ?_ w4.strategies
      (w4, ([] : List (Nat × List String))) hz c4).2.2.2
    · intro acc s
      obtain ⟨wa, outs⟩ := acc
      simp only
      have := hle (wa, outs) s
      split
      · rename_i hc; rw [if_pos hc] at this; exact this
      · exact Nat.le_refl _
    · intro acc s
      obtain ⟨wa, outs⟩ := acc
      simp only
      split
      · intro h0 hp
        have k : Fl.Q wa [] wa ((if (w1.market? mid).isNone = true then wa.emit (.newMarket s.id mid) else wa).emit (.bookCallback s.id mid book.pt)) := by
          refine Fl.Q.trans ?_ (Fl.q_emit wa [] _ _)
          split
          · exact Fl.q_emit wa [] _ _
          · exact Fl.Q.refl wa [] wa
        have hfs : ∀ M, Fin.FS M wa ((if (w1.market? mid).isNone = true then wa.emit (.newMarket s.id mid) else wa).emit (.bookCallback s.id mid book.pt)) := by
          intro M
          refine Fin.FS.trans ?_ (Fin.fs_emit M _ _)
          split
          · exact Fin.fs_emit M _ _
          · exact Fin.FS.refl M wa
        have hll : LL ((if (w1.market? mid).isNone = true then wa.emit (.newMarket s.id mid) else wa).emit (.bookCallback s.id mid book.pt)) := by
          refine hp.2.2.2.step (LX.of_eq ?_)
          split <;> rfl
        exact lj_doActions _ mid _ h0 (Fl.fi_calm k hp.1) (cv_calm k (by split <;> rfl) (by split <;> rfl) hfs hp.2.1) hll (k.mx mid hp.2.2.1)
      · intro _ hp; exact hp

/-- any run -/
theorem lj_runUpdates (w : World) (us : List (Nat × Book × (Nat → List Action))) (hz : (runUpdates w us).foreign = 0) (f : Fl.FI w none) (c : CV w none)
    (hl : LL w) : Fl.FI (runUpdates w us) none ∧ CV (runUpdates w us) none ∧ LL (runUpdates w us) := by
  unfold runUpdates at hz ⊢
  exact Fl.fold_cond (fun w : World => w.foreign) (fun w (u : Nat × Book × (Nat → List Action)) => (w.processMarketBook u.1 u.2.1 u.2.2).1)
    (fun w => Fl.FI w none ∧ CV w none ∧ LL w)
    (fun w u => (Fl.fi_processMarketBook w u.1 u.2.1 u.2.2).1)
    (fun w u h0 hp => ⟨(fj_processMarketBook w u.1 u.2.1 u.2.2 h0 hp.1 hp.2.1).1, (fj_processMarketBook w u.1 u.2.1 u.2.2 h0 hp.1 hp.2.1).2,
      ll_processMarketBook w u.1 u.2.1 u.2.2 h0 hp.1 hp.2.1 hp.2.2⟩) us w hz ⟨f, c, hl⟩

theorem ll_empty (cfg : Config) (cl : List Client) (ss : List Strategy) : LL { cfg := cfg, clients := cl, strategies := ss } := by
  intro oid
  have : ({ cfg := cfg, clients := cl, strategies := ss } : World).order! oid = default := by
    apply order!_missing
    rintro ⟨x, hx⟩
    simp at hx
  rw [this]
  exact ⟨rfl, rfl⟩

/-- in every world reachable by a run without foreign requests the status log of every order is a legal path -/
theorem legal_reachable (cfg : Config) (cl : List Client) (ss : List Strategy) (us : List (Nat × Book × (Nat → List Action)))
    (hz : (runUpdates { cfg := cfg, clients := cl, strategies := ss } us).foreign = 0) :
    LL (runUpdates { cfg := cfg, clients := cl, strategies := ss } us) :=
  (lj_runUpdates _ us hz (Fl.fi_empty cfg cl ss) (cv_empty cfg cl ss) (ll_empty cfg cl ss)).2.2

end Flumine.Legal
