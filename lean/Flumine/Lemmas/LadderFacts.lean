/- Lemmas/LadderFacts.lean — the published ladder (specification literal) and the finite facts
   about the regenerated ladder that the kernel checks by evaluation (`decide +kernel`). -/
import Flumine.Ladder
namespace Flumine.C17
open Flumine

/-- Betfair's published price increments (1.01-2 by 0.01, 2-3 by 0.02, 3-4 by 0.05, 4-6 by 0.1,
    6-10 by 0.2, 10-20 by 0.5, 20-30 by 1, 30-50 by 2, 50-100 by 5, 100-1000 by 10), written out
    in hundredths: 350 ticks.  This literal is the specification; it is not regenerated. -/
def publishedHundredths : List Int := [101, 102, 103, 104, 105, 106, 107, 108, 109, 110, 111, 112, 113, 114, 115, 116, 117, 118, 119, 120, 121, 122, 123, 124, 125, 126, 127, 128, 129, 130, 131, 132, 133, 134, 135, 136, 137, 138, 139, 140, 141, 142, 143, 144, 145, 146, 147, 148, 149, 150, 151, 152, 153, 154, 155, 156, 157, 158, 159, 160, 161, 162, 163, 164, 165, 166, 167, 168, 169, 170, 171, 172, 173, 174, 175, 176, 177, 178, 179, 180, 181, 182, 183, 184, 185, 186, 187, 188, 189, 190, 191, 192, 193, 194, 195, 196, 197, 198, 199, 200, 202, 204, 206, 208, 210, 212, 214, 216, 218, 220, 222, 224, 226, 228, 230, 232, 234, 236, 238, 240, 242, 244, 246, 248, 250, 252, 254, 256, 258, 260, 262, 264, 266, 268, 270, 272, 274, 276, 278, 280, 282, 284, 286, 288, 290, 292, 294, 296, 298, 300, 305, 310, 315, 320, 325, 330, 335, 340, 345, 350, 355, 360, 365, 370, 375, 380, 385, 390, 395, 400, 410, 420, 430, 440, 450, 460, 470, 480, 490, 500, 510, 520, 530, 540, 550, 560, 570, 580, 590, 600, 620, 640, 660, 680, 700, 720, 740, 760, 780, 800, 820, 840, 860, 880, 900, 920, 940, 960, 980, 1000, 1050, 1100, 1150, 1200, 1250, 1300, 1350, 1400, 1450, 1500, 1550, 1600, 1650, 1700, 1750, 1800, 1850, 1900, 1950, 2000, 2100, 2200, 2300, 2400, 2500, 2600, 2700, 2800, 2900, 3000, 3200, 3400, 3600, 3800, 4000, 4200, 4400, 4600, 4800, 5000, 5500, 6000, 6500, 7000, 7500, 8000, 8500, 9000, 9500, 10000, 11000, 12000, 13000, 14000, 15000, 16000, 17000, 18000, 19000, 20000, 21000, 22000, 23000, 24000, 25000, 26000, 27000, 28000, 29000, 30000, 31000, 32000, 33000, 34000, 35000, 36000, 37000, 38000, 39000, 40000, 41000, 42000, 43000, 44000, 45000, 46000, 47000, 48000, 49000, 50000, 51000, 52000, 53000, 54000, 55000, 56000, 57000, 58000, 59000, 60000, 61000, 62000, 63000, 64000, 65000, 66000, 67000, 68000, 69000, 70000, 71000, 72000, 73000, 74000, 75000, 76000, 77000, 78000, 79000, 80000, 81000, 82000, 83000, 84000, 85000, 86000, 87000, 88000, 89000, 90000, 91000, 92000, 93000, 94000, 95000, 96000, 97000, 98000, 99000, 100000]

def published : List Rat := publishedHundredths.map (fun (h : Int) => (h : Rat) / 100)

example : publishedHundredths.length = 350 := by decide +kernel

/-- C17.1 the ladder built by  from the source's cutoffs is the published ladder -/
theorem ladder_eq_published : prices = published := by decide +kernel

/-- the materialised runtime list  read by the extractor is the same list -/
theorem runtime_ladder_eq_published : Gen.runtimePrices = publishedHundredths := by decide +kernel

theorem runtime_floats_match : Gen.pricesFloatMatchesPrices = true := by decide +kernel



/-! ### C17.2 nearest price -/

/-- the bands of the ladder in scaled integer form `(a, b, step)`: on `[a/step, b/step]` the ticks
    are exactly the `k / step` with `a ≤ k ≤ b` (1.01-2 by 1/100, 2-3 by 1/50, ...). -/
def bands : List (Int × Int × Rat) :=
  [(101, 200, 100), (100, 150, 50), (60, 80, 20), (40, 60, 10), (30, 50, 5), (20, 40, 2),
   (20, 30, 1), (15, 25, 1/2), (10, 20, 1/5), (10, 100, 1/10)]

/-- finite fact 1 (checked by the kernel on the regenerated ladder): in every band every grid
    point `k/step`, `a ≤ k ≤ b`, is a tick. -/
def gridInLadder : Bool :=
  bands.all fun (a, b, s) =>
    (List.range (b - a + 1).toNat).all fun i => prices.contains ((((a + (i : Int)) : Int) : Rat) / s)

theorem gridInLadder_true : gridInLadder = true := by decide +kernel

/-- finite fact 2: for every band, every tick is at or below the band, at or above it, or on the
    band's grid (`t*step` is an integer). -/
def ticksOnGrid : Bool :=
  bands.all fun (a, b, s) =>
    prices.all fun t => decide (t * s ≤ (a : Rat)) || decide ((b : Rat) ≤ t * s) || ((t * s).den == 1)

theorem ticksOnGrid_true : ticksOnGrid = true := by decide +kernel

theorem ticks_ge_min : (prices.all fun t => decide (Gen.minPrice ≤ t)) = true := by decide +kernel
theorem ticks_le_max : (prices.all fun t => decide (t ≤ Gen.maxPrice)) = true := by decide +kernel

theorem prices_strictly_increasing : prices.Pairwise (· < ·) := by decide +kernel
theorem prices_length : prices.length = 350 := by decide +kernel
theorem prices_first_last : prices[0]? = some (101 / 100) ∧ prices[349]? = some 1000 := by decide +kernel

end Flumine.C17
