/- Lemmas/Packs.lean — how a transaction's pending list becomes packages: `utils.chunks`, grouping by
   market version, and the soundness of `packsOf` (helper lemmas; the property statements are restated in Props/C02.lean). -/
import Flumine.Txn
import Mathlib.Tactic.SplitIfs
namespace Flumine.Packs
open Flumine Flumine.World

/-! ### chunks: `utils.chunks(l, n)` -/

theorem chunks_flatten {α} (l : List α) (n : Nat) : (chunks l n).flatten = l := by
  fun_induction chunks l n with
  | case1 h => simp
  | case2 l h hl => simp
  | case3 l h _ ih => rw [List.flatten_cons, ih, List.take_append_drop]

theorem chunks_bound {α} (l : List α) (n : Nat) (hn : 0 < n) : ∀ c ∈ chunks l n, c.length ≤ n ∧ c ≠ [] := by
  fun_induction chunks l n with
  | case1 h => simp
  | case2 l h hl =>
    rcases h with h | h
    · omega
    · exact absurd h hl
  | case3 l h _ ih =>
    intro c hc
    rcases List.mem_cons.mp hc with e | e
    · subst e
      refine ⟨by simp only [List.length_take]; omega, ?_⟩
      intro e
      have hl : l ≠ [] := fun e' => h (Or.inr e')
      have h0 : (l.take n).length = 0 := by rw [e]; rfl
      simp only [List.length_take] at h0
      have : 0 < l.length := List.length_pos_iff.mpr hl
      omega
    · exact ih c e

/-! ### grouping by market version -/

def keys (g : List (Option Int × List Nat)) : List (Option Int) := g.map (·.1)

/-- the orders filed under version v -/
def getGroup (g : List (Option Int × List Nat)) (v : Option Int) : List Nat :=
  ((g.find? fun x => x.1 = v).map (·.2)).getD []

def gstep (acc : List (Option Int × List Nat)) (ov : Nat × Option Int) : List (Option Int × List Nat) :=
  if acc.any (·.1 = ov.2) then acc.map fun g => if g.1 = ov.2 then (g.1, g.2 ++ [ov.1]) else g
  else acc ++ [(ov.2, [ov.1])]

theorem groupByVersion_eq (l : List (Nat × Option Int)) : groupByVersion l = l.foldl gstep [] := rfl

theorem gstep_keys (acc : List (Option Int × List Nat)) (ov : Nat × Option Int) :
    keys (gstep acc ov) = if ov.2 ∈ keys acc then keys acc else keys acc ++ [ov.2] := by
  unfold gstep keys
  by_cases h : acc.any (·.1 = ov.2) = true
  · rw [if_pos h]
    have hm : ov.2 ∈ acc.map (·.1) := by
      simp only [List.any_eq_true, decide_eq_true_eq] at h
      obtain ⟨x, hx, e⟩ := h
      exact List.mem_map.mpr ⟨x, hx, e⟩
    rw [if_pos hm, List.map_map]
    apply List.map_congr_left
    intro g _
    simp only [Function.comp]
    split <;> rfl
  · rw [if_neg h]
    have hm : ¬ ov.2 ∈ acc.map (·.1) := by
      intro hm
      obtain ⟨x, hx, e⟩ := List.mem_map.mp hm
      apply h
      simp only [List.any_eq_true, decide_eq_true_eq]
      exact ⟨x, hx, e⟩
    rw [if_neg hm]; simp

theorem gstep_nodup (acc : List (Option Int × List Nat)) (ov : Nat × Option Int) (h : (keys acc).Nodup) :
    (keys (gstep acc ov)).Nodup := by
  rw [gstep_keys]
  split
  · exact h
  · rename_i hm
    exact List.nodup_append.mpr ⟨h, by simp, by
      intro a ha b hb; simp only [List.mem_singleton] at hb; subst hb; intro e; subst e; exact hm ha⟩

theorem find_map_key (acc : List (Option Int × List Nat)) (v w : Option Int) (o : Nat) :
    ((acc.map fun g => if g.1 = w then (g.1, g.2 ++ [o]) else g).find? fun x => x.1 = v) =
      (acc.find? fun x => x.1 = v).map fun g => if g.1 = w then (g.1, g.2 ++ [o]) else g := by
  induction acc with
  | nil => rfl
  | cons x xs ih =>
    simp only [List.map_cons, List.find?_cons]
    have hk : (if x.1 = w then (x.1, x.2 ++ [o]) else x).1 = x.1 := by split <;> rfl
    rw [hk]
    by_cases hx : x.1 = v
    · simp [hx]
    · simp only [hx, decide_false]; exact ih

theorem gstep_group (acc : List (Option Int × List Nat)) (ov : Nat × Option Int) (v : Option Int) :
    getGroup (gstep acc ov) v = getGroup acc v ++ (if ov.2 = v then [ov.1] else []) := by
  unfold gstep getGroup
  by_cases h : acc.any (·.1 = ov.2) = true
  · rw [if_pos h, find_map_key]
    cases hf : acc.find? (fun x => x.1 = v) with
    | none => simp only [Option.map_none, Option.getD_none, List.nil_append]
              -- v is not a key, ov.2 is a key: they differ
              have : ov.2 ≠ v := by
                intro e
                simp only [List.any_eq_true, decide_eq_true_eq] at h
                obtain ⟨x, hx, ex⟩ := h
                have := List.find?_eq_none.mp hf x hx
                simp [ex, e] at this
              simp [this]
    | some g =>
      have hg : g.1 = v := by simpa using List.find?_some hf
      simp only [Option.map_some, Option.getD_some]
      by_cases e : ov.2 = v
      · rw [if_pos (by rw [hg, e]), if_pos e]
      · rw [if_neg (by rw [hg]; exact fun e' => e e'.symm), if_neg e]; simp
  · rw [if_neg h, List.find?_append]
    cases hf : acc.find? (fun x => x.1 = v) with
    | some g => simp only [Option.some_or, Option.map_some, Option.getD_some]
                have hg : g.1 = v := by simpa using List.find?_some hf
                have : ov.2 ≠ v := by
                  intro e
                  apply h
                  simp only [List.any_eq_true, decide_eq_true_eq]
                  exact ⟨g, List.mem_of_find?_eq_some hf, by rw [hg, e]⟩
                simp [this]
    | none =>
      simp only [Option.none_or, Option.map_none, Option.getD_none, List.nil_append]
      by_cases e : ov.2 = v
      · simp [e]
      · simp [e]

theorem foldl_gstep (l : List (Nat × Option Int)) (acc : List (Option Int × List Nat)) (h : (keys acc).Nodup) :
    (keys (l.foldl gstep acc)).Nodup ∧
    ∀ v, getGroup (l.foldl gstep acc) v = getGroup acc v ++ (l.filter fun ov => ov.2 = v).map (·.1) := by
  induction l generalizing acc with
  | nil => exact ⟨h, fun v => by simp⟩
  | cons ov l ih =>
    obtain ⟨h1, h2⟩ := ih (gstep acc ov) (gstep_nodup acc ov h)
    refine ⟨h1, fun v => ?_⟩
    rw [List.foldl_cons, h2 v, gstep_group, List.filter_cons]
    by_cases e : ov.2 = v
    · simp [e]
    · simp [e]

/-- C02.4a one group per market version, holding exactly the requests of that version in request order -/
theorem groupByVersion_spec (l : List (Nat × Option Int)) :
    (keys (groupByVersion l)).Nodup ∧
    ∀ v, getGroup (groupByVersion l) v = (l.filter fun ov => ov.2 = v).map (·.1) := by
  rw [groupByVersion_eq]
  have := foldl_gstep l [] (by simp [keys])
  exact ⟨this.1, fun v => by rw [this.2 v]; simp [getGroup]⟩

/-! ### packages -/

theorem packLimit_pos (k : PackKind) : 0 < packLimit k := by cases k <;> decide

/-- every package holds at most the exchange's per-call limit, is not empty, and only orders
    that were requested with the package's market version -/
theorem packs_sound (pend : List (Nat × Option Int)) (kind : PackKind) :
    ∀ p ∈ packsOf pend kind, p.2.length ≤ packLimit kind ∧ p.2 ≠ [] ∧ ∀ o ∈ p.2, (o, p.1) ∈ pend := by
  intro p hp
  unfold packsOf at hp
  obtain ⟨g, hg, hp⟩ := List.mem_flatMap.mp hp
  obtain ⟨ch, hch, rfl⟩ := List.mem_map.mp hp
  have hb := chunks_bound g.2 (packLimit kind) (packLimit_pos kind) ch hch
  refine ⟨hb.1, hb.2, fun o ho => ?_⟩
  -- o ∈ ch ⊆ g.2 = getGroup (groups) g.1 = filter
  have hog : o ∈ g.2 := by
    have : o ∈ (chunks g.2 (packLimit kind)).flatten := List.mem_flatten.mpr ⟨ch, hch, ho⟩
    rwa [chunks_flatten] at this
  obtain ⟨hnd, hspec⟩ := groupByVersion_spec pend
  have hfind : (groupByVersion pend).find? (fun x => x.1 = g.1) = some g := by
    -- keys are distinct, so the first group with key g.1 is g itself
    have : ∀ (gs : List (Option Int × List Nat)), (keys gs).Nodup → g ∈ gs → gs.find? (fun x => x.1 = g.1) = some g := by
      intro gs
      induction gs with
      | nil => intro _ h; cases h
      | cons x xs ih =>
        intro hn hm
        simp only [keys, List.map_cons, List.nodup_cons] at hn
        rcases List.mem_cons.mp hm with e | e
        · subst e; simp
        · have hx : x.1 ≠ g.1 := by
            intro ex; exact hn.1 (by rw [ex]; exact List.mem_map.mpr ⟨g, e, rfl⟩)
          rw [List.find?_cons]; simp only [hx, decide_false]
          exact ih hn.2 e
    exact this _ hnd hg
  have : getGroup (groupByVersion pend) g.1 = g.2 := by unfold getGroup; rw [hfind]; rfl
  rw [hspec g.1] at this
  rw [← this] at hog
  obtain ⟨ov, hov, rfl⟩ := List.mem_map.mp hog
  have hf := List.mem_filter.mp hov
  have : ov.2 = g.1 := by simpa using hf.2
  rw [← this]; exact hf.1

/-! ### every requested order ends up in exactly one package (multiset form) -/

theorem gstep_perm (acc : List (Option Int × List Nat)) (ov : Nat × Option Int) (hn : (keys acc).Nodup) :
    ((gstep acc ov).flatMap (·.2)).Perm (acc.flatMap (·.2) ++ [ov.1]) := by
  unfold gstep
  split
  · rename_i hany
    induction acc with
    | nil => simp at hany
    | cons g gs ih =>
      simp only [keys, List.map_cons, List.nodup_cons] at hn
      rw [List.map_cons, List.flatMap_cons, List.flatMap_cons]
      by_cases e : g.1 = ov.2
      · rw [if_pos e]
        have hrest : gs.map (fun g => if g.1 = ov.2 then (g.1, g.2 ++ [ov.1]) else g) = gs := by
          have : ∀ x ∈ gs, (if x.1 = ov.2 then (x.1, x.2 ++ [ov.1]) else x) = x := by
            intro x hx
            split
            · rename_i ex
              exfalso; apply hn.1
              rw [e, ← ex]; exact List.mem_map.mpr ⟨x, hx, rfl⟩
            · rfl
          calc gs.map (fun g => if g.1 = ov.2 then (g.1, g.2 ++ [ov.1]) else g) = gs.map id := List.map_congr_left this
            _ = gs := List.map_id _
        rw [hrest]
        show ((g.2 ++ [ov.1]) ++ gs.flatMap (·.2)).Perm ((g.2 ++ gs.flatMap (·.2)) ++ [ov.1])
        rw [List.append_assoc, List.append_assoc]
        exact List.Perm.append_left g.2 List.perm_append_comm
      · rw [if_neg e]
        have hany' : gs.any (fun x => decide (x.1 = ov.2)) = true := by
          rw [List.any_cons] at hany
          simp only [e, decide_false, Bool.false_or] at hany
          exact hany
        have := ih (by simpa [keys] using hn.2) hany'
        rw [List.append_assoc]
        exact List.Perm.append_left g.2 this
  · rw [List.flatMap_append]
    simp

theorem foldl_gstep_perm (l : List (Nat × Option Int)) (acc : List (Option Int × List Nat)) (h : (keys acc).Nodup) :
    ((l.foldl gstep acc).flatMap (·.2)).Perm (acc.flatMap (·.2) ++ l.map (·.1)) := by
  induction l generalizing acc with
  | nil => simp
  | cons ov l ih =>
    rw [List.foldl_cons]
    refine (ih (gstep acc ov) (gstep_nodup acc ov h)).trans ?_
    rw [List.map_cons]
    have := (gstep_perm acc ov h).append_right (l.map (·.1))
    simpa [List.append_assoc] using this

theorem groupByVersion_perm (l : List (Nat × Option Int)) : ((groupByVersion l).flatMap (·.2)).Perm (l.map (·.1)) := by
  rw [groupByVersion_eq]
  simpa using foldl_gstep_perm l [] (by simp [keys])

/-- the packages of a pending list hold exactly the orders of the list, each as often as it was requested -/
theorem packs_perm (pend : List (Nat × Option Int)) (kind : PackKind) :
    ((packsOf pend kind).flatMap (·.2)).Perm (pend.map (·.1)) := by
  unfold packsOf
  have h : ∀ gs : List (Option Int × List Nat),
      (gs.flatMap fun (g : Option Int × List Nat) => (chunks g.2 (packLimit kind)).map fun ch => (g.1, ch)).flatMap (·.2) = gs.flatMap (·.2) := by
    intro gs
    induction gs with
    | nil => rfl
    | cons g gs ih =>
      rw [List.flatMap_cons, List.flatMap_append, ih, List.flatMap_cons]
      congr 1
      rw [List.flatMap_map]
      show (chunks g.2 (packLimit kind)).flatMap (fun ch => ch) = g.2
      rw [List.flatMap_id']; exact chunks_flatten _ _
  rw [h]
  exact groupByVersion_perm pend


end Flumine.Packs
