/- Lemmas/Ids.lean — the order table only ever grows: no function of the world model deletes an order
   or changes an order's id (orders are identified by their creation index). -/
import Flumine.SimLoop
import Flumine.Lemmas.OrderLemmas
import Mathlib.Tactic.SplitIfs
namespace Flumine.Ids
open Flumine Flumine.World Flumine.OL

/-- the ids of the order table, in creation order -/
def ids (w : World) : List Nat := w.orders.map (·.id)

theorem hasOrder_iff (w : World) (id : Nat) : HasOrder w id ↔ id ∈ ids w := by
  unfold HasOrder ids
  constructor
  · rintro ⟨o, ho⟩
    have h1 := List.mem_of_find?_eq_some ho
    have h2 := List.find?_some ho
    simp only [decide_eq_true_eq] at h2
    exact List.mem_map.mpr ⟨o, h1, h2⟩
  · intro h
    obtain ⟨o, ho, hid⟩ := List.mem_map.mp h
    cases hf : w.orders.find? (fun x => decide (x.id = id)) with
    | some x => exact ⟨x, rfl⟩
    | none =>
      have := List.find?_eq_none.mp hf o ho
      simp [hid] at this

/-- w' keeps every order id of w, in place (possibly with new ones appended) -/
def Keeps (w w' : World) : Prop := ∃ extra, ids w' = ids w ++ extra

theorem Keeps.refl (w : World) : Keeps w w := ⟨[], by simp⟩
theorem Keeps.trans {a b c : World} (h1 : Keeps a b) (h2 : Keeps b c) : Keeps a c := by
  obtain ⟨e1, h1⟩ := h1; obtain ⟨e2, h2⟩ := h2
  exact ⟨e1 ++ e2, by rw [h2, h1, List.append_assoc]⟩
theorem Keeps.of_eq {w w' : World} (h : w'.orders = w.orders) : Keeps w w' := ⟨[], by unfold ids; rw [h]; simp⟩
theorem Keeps.hasOrder {w w' : World} (h : Keeps w w') (id : Nat) (ho : HasOrder w id) : HasOrder w' id := by
  rw [hasOrder_iff] at ho ⊢
  obtain ⟨e, he⟩ := h
  rw [he]; exact List.mem_append_left _ ho

theorem map_ids (l : List Order) (g : Order → Order) (hg : ∀ x ∈ l, (g x).id = x.id) : (l.map g).map (·.id) = l.map (·.id) := by
  rw [List.map_map]
  apply List.map_congr_left
  intro x hx; exact hg x hx

theorem keeps_modifyOrder (w : World) (a : Nat) (f : Order → Order) (hf : ∀ x, (f x).id = x.id) : Keeps w (w.modifyOrder a f) := by
  refine ⟨[], ?_⟩
  unfold ids modifyOrder
  simp only [List.append_nil]
  apply map_ids
  intro x _; split
  · exact hf x
  · rfl

theorem keeps_setOrder (w : World) (o : Order) : Keeps w (w.setOrder o) := by
  refine ⟨[], ?_⟩
  unfold ids setOrder
  simp only [List.append_nil]
  apply map_ids
  intro x _; split
  · rename_i h; exact h.symm
  · rfl

theorem keeps_orderUpdateStatus (w : World) (oid : Nat) (s : Status) : Keeps w (w.orderUpdateStatus oid s) := by
  have h := orderUpdateStatus_orders w oid s
  obtain ⟨e, he⟩ := keeps_setOrder w (stamped (w.order! oid) w.clock s)
  exact ⟨e, by unfold ids at he ⊢; rw [h]; exact he⟩

theorem keeps_orderExecutable (w : World) (oid : Nat) : Keeps w (w.orderExecutable oid) := by
  unfold orderExecutable
  split
  · exact keeps_modifyOrder w oid _ (fun _ => rfl)
  · exact (keeps_orderUpdateStatus w oid .executable).trans (keeps_modifyOrder _ oid _ (fun _ => rfl))

theorem keeps_orderExecutionComplete (w : World) (oid : Nat) : Keeps w (w.orderExecutionComplete oid) :=
  (keeps_orderUpdateStatus w oid .executionComplete).trans (keeps_modifyOrder _ oid _ (fun _ => rfl))

theorem keeps_orderViolation (w : World) (oid : Nat) (msg : String) : Keeps w (w.orderViolation oid msg) := by
  unfold orderViolation
  split
  · exact Keeps.refl w
  · exact (keeps_orderUpdateStatus w oid .violation).trans (keeps_modifyOrder _ oid _ (fun _ => rfl))

theorem keeps_foldl {α} (f : World → α → World) (hf : ∀ w a, Keeps w (f w a)) (l : List α) (w : World) : Keeps w (l.foldl f w) := by
  induction l generalizing w with
  | nil => exact Keeps.refl w
  | cons a as ih => rw [List.foldl_cons]; exact (hf w a).trans (ih _)


/-! ### everything that leaves the order table alone -/

theorem keeps_modifyMarket (w : World) (mid : Nat) (f : Market → Market) : Keeps w (w.modifyMarket mid f) := Keeps.of_eq rfl
theorem keeps_setClient (w : World) (c : Client) : Keeps w (w.setClient c) := Keeps.of_eq rfl
theorem keeps_emit (w : World) (e : Ev) : Keeps w (w.emit e) := Keeps.of_eq rfl
theorem keeps_setCtx (w : World) (c : RunnerCtx) : Keeps w (w.setCtx c) := Keeps.of_eq (setCtx_orders w c)
theorem keeps_ctxPlace (w : World) (k : CtxKey) (t : Nat) : Keeps w (w.ctxPlace k t) := Keeps.of_eq (ctxPlace_orders w k t)
theorem keeps_tradeEnter (w : World) (t : Nat) : Keeps w (w.tradeEnter t) := Keeps.of_eq (tradeEnter_orders w t)
theorem keeps_tradeExit (w : World) (t : Nat) : Keeps w (w.tradeExit t) := Keeps.of_eq (tradeExit_orders w t)
theorem keeps_addTransaction (w : World) (c n : Nat) (f : Bool) : Keeps w (w.addTransaction c n f) := Keeps.of_eq rfl
theorem keeps_blotterComplete (w : World) (mid oid : Nat) : Keeps w (w.blotterComplete mid oid) := Keeps.of_eq rfl
theorem keeps_blotterAdd (w : World) (mid oid : Nat) : Keeps w (w.blotterAdd mid oid) := by
  unfold blotterAdd
  exact (keeps_modifyMarket w mid _).trans (keeps_modifyOrder _ oid _ (fun _ => rfl))

/-! ### requests -/

theorem keeps_orderCancel (w w' : World) (oid : Nat) (red : Option Rat) (h : w.orderCancel oid red = .ok w') : Keeps w w' := by
  unfold orderCancel at h
  simp only at h
  split_ifs at h
  have := (Except.ok.inj h).symm
  subst this
  exact (keeps_setOrder w _).trans (keeps_orderUpdateStatus _ oid .cancelling)

theorem keeps_orderUpdate (w w' : World) (oid : Nat) (p : String) (h : w.orderUpdate oid p = .ok w') : Keeps w w' := by
  unfold orderUpdate at h
  simp only at h
  split_ifs at h
  have := (Except.ok.inj h).symm
  subst this
  exact (keeps_setOrder w _).trans (keeps_orderUpdateStatus _ oid .updating)

theorem keeps_orderReplace (w w' : World) (oid : Nat) (p : Rat) (h : w.orderReplace oid p = .ok w') : Keeps w w' := by
  unfold orderReplace at h
  simp only at h
  split_ifs at h
  have := (Except.ok.inj h).symm
  subst this
  exact (keeps_setOrder w _).trans (keeps_orderUpdateStatus _ oid .replacing)

theorem keeps_validateControls (w : World) (oid cid : Nat) (k : PackKind) : Keeps w (w.validateControls oid cid k).1 := by
  unfold validateControls
  simp only
  split
  · exact keeps_orderViolation w oid _
  · split
    · exact keeps_orderViolation w oid _
    · split
      · split_ifs
        · exact (keeps_setCtx w _).trans (keeps_orderViolation _ oid _)
        · exact keeps_orderViolation w oid _
      · split_ifs
        · exact (keeps_setCtx w _).trans (keeps_setClient _ _)
        · exact ((keeps_setCtx w _).trans (keeps_setClient _ _)).trans (keeps_orderViolation _ oid _)
        · exact keeps_setClient w _
        · exact (keeps_setClient w _).trans (keeps_orderViolation _ oid _)

theorem keeps_addPackage (kind : PackKind) (t : Txn) (d bd : Rat) (w : World) (vc : Option Int × List Nat) :
    Keeps w (addPackage kind t d bd w vc) := Keeps.of_eq rfl

theorem keeps_createPackages (w : World) (t : Txn) (pend : List (Nat × Option Int)) (k : PackKind) : Keeps w (w.createPackages t pend k) := by
  unfold createPackages
  exact keeps_foldl _ (fun w vc => keeps_addPackage k t _ _ w vc) _ w

theorem keeps_txnExecute (w : World) (t : Txn) : Keeps w (w.txnExecute t).1 := by
  unfold txnExecute
  simp only
  have h : ∀ (w : World) (c : Bool) (p : List (Nat × Option Int)) (k : PackKind), Keeps w (if c then w else w.createPackages t p k) := by
    intro w c p k; split
    · exact Keeps.refl w
    · exact keeps_createPackages w t p k
  exact (((h w _ _ _).trans (h _ _ _ _)).trans (h _ _ _ _)).trans (h _ _ _ _)

theorem keeps_txnExit (w : World) (t : Txn) : Keeps w (w.txnExit t) := by
  unfold txnExit; split
  · exact keeps_txnExecute w t
  · exact Keeps.refl w


theorem keeps_txnPlace (w : World) (t : Txn) (oid : Nat) (v : Option Int) (ex force : Bool) : Keeps w (w.txnPlace t oid v ex force).1 := by
  unfold txnPlace
  simp only
  have k0 := keeps_modifyOrder w oid (fun o => { o with client := some t.client }) (fun _ => rfl)
  generalize w.modifyOrder oid (fun o => { o with client := some t.client }) = w0 at k0
  have k1 : Keeps w0 (if (ex && !force) = true then w0.validateControls oid t.client .place else (w0, none)).1 := by
    split
    · exact keeps_validateControls w0 oid t.client .place
    · exact Keeps.refl w0
  generalize (if (ex && !force) = true then w0.validateControls oid t.client .place else (w0, none)) = vr at k1
  obtain ⟨w1, r⟩ := vr
  simp only at k1 ⊢
  cases r with
  | some r => exact k0.trans k1
  | none =>
    simp only
    split
    · exact k0.trans k1
    · have k2 := keeps_modifyOrder w1 oid (fun o => { o with publishTime := some (((w1.market! t.market).book).getD {}).pt, marketVersion := v }) (fun _ => rfl)
      generalize w1.modifyOrder oid (fun o => { o with publishTime := some (((w1.market! t.market).book).getD {}).pt, marketVersion := v }) = w2 at k2
      have k3 := keeps_orderUpdateStatus w2 oid .pending
      have base := ((k0.trans k1).trans k2).trans k3
      unfold orderPlacing
      generalize w2.orderUpdateStatus oid .pending = w3 at base
      have k4 := keeps_blotterAdd w3 t.market oid
      split
      · split
        · exact ((base.trans k4).trans (keeps_emit _ _)).trans (keeps_ctxPlace _ _ _)
        · exact (base.trans k4).trans (keeps_ctxPlace _ _ _)
      · split
        · exact (base.trans k4).trans (keeps_emit _ _)
        · exact base.trans k4

theorem keeps_txnCancel (w : World) (t : Txn) (oid : Nat) (red : Option Rat) (f : Bool) : Keeps w (w.txnCancel t oid red f).1 := by
  unfold txnCancel
  simp only
  split
  · exact Keeps.refl w
  · have k1 : Keeps w (if (!f) = true then w.validateControls oid t.client .cancel else (w, none)).1 := by
      split
      · exact keeps_validateControls w oid t.client .cancel
      · exact Keeps.refl w
    generalize (if (!f) = true then w.validateControls oid t.client .cancel else (w, none)) = vr at k1
    obtain ⟨w1, r⟩ := vr
    cases r with
    | some r => exact k1
    | none =>
      simp only at k1 ⊢
      cases h : w1.orderCancel oid red with
      | error e => exact k1
      | ok w2 => exact k1.trans (keeps_orderCancel w1 w2 oid red h)

theorem keeps_txnUpdate (w : World) (t : Txn) (oid : Nat) (p : String) (f : Bool) : Keeps w (w.txnUpdate t oid p f).1 := by
  unfold txnUpdate
  simp only
  split
  · exact Keeps.refl w
  · have k1 : Keeps w (if (!f) = true then w.validateControls oid t.client .update else (w, none)).1 := by
      split
      · exact keeps_validateControls w oid t.client .update
      · exact Keeps.refl w
    generalize (if (!f) = true then w.validateControls oid t.client .update else (w, none)) = vr at k1
    obtain ⟨w1, r⟩ := vr
    cases r with
    | some r => exact k1
    | none =>
      simp only at k1 ⊢
      cases h : w1.orderUpdate oid p with
      | error e => exact k1
      | ok w2 => exact k1.trans (keeps_orderUpdate w1 w2 oid p h)

theorem keeps_txnReplace (w : World) (t : Txn) (oid : Nat) (p : Rat) (v : Option Int) (f : Bool) : Keeps w (w.txnReplace t oid p v f).1 := by
  unfold txnReplace
  simp only
  split
  · exact Keeps.refl w
  · have k1 : Keeps w (if (!f) = true then w.validateControls oid t.client .replace else (w, none)).1 := by
      split
      · exact keeps_validateControls w oid t.client .replace
      · exact Keeps.refl w
    generalize (if (!f) = true then w.validateControls oid t.client .replace else (w, none)) = vr at k1
    obtain ⟨w1, r⟩ := vr
    cases r with
    | some r => exact k1
    | none =>
      simp only at k1 ⊢
      cases h : w1.orderReplace oid p with
      | error e => exact k1
      | ok w2 => exact k1.trans (keeps_orderReplace w1 w2 oid p h)


/-! ### simulated execution -/

theorem keeps_logPlaced (w : World) (oid : Nat) (b : Option Nat) : Keeps w (w.logPlaced oid b) := by
  unfold logPlaced
  have k1 := keeps_modifyOrder w oid (fun o => { o with placedAt := some w.clock }) (fun _ => rfl)
  cases b with
  | none => exact k1
  | some b => exact (k1.trans (keeps_modifyOrder _ oid (fun o => { o with betId := some b }) (fun _ => rfl))).trans (keeps_emit _ _)

theorem keeps_bumpBetId (w : World) : Keeps w w.bumpBetId := Keeps.of_eq rfl

theorem keeps_placeStep (p : Package) (w : World) (oid : Nat) : Keeps w (placeStep p w oid) := by
  unfold placeStep
  simp only
  have k1 := (keeps_tradeEnter w (w.order! oid).trade).trans (keeps_bumpBetId _)
  generalize (w.tradeEnter (w.order! oid).trade).bumpBetId = w1 at k1
  generalize placeResponse p w1 (w.order! oid) = pr
  have k2 := k1.trans ((keeps_modifyOrder w1 oid (fun o => { o with sim := pr.1 }) (fun _ => rfl)).trans (keeps_logPlaced _ oid pr.2.betId))
  generalize (w1.modifyOrder oid fun o => { o with sim := pr.1 }).logPlaced oid pr.2.betId = w2 at k2
  cases pr.2.status with
  | success => exact (k2.trans (keeps_orderExecutable w2 oid)).trans (keeps_tradeExit _ _)
  | failure => exact (k2.trans (keeps_orderExecutionComplete w2 oid)).trans (keeps_tradeExit _ _)

theorem keeps_cancelStep (p : Package) (acc : World × Nat) (oid : Nat) : Keeps acc.1 (cancelStep p acc oid).1 := by
  obtain ⟨w, failed⟩ := acc
  unfold cancelStep
  simp only
  have k1 := keeps_tradeEnter w (w.order! oid).trade
  generalize w.tradeEnter (w.order! oid).trade = w1 at k1
  generalize (w.order! oid).sim.cancel (((w1.market! p.market).book).getD {}).status
    (if (w.order! oid).ud.hasReduction then (w.order! oid).ud.sizeReduction else none) = cr
  have k2 := k1.trans (keeps_modifyOrder w1 oid (fun o => { o with sim := cr.1, cancelResponses := o.cancelResponses + 1 }) (fun _ => rfl))
  generalize w1.modifyOrder oid (fun o => { o with sim := cr.1, cancelResponses := o.cancelResponses + 1 }) = w2 at k2
  cases cr.2.status with
  | success =>
    simp only
    split
    · exact (k2.trans (keeps_orderExecutionComplete w2 oid)).trans (keeps_tradeExit _ _)
    · exact (k2.trans (keeps_orderExecutable w2 oid)).trans (keeps_tradeExit _ _)
  | failure => exact (k2.trans (keeps_orderExecutable w2 oid)).trans (keeps_tradeExit _ _)

theorem keeps_updateStep (p : Package) (acc : World × Nat) (oid : Nat) : Keeps acc.1 (updateStep p acc oid).1 := by
  obtain ⟨w, failed⟩ := acc
  unfold updateStep
  simp only
  have k1 := keeps_tradeEnter w (w.order! oid).trade
  generalize w.tradeEnter (w.order! oid).trade = w1 at k1
  generalize (w.order! oid).sim.update (((w1.market! p.market).book).getD {}).view (w.order! oid).sim.persistence = ur
  have k2 := k1.trans (keeps_modifyOrder w1 oid (fun o => { o with sim := ur.1, updateResponses := o.updateResponses + 1 }) (fun _ => rfl))
  generalize w1.modifyOrder oid (fun o => { o with sim := ur.1, updateResponses := o.updateResponses + 1 }) = w2 at k2
  exact (k2.trans (keeps_orderExecutable w2 oid)).trans (keeps_tradeExit _ _)

theorem keeps_createReplacement (w : World) (oid : Nat) (np sz : Rat) (cr : Time) : Keeps w (w.createReplacement oid np sz cr).1 := by
  unfold createReplacement
  simp only
  refine ⟨[w.orders.length], ?_⟩
  unfold ids setTrade
  simp

theorem keeps_replacePlace (p : Package) (w : World) (o : Order) (oid : Nat) (book : Book) (np : Option Rat) (sc : Rat) (failed : Nat) :
    Keeps w (replacePlace p w o oid book np sc failed).1 := by
  unfold replacePlace
  simp only
  have k1 := (keeps_orderExecutionComplete w oid).trans (keeps_bumpBetId _)
  generalize (w.orderExecutionComplete oid).bumpBetId = w1 at k1
  have k2 := k1.trans (keeps_createReplacement w1 oid (np.getD 0) sc p.created)
  generalize w1.createReplacement oid (np.getD 0) sc p.created = cr at k2
  obtain ⟨w2, rid⟩ := cr
  simp only at k2 ⊢
  generalize (w2.order! rid).sim.place p.marketVersion (w2.client! p.client).bpe (w2.client! ((w2.order! rid).client.getD 0)).fullMatch book.view
    ((runnerOf book (w2.order! rid).sel (w2.order! rid).hc).getD { sel := (w2.order! rid).sel }).view false none w2.betId = pr
  have k3 := k2.trans (keeps_modifyOrder w2 rid (fun x => { x with sim := pr.1 }) (fun _ => rfl))
  generalize w2.modifyOrder rid (fun x => { x with sim := pr.1 }) = w3 at k3
  cases pr.2.status with
  | success =>
    simp only
    have k4 := (k3.trans (keeps_modifyOrder w3 rid (fun x => { x with placedAt := some w3.clock, betId := pr.2.betId }) (fun _ => rfl))).trans (keeps_emit _ (.orderEvent rid))
    generalize (w3.modifyOrder rid (fun x => { x with placedAt := some w3.clock, betId := pr.2.betId })).emit (.orderEvent rid) = w4 at k4
    exact ((k4.trans (keeps_txnPlace w4 _ rid none false false)).trans (keeps_orderExecutable _ rid)).trans (keeps_tradeExit _ _)
  | failure =>
    exact ((k3.trans (keeps_orderExecutionComplete w3 rid)).trans (keeps_orderExecutable _ oid)).trans (keeps_tradeExit _ _)

theorem keeps_replaceStep (p : Package) (acc : World × Nat) (pr : Nat × Option Rat) : Keeps acc.1 (replaceStep p acc pr).1 := by
  obtain ⟨w, failed⟩ := acc
  obtain ⟨oid, newPrice⟩ := pr
  unfold replaceStep
  simp only
  have k1 := keeps_tradeEnter w (w.order! oid).trade
  generalize w.tradeEnter (w.order! oid).trade = w1 at k1
  generalize (w.order! oid).sim.cancel (((w1.market! p.market).book).getD {}).status
    (if (w.order! oid).ud.hasReduction then (w.order! oid).ud.sizeReduction else none) = cr
  have k2 := k1.trans (keeps_modifyOrder w1 oid (fun o => { o with sim := cr.1, cancelResponses := o.cancelResponses + 1 }) (fun _ => rfl))
  generalize w1.modifyOrder oid (fun o => { o with sim := cr.1, cancelResponses := o.cancelResponses + 1 }) = w2 at k2
  cases cr.2.status with
  | failure => exact (k2.trans (keeps_orderExecutable w2 oid)).trans (keeps_tradeExit _ _)
  | success => exact k2.trans (keeps_replacePlace p w2 _ oid _ newPrice _ failed)

theorem keeps_foldl_pair {α β} (f : World × β → α → World × β) (hf : ∀ acc a, Keeps acc.1 (f acc a).1) (l : List α) (acc : World × β) :
    Keeps acc.1 (l.foldl f acc).1 := by
  induction l generalizing acc with
  | nil => exact Keeps.refl _
  | cons a as ih => rw [List.foldl_cons]; exact (hf acc a).trans (ih _)

theorem keeps_executePackage (w : World) (p : Package) : Keeps w (w.executePackage p) := by
  unfold executePackage
  cases p.kind with
  | place =>
    simp only; unfold executePlace
    exact (keeps_foldl _ (fun w oid => keeps_placeStep p w oid) _ w).trans (keeps_addTransaction _ _ _ _)
  | cancel =>
    simp only; unfold executeCancel
    simp only
    have := keeps_foldl_pair (cancelStep p) (fun acc oid => keeps_cancelStep p acc oid) (w.packageOrders p) (w, 0)
    generalize (w.packageOrders p).foldl (cancelStep p) (w, 0) = r at this
    obtain ⟨w1, failed⟩ := r
    simp only at this ⊢
    split
    · exact this.trans (keeps_addTransaction _ _ _ _)
    · exact this
  | update =>
    simp only; unfold executeUpdate
    simp only
    have := keeps_foldl_pair (updateStep p) (fun acc oid => keeps_updateStep p acc oid) (w.packageOrders p) (w, 0)
    generalize (w.packageOrders p).foldl (updateStep p) (w, 0) = r at this
    obtain ⟨w1, failed⟩ := r
    simp only at this ⊢
    split
    · exact this.trans (keeps_addTransaction _ _ _ _)
    · exact this
  | replace =>
    simp only; unfold executeReplace
    simp only
    generalize (((w.packageOrders p).filter fun oid => (w.order! oid).status ≠ some .executionComplete).map fun oid => (oid, (w.order! oid).ud.newPrice)) = zs
    have := keeps_foldl_pair (replaceStep p) (fun acc pr => keeps_replaceStep p acc pr) zs (w, 0)
    generalize zs.foldl (replaceStep p) (w, 0) = r at this
    obtain ⟨w1, failed⟩ := r
    simp only at this ⊢
    split
    · exact (this.trans (keeps_addTransaction _ _ _ _)).trans (keeps_addTransaction _ _ _ _)
    · exact this.trans (keeps_addTransaction _ _ _ _)

theorem keeps_checkPendingPackages (w : World) (mid : Nat) : Keeps w (w.checkPendingPackages mid) := by
  unfold checkPendingPackages
  simp only
  exact (keeps_foldl _ (fun w p => keeps_executePackage w p) _ w).trans (Keeps.of_eq rfl)


/-! ### middleware, completion loop, closure -/

theorem removalOnOrder_id (w : World) (m : Market) (rsel : Nat) (rhc : Rat) (raf : Option Rat) (o : Order) :
    (w.removalOnOrder m rsel rhc raf o).id = o.id := by
  unfold removalOnOrder
  simp only
  repeat' split
  all_goals rfl

theorem keeps_processRunnerRemoval (w : World) (mid rsel : Nat) (rhc : Rat) (raf : Option Rat) : Keeps w (w.processRunnerRemoval mid rsel rhc raf) := by
  unfold processRunnerRemoval
  simp only
  exact keeps_foldl _ (fun w oid => keeps_modifyOrder w oid _ (fun o => removalOnOrder_id w _ rsel rhc raf o)) _ w

theorem keeps_matchStep (mid : Nat) (r : Bool) (acc : World × List (Nat × Rat × List (Rat × Rat))) (o0 : Order) :
    Keeps acc.1 (matchStep mid r acc o0).1 := by
  obtain ⟨w, lk⟩ := acc
  unfold matchStep
  simp only
  split
  · exact Keeps.refl w
  · generalize (w.order! o0.id).sim.call _ _ _ _ = cr
    have k1 := keeps_modifyOrder w (w.order! o0.id).id (fun x => { x with sim := cr.1 }) (fun _ => rfl)
    split
    · exact k1.trans (keeps_orderExecutionComplete _ _)
    · exact k1

theorem keeps_matchOrders (w : World) (mid : Nat) (l : List Order) (r : Bool) : Keeps w (w.matchOrders mid l r) := by
  unfold matchOrders
  exact keeps_foldl_pair (matchStep mid r) (fun acc o => keeps_matchStep mid r acc o) l _

theorem keeps_matchStrategy (mid : Nat) (w : World) (sid : Nat) : Keeps w (matchStrategy mid w sid) := by
  unfold matchStrategy
  simp only
  split
  · exact Keeps.refl w
  · exact keeps_matchOrders w mid _ false

theorem keeps_mwProcessSimulatedOrders (w : World) (mid : Nat) : Keeps w (w.mwProcessSimulatedOrders mid) := by
  unfold mwProcessSimulatedOrders
  simp only
  split
  · exact keeps_foldl _ (fun w sid => keeps_matchStrategy mid w sid) _ w
  · split
    · exact Keeps.refl w
    · exact keeps_matchOrders w mid _ true

theorem keeps_mwUpdateAnalytics (w : World) (mid : Nat) : Keeps w (w.mwUpdateAnalytics mid).1 := Keeps.of_eq rfl

theorem keeps_simulatedMiddleware (w : World) (mid : Nat) : Keeps w (w.simulatedMiddleware mid) := by
  unfold simulatedMiddleware
  simp only
  have k1 := keeps_mwUpdateAnalytics w mid
  generalize w.mwUpdateAnalytics mid = p at k1
  have k2 := k1.trans (keeps_foldl (fun w (k : Nat × Rat × Option Rat) => w.processRunnerRemoval mid k.1 k.2.1 k.2.2)
    (fun w k => keeps_processRunnerRemoval w mid k.1 k.2.1 k.2.2) p.2 p.1)
  split
  · exact k2.trans (keeps_mwProcessSimulatedOrders _ mid)
  · exact k2

theorem keeps_processSimulatedOrders (w : World) (mid : Nat) : Keeps w (w.processSimulatedOrders mid) := by
  unfold processSimulatedOrders
  simp only
  refine Keeps.trans (keeps_foldl _ ?_ _ w) (keeps_foldl _ ?_ _ _)
  · intro w oid
    split
    · exact keeps_blotterComplete w mid oid
    · split
      · split
        · exact (keeps_orderExecutionComplete w oid).trans (keeps_blotterComplete _ mid oid)
        · exact Keeps.refl w
      · split
        · exact (keeps_orderExecutionComplete w oid).trans (keeps_blotterComplete _ mid oid)
        · exact Keeps.refl w
  · intro w s
    split
    · exact keeps_emit w _
    · exact Keeps.refl w

theorem keeps_blotterProcessClosed (w : World) (mid : Nat) (book : Book) : Keeps w (w.blotterProcessClosed mid book) := by
  unfold blotterProcessClosed
  simp only
  apply keeps_foldl
  intro w oid
  split
  · exact Keeps.refl w
  · exact keeps_setOrder w _

theorem keeps_processCloseMarket (w : World) (mid : Nat) (book : Book) : Keeps w (w.processCloseMarket mid book) := by
  unfold processCloseMarket
  split
  · exact keeps_emit w _
  · rename_i m hm
    have k0 : Keeps w (if (!m.closed) = true then w.modifyMarket mid (fun m => { m with closed := true, closedAt := some w.clock }) else w) := by
      split
      · exact keeps_modifyMarket w mid _
      · exact Keeps.refl w
    have k : Keeps w (((if (!m.closed) = true then w.modifyMarket mid (fun m => { m with closed := true, closedAt := some w.clock }) else w).modifyMarket mid
        (fun m => { m with book := some book })).blotterProcessClosed mid book) :=
      (k0.trans (keeps_modifyMarket _ mid _)).trans (keeps_blotterProcessClosed _ mid book)
    obtain ⟨e, he⟩ := k
    exact ⟨e, he⟩

/-! ### scripted strategy actions and the whole update -/

theorem keeps_doActionCore (w : World) (mid : Nat) (batch : Option Txn) (a : Action) : Keeps w (w.doActionCore mid batch a).1 := by
  unfold doActionCore
  simp only
  split
  · exact Keeps.refl w
  · cases a with
    | create o tr =>
      cases tr with
      | none => exact ⟨[w.orders.length], by simp [ids, setTrade]⟩
      | some t => exact ⟨[w.orders.length], by simp [ids, setTrade]⟩
    | place tg v force =>
      cases batch with
      | some t => exact keeps_txnPlace w t _ v true force
      | none => exact (keeps_txnPlace w _ _ v true force).trans (keeps_txnExit _ _)
    | cancel tg red force =>
      cases batch with
      | some t => exact keeps_txnCancel w t _ red force
      | none => exact (keeps_txnCancel w _ _ red force).trans (keeps_txnExit _ _)
    | update tg pers force =>
      cases batch with
      | some t => exact keeps_txnUpdate w t _ pers force
      | none => exact (keeps_txnUpdate w _ _ pers force).trans (keeps_txnExit _ _)
    | replace tg price v force =>
      cases batch with
      | some t => exact keeps_txnReplace w t _ price v force
      | none => exact (keeps_txnReplace w _ _ price v force).trans (keeps_txnExit _ _)
    | batchBegin c =>
      cases batch with
      | some t => exact keeps_txnExit w t
      | none => exact Keeps.refl w
    | batchExecute =>
      cases batch with
      | some t => exact keeps_txnExecute w t
      | none => exact Keeps.refl w
    | batchEnd =>
      cases batch with
      | some t => exact keeps_txnExit w t
      | none => exact Keeps.refl w

theorem noteForeign_orders (w : World) (mid : Nat) (a : Action) : (w.noteForeign mid a).orders = w.orders := by
  unfold noteForeign; split <;> rfl
theorem noteForeign_markets (w : World) (mid : Nat) (a : Action) : (w.noteForeign mid a).markets = w.markets := by
  unfold noteForeign; split <;> rfl
theorem noteForeign_queue (w : World) (mid : Nat) (a : Action) : (w.noteForeign mid a).queue = w.queue := by
  unfold noteForeign; split <;> rfl

theorem keeps_doAction (w : World) (mid : Nat) (batch : Option Txn) (a : Action) : Keeps w (w.doAction mid batch a).1 := by
  unfold doAction
  exact (Keeps.of_eq (noteForeign_orders w mid a)).trans (keeps_doActionCore _ mid batch a)

theorem keeps_doActions (w : World) (mid : Nat) (as : List Action) : Keeps w (w.doActions mid as).1 := by
  unfold doActions
  simp only
  have h : ∀ (l : List Action) (acc : World × Option Txn × List String),
      Keeps acc.1 (l.foldl (fun (acc : World × Option Txn × List String) a =>
        ((acc.1.doAction mid acc.2.1 a).1, (acc.1.doAction mid acc.2.1 a).2.1, acc.2.2 ++ [(acc.1.doAction mid acc.2.1 a).2.2])) acc).1 := by
    intro l
    induction l with
    | nil => intro acc; exact Keeps.refl _
    | cons a as ih => intro acc; rw [List.foldl_cons]; exact (keeps_doAction acc.1 mid acc.2.1 a).trans (ih _)
  have := h as (w, none, [])
  generalize as.foldl _ (w, none, []) = r at this
  obtain ⟨w1, b, outs⟩ := r
  cases b with
  | some t => exact this.trans (keeps_txnExit _ _)
  | none => exact this

theorem keeps_processMarketBook (w : World) (mid : Nat) (book : Book) (script : Nat → List Action) :
    Keeps w (w.processMarketBook mid book script).1 := by
  unfold processMarketBook
  simp only
  have k0 : Keeps w (w.setClock book.pt) := Keeps.of_eq rfl
  generalize w.setClock book.pt = w0 at k0
  have k1 : Keeps w (if w0.queue.isEmpty = true then w0 else w0.checkPendingPackages mid) := by
    split
    · exact k0
    · exact k0.trans (keeps_checkPendingPackages w0 mid)
  generalize (if w0.queue.isEmpty = true then w0 else w0.checkPendingPackages mid) = w1 at k1
  split
  · exact k1.trans (keeps_processCloseMarket w1 mid book)
  · have k2 : Keeps w1 (if (w1.market? mid).isNone = true then
          ({ w1 with markets := w1.markets ++ [({ id := mid, book := some book } : Market)] } : World).emit (.marketEvent mid)
        else if (w1.market! mid).closed = true then w1.modifyMarket mid (fun m => { m with closed := false }) else w1) := by
      split
      · exact Keeps.of_eq rfl
      · split
        · exact keeps_modifyMarket w1 mid _
        · exact Keeps.refl w1
    generalize (if (w1.market? mid).isNone = true then
          ({ w1 with markets := w1.markets ++ [({ id := mid, book := some book } : Market)] } : World).emit (.marketEvent mid)
        else if (w1.market! mid).closed = true then w1.modifyMarket mid (fun m => { m with closed := false }) else w1) = w2 at k2
    have k3 := ((k1.trans k2).trans (keeps_modifyMarket w2 mid (fun m => { m with book := some book }))).trans (keeps_simulatedMiddleware _ mid)
    generalize (w2.modifyMarket mid (fun m => { m with book := some book })).simulatedMiddleware mid = w3 at k3
    have k4 : Keeps w (if (w3.market! mid).active = true then w3.processSimulatedOrders mid else w3) := by
      split
      · exact k3.trans (keeps_processSimulatedOrders w3 mid)
      · exact k3
    generalize (if (w3.market! mid).active = true then w3.processSimulatedOrders mid else w3) = w4 at k4
    -- the strategies' callbacks
    refine k4.trans (keeps_foldl_pair _ ?_ _ _)
    intro acc s
    obtain ⟨wa, outs⟩ := acc
    simp only
    split
    · have : Keeps wa (if (w1.market? mid).isNone = true then wa.emit (.newMarket s.id mid) else wa) := by
        split
        · exact keeps_emit _ _
        · exact Keeps.refl _
      exact (this.trans (keeps_emit _ _)).trans (keeps_doActions _ mid _)
    · exact Keeps.refl _

/-- the order table only ever grows: whatever update is processed - packages executed, removals applied,
    matching, completion, closure, any scripted requests of any strategies - every order that existed
    before still exists afterwards under the same id -/
theorem orders_never_lost (w : World) (mid : Nat) (book : Book) (script : Nat → List Action) (id : Nat) (h : HasOrder w id) :
    HasOrder (w.processMarketBook mid book script).1 id :=
  (keeps_processMarketBook w mid book script).hasOrder id h

end Flumine.Ids
