/- Lemmas/Settle.lean — the response handlers of the simulated execution touch the status of the order they
   handle (and of the replacement order they create) and of no other order. -/
import Flumine.SimLoop
import Flumine.Lemmas.OrderLemmas
import Flumine.Lemmas.Ids
import Flumine.Lemmas.Inv
import Flumine.Lemmas.Final
import Flumine.Props.C03
import Mathlib.Tactic.SplitIfs
namespace Flumine.Settle
open Flumine Flumine.World Flumine.OL Flumine.Ids Flumine.Inv

/-- status and `complete` flag of order x are the same in w and w' -/
def Same (x : Nat) (w w' : World) : Prop :=
  (w'.order! x).status = (w.order! x).status ∧ (w'.order! x).complete = (w.order! x).complete

/-- from w to w' only order `a` (and orders that did not exist in the base world w0) changed status -/
def Fr (w0 : World) (a : Nat) (w w' : World) : Prop := Keeps w w' ∧ ∀ x, x ≠ a → HasOrder w0 x → Same x w w'

theorem Fr.refl (w0 : World) (a : Nat) (w : World) : Fr w0 a w w := ⟨Keeps.refl w, fun _ _ _ => ⟨rfl, rfl⟩⟩
theorem Fr.trans {w0 : World} {a : Nat} {x y z : World} (h1 : Fr w0 a x y) (h2 : Fr w0 a y z) : Fr w0 a x z :=
  ⟨h1.1.trans h2.1, fun i hi hb => ⟨(h2.2 i hi hb).1.trans (h1.2 i hi hb).1, (h2.2 i hi hb).2.trans (h1.2 i hi hb).2⟩⟩

theorem Fr.of_eq {w0 : World} {a : Nat} {w w' : World} (h : w'.orders = w.orders) : Fr w0 a w w' :=
  ⟨Keeps.of_eq h, fun x _ _ => by unfold Same; rw [order!_congr w w' h x]; exact ⟨rfl, rfl⟩⟩

/-- `modifyOrder b f` where b is the handled order or an order the base world did not have -/
theorem fr_modifyOrder (w0 : World) (a : Nat) (w : World) (b : Nat) (f : Order → Order) (hf : ∀ x, (f x).id = x.id)
    (hb : b = a ∨ ¬ HasOrder w0 b) : Fr w0 a w (w.modifyOrder b f) := by
  refine ⟨keeps_modifyOrder w b f hf, fun x hx h0 => ?_⟩
  have hne : x ≠ b := by
    rcases hb with e | e
    · rw [e]; exact hx
    · intro e'; rw [e'] at h0; exact e h0
  unfold Same
  rw [order!_modify_other w x b f hne (fun y hy => by rw [hf y]; exact hy)]
  exact ⟨rfl, rfl⟩

theorem fr_orderUpdateStatus (w0 : World) (a : Nat) (w : World) (b : Nat) (s : Status) (hbw : HasOrder w b)
    (hb : b = a ∨ ¬ HasOrder w0 b) : Fr w0 a w (w.orderUpdateStatus b s) := by
  refine ⟨keeps_orderUpdateStatus w b s, fun x hx h0 => ?_⟩
  have hne : x ≠ b := by
    rcases hb with e | e
    · rw [e]; exact hx
    · intro e'; rw [e'] at h0; exact e h0
  unfold Same
  rw [orderUpdateStatus_other w x b s hbw hne]
  exact ⟨rfl, rfl⟩

theorem fr_orderExecutable (w0 : World) (a : Nat) (w : World) (b : Nat) (hbw : HasOrder w b) (hb : b = a ∨ ¬ HasOrder w0 b) :
    Fr w0 a w (w.orderExecutable b) := by
  unfold orderExecutable
  split
  · exact fr_modifyOrder w0 a w b _ (fun _ => rfl) hb
  · exact (fr_orderUpdateStatus w0 a w b .executable hbw hb).trans (fr_modifyOrder w0 a _ b _ (fun _ => rfl) hb)

theorem fr_orderExecutionComplete (w0 : World) (a : Nat) (w : World) (b : Nat) (hbw : HasOrder w b) (hb : b = a ∨ ¬ HasOrder w0 b) :
    Fr w0 a w (w.orderExecutionComplete b) := by
  unfold orderExecutionComplete
  exact (fr_orderUpdateStatus w0 a w b .executionComplete hbw hb).trans (fr_modifyOrder w0 a _ b _ (fun _ => rfl) hb)

theorem fr_tradeEnter (w0 : World) (a : Nat) (w : World) (t : Nat) : Fr w0 a w (w.tradeEnter t) := Fr.of_eq (tradeEnter_orders w t)
theorem fr_tradeExit (w0 : World) (a : Nat) (w : World) (t : Nat) : Fr w0 a w (w.tradeExit t) := Fr.of_eq (tradeExit_orders w t)
theorem fr_bumpBetId (w0 : World) (a : Nat) (w : World) : Fr w0 a w w.bumpBetId := Fr.of_eq rfl
theorem fr_emit (w0 : World) (a : Nat) (w : World) (e : Ev) : Fr w0 a w (w.emit e) := Fr.of_eq rfl
theorem fr_addTransaction (w0 : World) (a : Nat) (w : World) (c n : Nat) (f : Bool) : Fr w0 a w (w.addTransaction c n f) := Fr.of_eq rfl

theorem fr_logPlaced (w0 : World) (a : Nat) (w : World) (b : Nat) (bid : Option Nat) (hb : b = a ∨ ¬ HasOrder w0 b) :
    Fr w0 a w (w.logPlaced b bid) := by
  unfold logPlaced
  have k1 := fr_modifyOrder w0 a w b (fun o => { o with placedAt := some w.clock }) (fun _ => rfl) hb
  cases bid with
  | none => exact k1
  | some v => exact (k1.trans (fr_modifyOrder w0 a _ b (fun o => { o with betId := some v }) (fun _ => rfl) hb)).trans (fr_emit w0 a _ _)

theorem Fr.hasOrder {w0 : World} {a : Nat} {w w' : World} (h : Fr w0 a w w') (x : Nat) (hx : HasOrder w x) : HasOrder w' x := h.1.hasOrder x hx

/-! ### the handler steps -/

theorem fr_placeStep (w0 : World) (p : Package) (w : World) (a : Nat) (ho : HasOrder w a) : Fr w0 a w (placeStep p w a) := by
  unfold placeStep
  simp only
  have k1 := (fr_tradeEnter w0 a w (w.order! a).trade).trans (fr_bumpBetId w0 a _)
  generalize (w.tradeEnter (w.order! a).trade).bumpBetId = w1 at k1
  generalize placeResponse p w1 (w.order! a) = pr
  have k2 := k1.trans ((fr_modifyOrder w0 a w1 a (fun o => { o with sim := pr.1 }) (fun _ => rfl) (Or.inl rfl)).trans (fr_logPlaced w0 a _ a pr.2.betId (Or.inl rfl)))
  generalize (w1.modifyOrder a fun o => { o with sim := pr.1 }).logPlaced a pr.2.betId = w2 at k2
  have h2 := k2.hasOrder a ho
  cases pr.2.status with
  | success => exact (k2.trans (fr_orderExecutable w0 a w2 a h2 (Or.inl rfl))).trans (fr_tradeExit w0 a _ _)
  | failure => exact (k2.trans (fr_orderExecutionComplete w0 a w2 a h2 (Or.inl rfl))).trans (fr_tradeExit w0 a _ _)

theorem fr_cancelStep (w0 : World) (p : Package) (acc : World × Nat) (a : Nat) (ho : HasOrder acc.1 a) : Fr w0 a acc.1 (cancelStep p acc a).1 := by
  obtain ⟨w, failed⟩ := acc
  unfold cancelStep
  simp only
  have k1 := fr_tradeEnter w0 a w (w.order! a).trade
  generalize w.tradeEnter (w.order! a).trade = w1 at k1
  generalize (w.order! a).sim.cancel (((w1.market! p.market).book).getD {}).status
    (if (w.order! a).ud.hasReduction then (w.order! a).ud.sizeReduction else none) = cr
  have k2 := k1.trans (fr_modifyOrder w0 a w1 a (fun o => { o with sim := cr.1, cancelResponses := o.cancelResponses + 1 }) (fun _ => rfl) (Or.inl rfl))
  generalize w1.modifyOrder a (fun o => { o with sim := cr.1, cancelResponses := o.cancelResponses + 1 }) = w2 at k2
  have h2 := k2.hasOrder a ho
  cases cr.2.status with
  | success =>
    simp only
    split
    · exact (k2.trans (fr_orderExecutionComplete w0 a w2 a h2 (Or.inl rfl))).trans (fr_tradeExit w0 a _ _)
    · exact (k2.trans (fr_orderExecutable w0 a w2 a h2 (Or.inl rfl))).trans (fr_tradeExit w0 a _ _)
  | failure => exact (k2.trans (fr_orderExecutable w0 a w2 a h2 (Or.inl rfl))).trans (fr_tradeExit w0 a _ _)

theorem fr_updateStep (w0 : World) (p : Package) (acc : World × Nat) (a : Nat) (ho : HasOrder acc.1 a) : Fr w0 a acc.1 (updateStep p acc a).1 := by
  obtain ⟨w, failed⟩ := acc
  unfold updateStep
  simp only
  have k1 := fr_tradeEnter w0 a w (w.order! a).trade
  generalize w.tradeEnter (w.order! a).trade = w1 at k1
  generalize (w.order! a).sim.update (((w1.market! p.market).book).getD {}).view (w.order! a).sim.persistence = ur
  have k2 := k1.trans (fr_modifyOrder w0 a w1 a (fun o => { o with sim := ur.1, updateResponses := o.updateResponses + 1 }) (fun _ => rfl) (Or.inl rfl))
  generalize w1.modifyOrder a (fun o => { o with sim := ur.1, updateResponses := o.updateResponses + 1 }) = w2 at k2
  exact (k2.trans (fr_orderExecutable w0 a w2 a (k2.hasOrder a ho) (Or.inl rfl))).trans (fr_tradeExit w0 a _ _)

/-- a new order appended: the existing ones are as they were -/
theorem fr_append (w0 : World) (a : Nat) (w w' : World) (o : Order) (hk0 : Keeps w0 w) (ho : w'.orders = w.orders ++ [o]) : Fr w0 a w w' := by
  refine ⟨⟨[o.id], by unfold ids; rw [ho]; simp⟩, fun x _ h0 => ?_⟩
  unfold Same
  rw [Fin.order!_append w w' o ho x (hk0.hasOrder x h0)]
  exact ⟨rfl, rfl⟩

theorem not_hasOrder_len (w0 w1 : World) (hI : Inv w0) (hk : Keeps w0 w1) : ¬ HasOrder w0 w1.orders.length := by
  rw [hasOrder_iff, hI.range, List.mem_range]
  obtain ⟨e, he⟩ := hk
  have : (ids w1).length = (ids w0).length + e.length := by rw [he, List.length_append]
  unfold ids at this
  simp only [List.length_map] at this
  omega

/-- `market.place_order(replacement, execute=False)` touches the replacement order only -/
theorem fr_txnPlace_noexec (w0 : World) (a : Nat) (w : World) (t : Txn) (rid : Nat) (v : Option Int) (hr : HasOrder w rid)
    (hb : rid = a ∨ ¬ HasOrder w0 rid) : Fr w0 a w (w.txnPlace t rid v false false).1 := by
  unfold txnPlace
  simp only [Bool.false_and, Bool.false_eq_true, if_false]
  have k0 := fr_modifyOrder w0 a w rid (fun o => { o with client := some t.client }) (fun _ => rfl) hb
  generalize w.modifyOrder rid (fun o => { o with client := some t.client }) = w1 at k0
  have h1 := k0.hasOrder rid hr
  split
  · exact k0
  · have k2 := fr_modifyOrder w0 a w1 rid (fun o => { o with publishTime := some (((w1.market! t.market).book).getD {}).pt, marketVersion := v }) (fun _ => rfl) hb
    generalize w1.modifyOrder rid (fun o => { o with publishTime := some (((w1.market! t.market).book).getD {}).pt, marketVersion := v }) = w2 at k2
    have h2 := k2.hasOrder rid h1
    have k3 := fr_orderUpdateStatus w0 a w2 rid .pending h2 hb
    unfold orderPlacing
    generalize w2.orderUpdateStatus rid .pending = w3 at k3
    have k4 : Fr w0 a w3 (w3.blotterAdd t.market rid) := by
      unfold blotterAdd
      exact Fr.trans (Fr.of_eq rfl) (fr_modifyOrder w0 a _ rid _ (fun _ => rfl) hb)
    have base := ((k0.trans k2).trans k3).trans k4
    split
    · exact base.trans (fr_emit w0 a _ _)
    · exact base


theorem fr_replacePlace (w0 : World) (a : Nat) (p : Package) (w : World) (o : Order) (book : Book) (np : Option Rat) (sc : Rat) (failed : Nat)
    (ho : HasOrder w a) (hI : Inv w0) (hk0 : Keeps w0 w) : Fr w0 a w (replacePlace p w o a book np sc failed).1 := by
  unfold replacePlace
  simp only
  have k1 := (fr_orderExecutionComplete w0 a w a ho (Or.inl rfl)).trans (fr_bumpBetId w0 a _)
  generalize (w.orderExecutionComplete a).bumpBetId = w1 at k1
  have hk1 : Keeps w0 w1 := hk0.trans k1.1
  have hnew : ¬ HasOrder w0 (w1.createReplacement a (np.getD 0) sc p.created).2 := by
    have : (w1.createReplacement a (np.getD 0) sc p.created).2 = w1.orders.length := rfl
    rw [this]; exact not_hasOrder_len w0 w1 hI hk1
  have k2 : Fr w0 a w1 (w1.createReplacement a (np.getD 0) sc p.created).1 := by
    unfold createReplacement
    simp only
    exact fr_append w0 a w1 _ _ hk1 rfl
  have hr := createReplacement_mem w1 a (np.getD 0) sc p.created
  have k12 := k1.trans k2
  generalize w1.createReplacement a (np.getD 0) sc p.created = cr at k12 hr hnew
  obtain ⟨w2, rid⟩ := cr
  simp only at k12 hr hnew ⊢
  have hr2 : HasOrder w2 rid := (hasOrder_iff w2 rid).mpr hr
  generalize (w2.order! rid).sim.place p.marketVersion (w2.client! p.client).bpe (w2.client! ((w2.order! rid).client.getD 0)).fullMatch book.view
    ((runnerOf book (w2.order! rid).sel (w2.order! rid).hc).getD { sel := (w2.order! rid).sel }).view false none w2.betId = pr
  have q3 := fr_modifyOrder w0 a w2 rid (fun x => { x with sim := pr.1 }) (fun _ => rfl) (Or.inr hnew)
  have k3 := k12.trans q3
  generalize w2.modifyOrder rid (fun x => { x with sim := pr.1 }) = w3 at k3 q3
  have hr3 := q3.hasOrder rid hr2
  cases pr.2.status with
  | success =>
    simp only
    have q4 := (fr_modifyOrder w0 a w3 rid (fun x => { x with placedAt := some w3.clock, betId := pr.2.betId }) (fun _ => rfl) (Or.inr hnew)).trans (fr_emit w0 a _ (.orderEvent rid))
    have k4 := k3.trans q4
    generalize (w3.modifyOrder rid (fun x => { x with placedAt := some w3.clock, betId := pr.2.betId })).emit (.orderEvent rid) = w4 at k4 q4
    have hr4 := q4.hasOrder rid hr3
    have q5 := fr_txnPlace_noexec w0 a w4 { market := p.market, client := o.client.getD ((w4.clients.head?.map (·.id)).getD 0) } rid none hr4 (Or.inr hnew)
    exact ((k4.trans q5).trans (fr_orderExecutable w0 a _ rid (q5.hasOrder rid hr4) (Or.inr hnew))).trans (fr_tradeExit w0 a _ _)
  | failure =>
    have q4 := fr_orderExecutionComplete w0 a w3 rid hr3 (Or.inr hnew)
    exact ((k3.trans q4).trans (fr_orderExecutable w0 a _ a ((k3.trans q4).hasOrder a ho) (Or.inl rfl))).trans (fr_tradeExit w0 a _ _)

theorem fr_replaceStep (w0 : World) (p : Package) (acc : World × Nat) (pr : Nat × Option Rat) (ho : HasOrder acc.1 pr.1)
    (hI : Inv w0) (hk0 : Keeps w0 acc.1) : Fr w0 pr.1 acc.1 (replaceStep p acc pr).1 := by
  obtain ⟨w, failed⟩ := acc
  obtain ⟨a, newPrice⟩ := pr
  unfold replaceStep
  simp only
  have k1 := fr_tradeEnter w0 a w (w.order! a).trade
  generalize w.tradeEnter (w.order! a).trade = w1 at k1
  generalize (w.order! a).sim.cancel (((w1.market! p.market).book).getD {}).status
    (if (w.order! a).ud.hasReduction then (w.order! a).ud.sizeReduction else none) = cr
  have k2 := k1.trans (fr_modifyOrder w0 a w1 a (fun o => { o with sim := cr.1, cancelResponses := o.cancelResponses + 1 }) (fun _ => rfl) (Or.inl rfl))
  generalize w1.modifyOrder a (fun o => { o with sim := cr.1, cancelResponses := o.cancelResponses + 1 }) = w2 at k2
  have h2 := k2.hasOrder a ho
  cases cr.2.status with
  | failure => exact (k2.trans (fr_orderExecutable w0 a w2 a h2 (Or.inl rfl))).trans (fr_tradeExit w0 a _ _)
  | success => exact k2.trans (fr_replacePlace w0 a p w2 _ _ newPrice _ failed h2 hI (hk0.trans k2.1))

/-! ### the order handled ends settled -/

/-- executable, or EXECUTION_COMPLETE, or otherwise complete: not pending / cancelling / updating / replacing -/
def Settled (o : Order) : Prop := o.status = some .executable ∨ o.status = some .executionComplete ∨ o.complete = true

theorem settled_of_outcome (o o' : Order) (h : C03.HandlerOutcome o o') : Settled o' := by
  cases h with
  | final _ h1 _ _ => exact Or.inr (Or.inr h1)
  | toExecutable _ h2 _ => exact Or.inl h2
  | toComplete _ h2 _ => exact Or.inr (Or.inl h2)

theorem settled_same {x : Nat} {w w' : World} (h : Same x w w') (hs : Settled (w.order! x)) : Settled (w'.order! x) := by
  unfold Settled at hs ⊢
  rw [h.1, h.2]; exact hs

theorem settled_executable (w : World) (a : Nat) (ha : HasOrder w a) : Settled ((w.orderExecutable a).order! a) := by
  rw [C03.executable_self w a ha]
  split
  · rename_i hc; exact Or.inr (Or.inr hc)
  · exact Or.inl rfl

theorem settled_complete_stays (w : World) (a : Nat) (ha : HasOrder w a) (hc : (w.order! a).status = some .executionComplete ∧ (w.order! a).complete = true) :
    ((w.orderExecutable a).order! a).status = some .executionComplete ∧ ((w.orderExecutable a).order! a).complete = true := by
  rw [C03.executable_self w a ha, if_pos hc.2]
  exact hc


theorem ec_after (w : World) (a : Nat) (ha : HasOrder w a) :
    ((w.orderExecutionComplete a).order! a).status = some .executionComplete ∧ ((w.orderExecutionComplete a).order! a).complete = true := by
  rw [C03.executionComplete_self w a ha]
  exact ⟨rfl, rfl⟩

/-- the replace half: the replaced order ends EXECUTION_COMPLETE whatever happens to the replacement -/
theorem replacePlace_own (p : Package) (w : World) (o : Order) (a : Nat) (book : Book) (np : Option Rat) (sc : Rat) (failed : Nat)
    (ho : HasOrder w a) (hI : Inv w) :
    ((replacePlace p w o a book np sc failed).1.order! a).status = some .executionComplete ∧
    ((replacePlace p w o a book np sc failed).1.order! a).complete = true := by
  unfold replacePlace
  simp only
  -- after the old order completed
  have e1 := ec_after w a ho
  have k1 : Keeps w (w.orderExecutionComplete a).bumpBetId := (keeps_orderExecutionComplete w a).trans (keeps_bumpBetId _)
  have e1' : (((w.orderExecutionComplete a).bumpBetId).order! a).status = some .executionComplete ∧ (((w.orderExecutionComplete a).bumpBetId).order! a).complete = true := e1
  generalize (w.orderExecutionComplete a).bumpBetId = w1 at k1 e1'
  have h1 : HasOrder w1 a := k1.hasOrder a ho
  -- everything that follows touches the new order only; base world w1, handled order rid
  have hnew : ¬ HasOrder w (w1.createReplacement a (np.getD 0) sc p.created).2 := by
    have : (w1.createReplacement a (np.getD 0) sc p.created).2 = w1.orders.length := rfl
    rw [this]; exact not_hasOrder_len w w1 hI k1
  have k2 : Fr w1 (w1.createReplacement a (np.getD 0) sc p.created).2 w1 (w1.createReplacement a (np.getD 0) sc p.created).1 := by
    unfold createReplacement
    simp only
    exact fr_append w1 _ w1 _ _ (Keeps.refl w1) rfl
  have hr := createReplacement_mem w1 a (np.getD 0) sc p.created
  generalize w1.createReplacement a (np.getD 0) sc p.created = cr at k2 hr hnew
  obtain ⟨w2, rid⟩ := cr
  simp only at k2 hr hnew ⊢
  have hne : a ≠ rid := fun e => hnew (e ▸ ho)
  have hr2 : HasOrder w2 rid := (hasOrder_iff w2 rid).mpr hr
  generalize (w2.order! rid).sim.place p.marketVersion (w2.client! p.client).bpe (w2.client! ((w2.order! rid).client.getD 0)).fullMatch book.view
    ((runnerOf book (w2.order! rid).sel (w2.order! rid).hc).getD { sel := (w2.order! rid).sel }).view false none w2.betId = pr
  have q3 := fr_modifyOrder w1 rid w2 rid (fun x => { x with sim := pr.1 }) (fun _ => rfl) (Or.inl rfl)
  have k3 := k2.trans q3
  generalize w2.modifyOrder rid (fun x => { x with sim := pr.1 }) = w3 at k3 q3
  have hr3 := q3.hasOrder rid hr2
  cases pr.2.status with
  | success =>
    simp only
    have q4 := (fr_modifyOrder w1 rid w3 rid (fun x => { x with placedAt := some w3.clock, betId := pr.2.betId }) (fun _ => rfl) (Or.inl rfl)).trans (fr_emit w1 rid _ (.orderEvent rid))
    have k4 := k3.trans q4
    generalize (w3.modifyOrder rid (fun x => { x with placedAt := some w3.clock, betId := pr.2.betId })).emit (.orderEvent rid) = w4 at k4 q4
    have hr4 := q4.hasOrder rid hr3
    have q5 := fr_txnPlace_noexec w1 rid w4 { market := p.market, client := o.client.getD ((w4.clients.head?.map (·.id)).getD 0) } rid none hr4 (Or.inl rfl)
    have kall := ((k4.trans q5).trans (fr_orderExecutable w1 rid _ rid (q5.hasOrder rid hr4) (Or.inl rfl))).trans (fr_tradeExit w1 rid _ o.trade)
    obtain ⟨s1, s2⟩ := kall.2 a hne h1
    rw [s1, s2]; exact e1'
  | failure =>
    have q4 := fr_orderExecutionComplete w1 rid w3 rid hr3 (Or.inl rfl)
    have k4 := k3.trans q4
    obtain ⟨s1, s2⟩ := k4.2 a hne h1
    have ha4 : HasOrder (w3.orderExecutionComplete rid) a := k4.hasOrder a h1
    have e4 : ((w3.orderExecutionComplete rid).order! a).status = some .executionComplete ∧ ((w3.orderExecutionComplete rid).order! a).complete = true := by
      rw [s1, s2]; exact e1'
    have e5 := settled_complete_stays (w3.orderExecutionComplete rid) a ha4 e4
    have : (((w3.orderExecutionComplete rid).orderExecutable a).tradeExit o.trade).order! a = ((w3.orderExecutionComplete rid).orderExecutable a).order! a :=
      order!_congr _ _ (tradeExit_orders _ _) a
    rw [this]; exact e5

theorem replaceStep_own (p : Package) (acc : World × Nat) (pr : Nat × Option Rat) (ho : HasOrder acc.1 pr.1) (hI : Inv acc.1) :
    Settled ((replaceStep p acc pr).1.order! pr.1) := by
  obtain ⟨w, failed⟩ := acc
  obtain ⟨a, newPrice⟩ := pr
  unfold replaceStep
  simp only
  have k1 := good_tradeEnter w (w.order! a).trade
  generalize w.tradeEnter (w.order! a).trade = w1 at k1
  generalize (w.order! a).sim.cancel (((w1.market! p.market).book).getD {}).status
    (if (w.order! a).ud.hasReduction then (w.order! a).ud.sizeReduction else none) = cr
  have k2 := k1.trans (good_modifyOrder w1 a (fun o => { o with sim := cr.1, cancelResponses := o.cancelResponses + 1 }) (fun _ => rfl))
  generalize w1.modifyOrder a (fun o => { o with sim := cr.1, cancelResponses := o.cancelResponses + 1 }) = w2 at k2
  have h2 : HasOrder w2 a := k2.1.hasOrder a ho
  cases cr.2.status with
  | failure =>
    simp only
    have : ((w2.orderExecutable a).tradeExit (w.order! a).trade).order! a = (w2.orderExecutable a).order! a := order!_congr _ _ (tradeExit_orders _ _) a
    rw [this]; exact settled_executable w2 a h2
  | success =>
    simp only
    have := replacePlace_own p w2 (w.order! a) a (((w1.market! p.market).book).getD {}) newPrice cr.2.sizeCancelled failed h2 (k2.2 hI)
    exact Or.inr (Or.inl this.1)


/-! ### a fold of handler steps settles every order it handles -/

/-- steps on other orders keep order k settled -/
theorem fold_keeps_settled {σ α} (wof : σ → World) (key : α → Nat) (f : σ → α → σ) (P : World → Prop)
    (hfr : ∀ s a, HasOrder (wof s) (key a) → P (wof s) → Fr (wof s) (key a) (wof s) (wof (f s a)))
    (hP : ∀ s a, HasOrder (wof s) (key a) → P (wof s) → P (wof (f s a)))
    (k : Nat) (l : List α) (s : σ) (hw : P (wof s)) (hl : ∀ a ∈ l, HasOrder (wof s) (key a)) (hk : ∀ a ∈ l, key a ≠ k)
    (hko : HasOrder (wof s) k) (hs : Settled ((wof s).order! k)) : Settled ((wof (l.foldl f s)).order! k) := by
  induction l generalizing s with
  | nil => exact hs
  | cons b rest ih =>
    rw [List.foldl_cons]
    have hb := hl b List.mem_cons_self
    have fr := hfr s b hb hw
    refine ih (f s b) (hP s b hb hw) (fun x hx => fr.hasOrder _ (hl x (List.mem_cons_of_mem _ hx)))
      (fun x hx => hk x (List.mem_cons_of_mem _ hx)) (fr.hasOrder k hko) ?_
    exact settled_same (fr.2 k (fun e => hk b List.mem_cons_self e.symm) hko) hs

theorem fold_settles {σ α} (wof : σ → World) (key : α → Nat) (f : σ → α → σ) (P : World → Prop)
    (hown : ∀ s a, HasOrder (wof s) (key a) → P (wof s) → Settled ((wof (f s a)).order! (key a)))
    (hfr : ∀ s a, HasOrder (wof s) (key a) → P (wof s) → Fr (wof s) (key a) (wof s) (wof (f s a)))
    (hP : ∀ s a, HasOrder (wof s) (key a) → P (wof s) → P (wof (f s a)))
    (l : List α) (s : σ) (hw : P (wof s)) (hl : ∀ a ∈ l, HasOrder (wof s) (key a)) :
    ∀ a ∈ l, Settled ((wof (l.foldl f s)).order! (key a)) := by
  induction l generalizing s with
  | nil => intro a ha; cases ha
  | cons b rest ih =>
    intro a ha
    rw [List.foldl_cons]
    have hb := hl b List.mem_cons_self
    have fr := hfr s b hb hw
    have hl1 : ∀ x ∈ rest, HasOrder (wof (f s b)) (key x) := fun x hx => fr.hasOrder _ (hl x (List.mem_cons_of_mem _ hx))
    by_cases hin : ∃ x ∈ rest, key x = key a
    · obtain ⟨x, hx, e⟩ := hin
      rw [← e]; exact ih (f s b) (hP s b hb hw) hl1 x hx
    · have hab : key a = key b := by
        rcases List.mem_cons.mp ha with e | e
        · rw [e]
        · exact absurd ⟨a, e, rfl⟩ hin
      rw [hab]
      refine fold_keeps_settled wof key f P hfr hP (key b) rest (f s b) (hP s b hb hw) hl1 ?_ (fr.hasOrder _ hb) (hown s b hb hw)
      intro x hx e
      exact hin ⟨x, hx, e.trans hab.symm⟩


/-! ### a whole package -/

/-- after a package of any kind has been executed every order of it is settled (statement and comment: C12) -/
theorem package_settles (w : World) (p : Package) (hI : Inv w) (hp : ∀ oid ∈ p.orders, HasOrder w oid) :
    ∀ oid ∈ w.packageOrders p, Settled ((w.executePackage p).order! oid) := by
  have hpo : ∀ oid ∈ w.packageOrders p, HasOrder w oid := fun oid h => hp oid (List.mem_filter.mp h).1
  intro oid hoid
  unfold executePackage
  cases p.kind with
  | place =>
    simp only; unfold executePlace
    have := fold_settles (σ := World) id id (placeStep p) Inv
      (fun s a h _ => settled_of_outcome _ _ (C03.placeStep_outcome p s a h))
      (fun s a h _ => fr_placeStep s p s a h)
      (fun s a _ hi => (good_placeStep p s a).2 hi) (w.packageOrders p) w hI hpo oid hoid
    simp only [id] at this
    rw [order!_congr _ _ (show (((w.packageOrders p).foldl (placeStep p) w).addTransaction p.client _ false).orders = _ from rfl) oid]
    exact this
  | cancel =>
    simp only; unfold executeCancel
    simp only
    have := fold_settles (σ := World × Nat) (·.1) id (cancelStep p) Inv
      (fun s a h _ => settled_of_outcome _ _ (C03.cancelStep_outcome p s.1 s.2 a h).1)
      (fun s a h _ => fr_cancelStep s.1 p s a h)
      (fun s a _ hi => (good_cancelStep p s a).2 hi) (w.packageOrders p) (w, 0) hI hpo oid hoid
    simp only [id] at this
    generalize (w.packageOrders p).foldl (cancelStep p) (w, 0) = r at this
    obtain ⟨w1, failed⟩ := r
    simp only at this ⊢
    split
    · rw [order!_congr _ _ (show (w1.addTransaction p.client failed true).orders = w1.orders from rfl) oid]; exact this
    · exact this
  | update =>
    simp only; unfold executeUpdate
    simp only
    have := fold_settles (σ := World × Nat) (·.1) id (updateStep p) Inv
      (fun s a h _ => settled_of_outcome _ _ (C03.updateStep_outcome p s.1 s.2 a h).1)
      (fun s a h _ => fr_updateStep s.1 p s a h)
      (fun s a _ hi => (good_updateStep p s a).2 hi) (w.packageOrders p) (w, 0) hI hpo oid hoid
    simp only [id] at this
    generalize (w.packageOrders p).foldl (updateStep p) (w, 0) = r at this
    obtain ⟨w1, failed⟩ := r
    simp only at this ⊢
    split
    · rw [order!_congr _ _ (show (w1.addTransaction p.client failed true).orders = w1.orders from rfl) oid]; exact this
    · exact this
  | replace =>
    simp only; unfold executeReplace
    simp only
    -- the orders that still have an instruction, each paired with its own
    have hfr : ∀ (s : World × Nat) (a : Nat × Option Rat), HasOrder s.1 a.1 → Inv s.1 → Fr s.1 a.1 s.1 (replaceStep p s a).1 :=
      fun s a h hi => fr_replaceStep s.1 p s a h hi (Ids.Keeps.refl s.1)
    have hP : ∀ (s : World × Nat) (a : Nat × Option Rat), HasOrder s.1 a.1 → Inv s.1 → Inv (replaceStep p s a).1 :=
      fun s a _ hi => (good_replaceStep p s a).2 hi
    have hlive : ∀ a ∈ ((w.packageOrders p).filter fun oid => (w.order! oid).status ≠ some .executionComplete).map (fun oid => (oid, (w.order! oid).ud.newPrice)),
        HasOrder w a.1 := by
      intro a ha
      obtain ⟨x, hx, rfl⟩ := List.mem_map.mp ha
      exact hpo x (List.mem_filter.mp hx).1
    have hres : Settled (((((w.packageOrders p).filter fun oid => (w.order! oid).status ≠ some .executionComplete).map
        (fun oid => (oid, (w.order! oid).ud.newPrice))).foldl (replaceStep p) (w, 0)).1.order! oid) := by
      by_cases hec : (w.order! oid).status = some .executionComplete
      · -- completed since the request: no instruction, nothing touches it
        refine fold_keeps_settled (σ := World × Nat) (·.1) (·.1) (replaceStep p) Inv hfr hP oid _ (w, 0) hI hlive ?_ (hpo oid hoid) (Or.inr (Or.inl hec))
        intro a ha e
        obtain ⟨x, hx, rfl⟩ := List.mem_map.mp ha
        have := (List.mem_filter.mp hx).2
        simp only [ne_eq, decide_eq_true_eq] at this
        simp only at e
        rw [e] at this; exact this hec
      · have hin : (oid, (w.order! oid).ud.newPrice) ∈ ((w.packageOrders p).filter fun oid => (w.order! oid).status ≠ some .executionComplete).map
            (fun oid => (oid, (w.order! oid).ud.newPrice)) :=
          List.mem_map.mpr ⟨oid, List.mem_filter.mpr ⟨hoid, by simpa using hec⟩, rfl⟩
        exact fold_settles (σ := World × Nat) (·.1) (·.1) (replaceStep p) Inv
          (fun s a h hi => replaceStep_own p s a h hi) hfr hP _ (w, 0) hI hlive _ hin
    generalize (((w.packageOrders p).filter fun oid => (w.order! oid).status ≠ some .executionComplete).map
        (fun oid => (oid, (w.order! oid).ud.newPrice))).foldl (replaceStep p) (w, 0) = r at hres
    obtain ⟨w1, failed⟩ := r
    simp only at hres ⊢
    split
    · exact hres
    · exact hres

end Flumine.Settle
