/- Lemmas/Closed.lean — what one update does to the markets the framework knows and to the closed-market callbacks observed so
   far, as a function of the update alone (Strat / Mids / Cc: nothing else writes the three). -/
import Flumine.Lemmas.Strat
import Flumine.Lemmas.Mids
import Flumine.Lemmas.Cc
namespace Flumine.Closed
open Flumine Flumine.World

/-- the callbacks a closing update owes: one per strategy subscribed to the book's stream (or with an empty filter), in
    registration order, with the book's publish time -/
def callbacksFor (ss : List Strategy) (mid : Nat) (book : Book) : List Ev :=
  (ss.filter fun s => s.streams.contains book.streamId || s.emptyFilter).map fun s => Ev.closedCallback s.id mid book.pt

theorem closeCallbacks_eq (w : World) (mid : Nat) (book : Book) : w.closeCallbacks mid book = callbacksFor w.strategies mid book := rfl

/-- the specification of a run, as seen from outside: (markets known so far, callbacks observed so far) -/
def specStep (ss : List Strategy) (st : List Nat × List Ev) (u : Nat × Book × (Nat → List Action)) : List Nat × List Ev :=
  if u.2.1.status = .closed then (st.1, st.2 ++ (if u.1 ∈ st.1 then callbacksFor ss u.1 u.2.1 else []))
  else (if u.1 ∈ st.1 then st.1 else st.1 ++ [u.1], st.2)

theorem processMarketBook_spec (w : World) (mid : Nat) (book : Book) (script : Nat → List Action) :
    ((w.processMarketBook mid book script).1.mids, (w.processMarketBook mid book script).1.cc) =
      specStep w.strategies (w.mids, w.cc) (mid, book, script) := by
  unfold processMarketBook specStep
  simp only
  have h1 : (if (w.setClock book.pt).queue.isEmpty = true then w.setClock book.pt else (w.setClock book.pt).checkPendingPackages mid).mids = w.mids ∧
      (if (w.setClock book.pt).queue.isEmpty = true then w.setClock book.pt else (w.setClock book.pt).checkPendingPackages mid).cc = w.cc ∧
      (if (w.setClock book.pt).queue.isEmpty = true then w.setClock book.pt else (w.setClock book.pt).checkPendingPackages mid).strategies = w.strategies := by
    split
    · exact ⟨rfl, rfl, rfl⟩
    · exact ⟨by rw [Mids.checkPendingPackages_mids]; rfl, by rw [Cc.checkPendingPackages_cc]; rfl, by rw [Strat.checkPendingPackages_strategies]; rfl⟩
  generalize (if (w.setClock book.pt).queue.isEmpty = true then w.setClock book.pt else (w.setClock book.pt).checkPendingPackages mid) = w1 at h1
  obtain ⟨m1, c1, s1⟩ := h1
  split
  · -- a closing update
    rw [Mids.processCloseMarket_mids, Cc.processCloseMarket_cc, m1, c1, closeCallbacks_eq, s1]
    congr 2
    by_cases hk : mid ∈ w.mids
    · rw [if_pos hk, if_pos ((Mids.market?_isSome_iff w1 mid).mpr (m1 ▸ hk))]
    · rw [if_neg hk, if_neg (fun h => hk (m1 ▸ (Mids.market?_isSome_iff w1 mid).mp h))]
  · -- any other update: the market becomes known, no closed-market callback
    have hkn : ((w1.market? mid).isNone = true) ↔ mid ∉ w.mids := by
      rw [← m1, ← Mids.market?_isSome_iff]
      cases w1.market? mid <;> simp
    have h2 : (if (w1.market? mid).isNone = true then
          ({ w1 with markets := w1.markets ++ [({ id := mid, book := some book } : Market)] } : World).emit (.marketEvent mid)
        else if (w1.market! mid).closed = true then w1.modifyMarket mid (fun m => { m with closed := false }) else w1).mids =
          (if mid ∈ w.mids then w.mids else w.mids ++ [mid]) ∧
        (if (w1.market? mid).isNone = true then
          ({ w1 with markets := w1.markets ++ [({ id := mid, book := some book } : Market)] } : World).emit (.marketEvent mid)
        else if (w1.market! mid).closed = true then w1.modifyMarket mid (fun m => { m with closed := false }) else w1).cc = w.cc := by
      split
      · rename_i hn
        rw [if_neg (hkn.mp hn)]
        refine ⟨?_, ?_⟩
        · show (w1.markets ++ [({ id := mid, book := some book } : Market)]).map (·.id) = w.mids ++ [mid]
          rw [List.map_append, ← m1]; rfl
        · rw [Cc.emit_cc]
          simp only [Ev.isCC_marketEvent, Bool.false_eq_true, if_false, List.append_nil]
          exact c1
      · rename_i hn
        have hk : mid ∈ w.mids := Classical.byContradiction fun h => hn (hkn.mpr h)
        rw [if_pos hk]
        split
        · exact ⟨by rw [Mids.modifyMarket_mids' w1 mid (fun m => { m with closed := false }) (fun _ => rfl), m1], by simp [c1]⟩
        · exact ⟨m1, c1⟩
    generalize (if (w1.market? mid).isNone = true then
          ({ w1 with markets := w1.markets ++ [({ id := mid, book := some book } : Market)] } : World).emit (.marketEvent mid)
        else if (w1.market! mid).closed = true then w1.modifyMarket mid (fun m => { m with closed := false }) else w1) = w2 at h2
    obtain ⟨m2, c2⟩ := h2
    have h3 : ((w2.modifyMarket mid fun m => { m with book := some book }).simulatedMiddleware mid).mids = w2.mids ∧
        ((w2.modifyMarket mid fun m => { m with book := some book }).simulatedMiddleware mid).cc = w2.cc := by
      refine ⟨by rw [Mids.simulatedMiddleware_mids, Mids.modifyMarket_mids' w2 mid (fun m => { m with book := some book }) (fun _ => rfl)],
        by rw [Cc.simulatedMiddleware_cc, Cc.modifyMarket_cc]⟩
    generalize (w2.modifyMarket mid fun m => { m with book := some book }).simulatedMiddleware mid = w3 at h3
    have h4 : (if (w3.market! mid).active = true then w3.processSimulatedOrders mid else w3).mids = w2.mids ∧
        (if (w3.market! mid).active = true then w3.processSimulatedOrders mid else w3).cc = w2.cc := by
      split
      · exact ⟨by rw [Mids.processSimulatedOrders_mids, h3.1], by rw [Cc.processSimulatedOrders_cc, h3.2]⟩
      · exact h3
    generalize (if (w3.market! mid).active = true then w3.processSimulatedOrders mid else w3) = w4 at h4
    have key : ∀ (l : List Strategy) (acc : World × List (Nat × List String)),
        (l.foldl (fun (acc : World × List (Nat × List String)) s =>
          if s.streams.contains book.streamId = true then
            ((((if (w1.market? mid).isNone = true then acc.1.emit (.newMarket s.id mid) else acc.1).emit (.bookCallback s.id mid book.pt)).doActions mid (script s.id)).1,
              acc.2 ++ [(s.id, (((if (w1.market? mid).isNone = true then acc.1.emit (.newMarket s.id mid) else acc.1).emit (.bookCallback s.id mid book.pt)).doActions mid (script s.id)).2)])
          else acc) acc).1.mids = acc.1.mids ∧
        (l.foldl (fun (acc : World × List (Nat × List String)) s =>
          if s.streams.contains book.streamId = true then
            ((((if (w1.market? mid).isNone = true then acc.1.emit (.newMarket s.id mid) else acc.1).emit (.bookCallback s.id mid book.pt)).doActions mid (script s.id)).1,
              acc.2 ++ [(s.id, (((if (w1.market? mid).isNone = true then acc.1.emit (.newMarket s.id mid) else acc.1).emit (.bookCallback s.id mid book.pt)).doActions mid (script s.id)).2)])
          else acc) acc).1.cc = acc.1.cc := by
      intro l
      induction l with
      | nil => intro acc; exact ⟨rfl, rfl⟩
      | cons s rest ih =>
        intro acc
        rw [List.foldl_cons]
        obtain ⟨i1, i2⟩ := ih (if s.streams.contains book.streamId = true then
            ((((if (w1.market? mid).isNone = true then acc.1.emit (.newMarket s.id mid) else acc.1).emit (.bookCallback s.id mid book.pt)).doActions mid (script s.id)).1,
              acc.2 ++ [(s.id, (((if (w1.market? mid).isNone = true then acc.1.emit (.newMarket s.id mid) else acc.1).emit (.bookCallback s.id mid book.pt)).doActions mid (script s.id)).2)])
          else acc)
        rw [i1, i2]
        split
        · simp only [Mids.doActions_mids, Cc.doActions_cc, Mids.emit_mids, Cc.emit_cc]
          split <;> simp
        · exact ⟨rfl, rfl⟩
    obtain ⟨k1, k2⟩ := key w4.strategies (w4, [])
    rw [k1, k2, h4.1, h4.2, m2, c2]

/-- any run: the markets known and the callbacks observed at the end are what the specification computes from the updates -/
theorem runUpdates_spec (w : World) (us : List (Nat × Book × (Nat → List Action))) :
    ((Inv.runUpdates w us).mids, (Inv.runUpdates w us).cc) = us.foldl (specStep w.strategies) (w.mids, w.cc) := by
  unfold Inv.runUpdates
  induction us generalizing w with
  | nil => rfl
  | cons u rest ih =>
    rw [List.foldl_cons, List.foldl_cons, ih, Strat.processMarketBook_strategies, processMarketBook_spec]

end Flumine.Closed
