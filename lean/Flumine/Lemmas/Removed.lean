/- Lemmas/Removed.lean — what one update does to the markets' lists of applied runner removals, as a function of the update
   alone (Mrem: nothing but `mwUpdateAnalytics` writes them). -/
import Flumine.Lemmas.Mrem
import Flumine.Lemmas.Final
import Flumine.Lemmas.Mids
import Flumine.Lemmas.Flight
namespace Flumine.Removed
open Flumine Flumine.World

abbrev Key := Nat × Rat × Option Rat

/-- the list of market `mid` in the projection (empty for a market that is not there) -/
def lookupRem (K : List (Nat × List Key)) (mid : Nat) : List Key := ((K.find? fun e => e.1 = mid).map (·.2)).getD []

theorem market!_removals (w : World) (mid : Nat) : (w.market! mid).removals = lookupRem w.mrem mid := by
  unfold market! market? lookupRem World.mrem
  rw [List.find?_map]
  cases h : w.markets.find? (fun x => decide (x.id = mid)) with
  | none =>
    have : List.find? ((fun e : Nat × List Key => decide (e.1 = mid)) ∘ fun m : Market => (m.id, m.removals)) w.markets = none := by
      rw [List.find?_eq_none] at h ⊢
      intro x hx; simpa using h x hx
    rw [this]; rfl
  | some x =>
    have : List.find? ((fun e : Nat × List Key => decide (e.1 = mid)) ∘ fun m : Market => (m.id, m.removals)) w.markets = some x := by
      have : ((fun e : Nat × List Key => decide (e.1 = mid)) ∘ fun m : Market => (m.id, m.removals)) = fun x : Market => decide (x.id = mid) := rfl
      rw [this]; exact h
    rw [this]; rfl

theorem market!_modify_self (w : World) (a : Nat) (f : Market → Market) (hf : ∀ x, (f x).id = x.id) (h : (w.market? a).isSome = true) :
    (w.modifyMarket a f).market! a = f (w.market! a) := by
  unfold market! market? modifyMarket at *
  simp only
  rw [Fin.find_map_market w.markets a a f hf]
  cases hx : w.markets.find? (fun x => decide (x.id = a)) with
  | none => rw [hx] at h; cases h
  | some x =>
    have hxa : x.id = a := by simpa using List.find?_some hx
    simp [hxa]

/-- the one writer -/
theorem mwUpdateAnalytics_mrem (w : World) (mid : Nat) :
    (w.mwUpdateAnalytics mid).1.mrem = w.mrem.map fun e =>
      if e.1 = mid then (e.1, (detectRemovals ((w.market! mid).book.getD {}).runners (w.market! mid).removals).1) else e := by
  unfold mwUpdateAnalytics World.mrem modifyMarket
  simp only [List.map_map]
  apply List.map_congr_left
  intro x _
  simp only [Function.comp]
  split <;> rfl

theorem simulatedMiddleware_mrem (w : World) (mid : Nat) :
    (w.simulatedMiddleware mid).mrem = w.mrem.map fun e =>
      if e.1 = mid then (e.1, (detectRemovals ((w.market! mid).book.getD {}).runners (w.market! mid).removals).1) else e := by
  unfold simulatedMiddleware
  simp only
  have h : (List.foldl (fun w (k : Nat × Rat × Option Rat) => w.processRunnerRemoval mid k.1 k.2.1 k.2.2) (w.mwUpdateAnalytics mid).1 (w.mwUpdateAnalytics mid).2).mrem =
      (w.mwUpdateAnalytics mid).1.mrem :=
    Mrem.foldl_mrem (fun w (k : Nat × Rat × Option Rat) => w.processRunnerRemoval mid k.1 k.2.1 k.2.2) (fun w k => Mrem.processRunnerRemoval_mrem w mid k.1 k.2.1 k.2.2) _ _
  rw [← mwUpdateAnalytics_mrem]
  split
  · rw [Mrem.mwProcessSimulatedOrders_mrem, h]
  · exact h

/-- the specification, on the projection: a closing update changes nothing; any other update makes the market known (with an
    empty list) and appends to ITS list the REMOVED runners of the book that are not in it yet -/
def specRem (K : List (Nat × List Key)) (u : Nat × Book × (Nat → List Action)) : List (Nat × List Key) :=
  if u.2.1.status = .closed then K
  else
    let K' := if u.1 ∈ K.map (·.1) then K else K ++ [(u.1, [])]
    K'.map fun e => if e.1 = u.1 then (e.1, (detectRemovals u.2.1.runners (lookupRem K' u.1)).1) else e

theorem mem_mrem_iff (w : World) (mid : Nat) : mid ∈ w.mrem.map (·.1) ↔ (w.market? mid).isSome = true := by
  rw [Mids.market?_isSome_iff]
  unfold World.mrem World.mids
  simp [List.map_map]

theorem processMarketBook_mrem (w : World) (mid : Nat) (book : Book) (script : Nat → List Action) :
    (w.processMarketBook mid book script).1.mrem = specRem w.mrem (mid, book, script) := by
  unfold processMarketBook specRem
  simp only
  have h1 : (if (w.setClock book.pt).queue.isEmpty = true then w.setClock book.pt else (w.setClock book.pt).checkPendingPackages mid).mrem = w.mrem := by
    split
    · rfl
    · rw [Mrem.checkPendingPackages_mrem]; rfl
  generalize (if (w.setClock book.pt).queue.isEmpty = true then w.setClock book.pt else (w.setClock book.pt).checkPendingPackages mid) = w1 at h1
  split
  · rw [Mrem.processCloseMarket_mrem, h1]
  · have h2 : (if (w1.market? mid).isNone = true then
          ({ w1 with markets := w1.markets ++ [({ id := mid, book := some book } : Market)] } : World).emit (.marketEvent mid)
        else if (w1.market! mid).closed = true then w1.modifyMarket mid (fun m => { m with closed := false }) else w1).mrem =
          (if mid ∈ w.mrem.map (·.1) then w.mrem else w.mrem ++ [(mid, [])]) ∧
        ((if (w1.market? mid).isNone = true then
          ({ w1 with markets := w1.markets ++ [({ id := mid, book := some book } : Market)] } : World).emit (.marketEvent mid)
        else if (w1.market! mid).closed = true then w1.modifyMarket mid (fun m => { m with closed := false }) else w1).market? mid).isSome = true := by
      split
      · rename_i hn
        have hk : mid ∉ w.mrem.map (·.1) := by
          rw [← h1, mem_mrem_iff]; intro h; cases hm : w1.market? mid <;> simp_all
        rw [if_neg hk]
        refine ⟨?_, Fl.appendMarket_isSome w1 { id := mid, book := some book }⟩
        show (w1.markets ++ [({ id := mid, book := some book } : Market)]).map (fun m => (m.id, m.removals)) = w.mrem ++ [(mid, [])]
        rw [List.map_append, ← h1]; rfl
      · rename_i hn
        have hs : (w1.market? mid).isSome = true := by cases hm : w1.market? mid <;> simp_all
        have hk : mid ∈ w.mrem.map (·.1) := by rw [← h1, mem_mrem_iff]; exact hs
        rw [if_pos hk]
        split
        · exact ⟨by rw [Mrem.modifyMarket_mrem' w1 mid (fun m => { m with closed := false }) (fun _ => ⟨rfl, rfl⟩), h1],
            Fl.modifyMarket_isSome w1 mid (fun m => { m with closed := false }) (fun _ => rfl) mid hs⟩
        · exact ⟨h1, hs⟩
    generalize (if (w1.market? mid).isNone = true then
          ({ w1 with markets := w1.markets ++ [({ id := mid, book := some book } : Market)] } : World).emit (.marketEvent mid)
        else if (w1.market! mid).closed = true then w1.modifyMarket mid (fun m => { m with closed := false }) else w1) = w2 at h2
    obtain ⟨m2, x2⟩ := h2
    -- the book is stored, then the middleware runs
    have hb : ((w2.modifyMarket mid fun m => { m with book := some book }).market! mid).book = some book ∧
        ((w2.modifyMarket mid fun m => { m with book := some book }).market! mid).removals = lookupRem w2.mrem mid := by
      rw [market!_modify_self w2 mid (fun m => { m with book := some book }) (fun _ => rfl) x2]
      exact ⟨rfl, market!_removals w2 mid⟩
    have h3 : ((w2.modifyMarket mid fun m => { m with book := some book }).simulatedMiddleware mid).mrem =
        w2.mrem.map fun e => if e.1 = mid then (e.1, (detectRemovals book.runners (lookupRem w2.mrem mid)).1) else e := by
      rw [simulatedMiddleware_mrem, hb.1, hb.2, Mrem.modifyMarket_mrem' w2 mid (fun m => { m with book := some book }) (fun _ => ⟨rfl, rfl⟩)]
      rfl
    generalize (w2.modifyMarket mid fun m => { m with book := some book }).simulatedMiddleware mid = w3 at h3
    have h4 : (if (w3.market! mid).active = true then w3.processSimulatedOrders mid else w3).mrem = w3.mrem := by
      split
      · rw [Mrem.processSimulatedOrders_mrem]
      · rfl
    generalize (if (w3.market! mid).active = true then w3.processSimulatedOrders mid else w3) = w4 at h4
    have key : ∀ (l : List Strategy) (acc : World × List (Nat × List String)),
        (l.foldl (fun (acc : World × List (Nat × List String)) s =>
          if s.streams.contains book.streamId = true then
            ((((if (w1.market? mid).isNone = true then acc.1.emit (.newMarket s.id mid) else acc.1).emit (.bookCallback s.id mid book.pt)).doActions mid (script s.id)).1,
              acc.2 ++ [(s.id, (((if (w1.market? mid).isNone = true then acc.1.emit (.newMarket s.id mid) else acc.1).emit (.bookCallback s.id mid book.pt)).doActions mid (script s.id)).2)])
          else acc) acc).1.mrem = acc.1.mrem := by
      intro l
      induction l with
      | nil => intro acc; rfl
      | cons s rest ih =>
        intro acc
        rw [List.foldl_cons, ih]
        split
        · simp only [Mrem.doActions_mrem, Mrem.emit_mrem]
          split <;> rfl
        · rfl
    rw [key w4.strategies (w4, []), h4, h3, m2]

/-- any run -/
theorem runUpdates_mrem (w : World) (us : List (Nat × Book × (Nat → List Action))) :
    (Inv.runUpdates w us).mrem = us.foldl specRem w.mrem := by
  unfold Inv.runUpdates
  induction us generalizing w with
  | nil => rfl
  | cons u rest ih => rw [List.foldl_cons, List.foldl_cons, ih, processMarketBook_mrem]

end Flumine.Removed
