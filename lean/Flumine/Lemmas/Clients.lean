/- Lemmas/Clients.lean — the framework's client table (`World.clients`, each client with its MaxTransactionCount control) is left
   alone by every per-order step of the simulated execution handlers (place / cancel / update / replace loops, the immediate placement
   of a replacement order included): inside a handler only the closing `client.add_transaction` calls write it.  Cloned from Mrem.lean. -/
import Flumine.SimLoop
import Flumine.Lemmas.Inv
import Mathlib.Tactic.SplitIfs
namespace Flumine
namespace Clients
open Flumine Flumine.World

@[simp] theorem modifyOrder_clients (w : World) (a : Nat) (f : Order → Order) : (w.modifyOrder a f).clients = w.clients := rfl
@[simp] theorem setOrder_clients (w : World) (o : Order) : (w.setOrder o).clients = w.clients := rfl
@[simp] theorem setTrade_clients (w : World) (t : Trade) : (w.setTrade t).clients = w.clients := rfl
theorem modifyMarket_clients' (w : World) (a : Nat) (f : Market → Market) (hf : ∀ x, (f x).id = x.id ∧ (f x).removals = x.removals) :
    (w.modifyMarket a f).clients = w.clients := rfl
@[simp] theorem emit_clients (w : World) (e : Ev) : (w.emit e).clients = w.clients := rfl
@[simp] theorem bumpBetId_clients (w : World) : w.bumpBetId.clients = w.clients := rfl
@[simp] theorem blotterAdd_clients (w : World) (m o : Nat) : (w.blotterAdd m o).clients = w.clients := rfl
@[simp] theorem blotterComplete_clients (w : World) (m o : Nat) : (w.blotterComplete m o).clients = w.clients := modifyMarket_clients' w m _ (fun _ => ⟨rfl, rfl⟩)
@[simp] theorem setClock_clients (w : World) (t : Time) : (w.setClock t).clients = w.clients := rfl

@[simp] theorem setCtx_clients (w : World) (c : RunnerCtx) : (w.setCtx c).clients = w.clients := by
  unfold setCtx; split <;> rfl
@[simp] theorem ctxPlace_clients (w : World) (k : CtxKey) (t : Nat) : (w.ctxPlace k t).clients = w.clients := setCtx_clients _ _
@[simp] theorem ctxReset_clients (w : World) (k : CtxKey) (t : Nat) : (w.ctxReset k t).clients = w.clients := setCtx_clients _ _
@[simp] theorem completeTrade_clients (w : World) (tid : Nat) : (w.completeTrade tid).clients = w.clients := by
  unfold completeTrade; simp
@[simp] theorem tradeUpdateStatus_clients (w : World) (tid : Nat) (s : TradeStatus) : (w.tradeUpdateStatus tid s).clients = w.clients := by
  unfold tradeUpdateStatus
  simp only
  split <;> simp
@[simp] theorem tradeEnter_clients (w : World) (tid : Nat) : (w.tradeEnter tid).clients = w.clients := tradeUpdateStatus_clients _ _ _
@[simp] theorem tradeExit_clients (w : World) (tid : Nat) : (w.tradeExit tid).clients = w.clients := tradeUpdateStatus_clients _ _ _
@[simp] theorem orderUpdateStatus_clients (w : World) (oid : Nat) (s : Status) : (w.orderUpdateStatus oid s).clients = w.clients := by
  unfold orderUpdateStatus
  simp only
  split <;> simp
@[simp] theorem orderExecutable_clients (w : World) (oid : Nat) : (w.orderExecutable oid).clients = w.clients := by
  unfold orderExecutable; split <;> simp
@[simp] theorem orderExecutionComplete_clients (w : World) (oid : Nat) : (w.orderExecutionComplete oid).clients = w.clients := by
  unfold orderExecutionComplete; simp
@[simp] theorem orderViolation_clients (w : World) (oid : Nat) (m : String) : (w.orderViolation oid m).clients = w.clients := by
  unfold orderViolation; split <;> simp
@[simp] theorem orderPlacing_clients (w : World) (oid : Nat) : (w.orderPlacing oid).clients = w.clients := orderUpdateStatus_clients _ _ _

theorem foldl_clients {α} (f : World → α → World) (hf : ∀ w a, (f w a).clients = w.clients) (l : List α) (w : World) :
    (l.foldl f w).clients = w.clients := by
  induction l generalizing w with
  | nil => rfl
  | cons a as ih => rw [List.foldl_cons, ih, hf]

theorem foldl_pair_clients {α β} (f : World × β → α → World × β) (hf : ∀ acc a, (f acc a).1.clients = acc.1.clients) (l : List α) (acc : World × β) :
    (l.foldl f acc).1.clients = acc.1.clients := by
  induction l generalizing acc with
  | nil => rfl
  | cons a as ih => rw [List.foldl_cons, ih, hf]

/-! ### simulated execution -/

@[simp] theorem logPlaced_clients (w : World) (oid : Nat) (b : Option Nat) : (w.logPlaced oid b).clients = w.clients := by
  unfold logPlaced; cases b <;> simp

@[simp] theorem placeStep_clients (p : Package) (w : World) (oid : Nat) : (placeStep p w oid).clients = w.clients := by
  unfold placeStep
  simp only
  split <;> simp

@[simp] theorem cancelStep_clients (p : Package) (acc : World × Nat) (oid : Nat) : (cancelStep p acc oid).1.clients = acc.1.clients := by
  obtain ⟨w, failed⟩ := acc
  unfold cancelStep
  simp only
  repeat' split
  all_goals simp

@[simp] theorem updateStep_clients (p : Package) (acc : World × Nat) (oid : Nat) : (updateStep p acc oid).1.clients = acc.1.clients := by
  obtain ⟨w, failed⟩ := acc
  unfold updateStep
  simp

@[simp] theorem createReplacement_clients (w : World) (oid : Nat) (np sz : Rat) (cr : Time) : (w.createReplacement oid np sz cr).1.clients = w.clients := rfl

/-- `market.place_order(replacement, execute=False)`: no control runs, so no control's hourly restart either -/
@[simp] theorem txnPlace_noexec_clients (w : World) (t : Txn) (oid : Nat) (v : Option Int) (force : Bool) :
    (w.txnPlace t oid v false force).1.clients = w.clients := by
  unfold txnPlace
  simp only [Bool.false_and, Bool.false_eq_true, if_false]
  repeat' split
  all_goals simp

@[simp] theorem replacePlace_clients (p : Package) (w : World) (o : Order) (oid : Nat) (book : Book) (np : Option Rat) (sc : Rat) (failed : Nat) :
    (replacePlace p w o oid book np sc failed).1.clients = w.clients := by
  unfold replacePlace
  simp only
  split <;> simp

@[simp] theorem replaceStep_clients (p : Package) (acc : World × Nat) (pr : Nat × Option Rat) : (replaceStep p acc pr).1.clients = acc.1.clients := by
  obtain ⟨w, failed⟩ := acc
  obtain ⟨oid, np⟩ := pr
  unfold replaceStep
  simp only
  split <;> simp


end Clients
end Flumine
