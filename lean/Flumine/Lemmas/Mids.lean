/- Lemmas/Mids.lean — the ids of the markets the framework knows (`World.mids`) are written by `processMarketBook` only, when the
   first book of a market arrives: every other function of the model leaves them as they are (a simulation never deletes a
   market, and nothing else creates one). -/
import Flumine.SimLoop
import Flumine.Lemmas.Inv
import Mathlib.Tactic.SplitIfs
namespace Flumine

/-- the ids of the markets the framework knows, in order of arrival -/
def World.mids (w : World) : List Nat := w.markets.map (·.id)

namespace Mids
open Flumine Flumine.World

@[simp] theorem modifyOrder_mids (w : World) (a : Nat) (f : Order → Order) : (w.modifyOrder a f).mids = w.mids := rfl
@[simp] theorem setOrder_mids (w : World) (o : Order) : (w.setOrder o).mids = w.mids := rfl
@[simp] theorem setTrade_mids (w : World) (t : Trade) : (w.setTrade t).mids = w.mids := rfl
@[simp] theorem setMarket_mids (w : World) (m : Market) : (w.setMarket m).mids = w.mids := by
  unfold World.mids setMarket
  simp only [List.map_map]
  apply List.map_congr_left
  intro x _
  simp only [Function.comp]
  split
  · rename_i h; exact h.symm
  · rfl
@[simp] theorem setClient_mids (w : World) (c : Client) : (w.setClient c).mids = w.mids := rfl
theorem modifyMarket_mids' (w : World) (a : Nat) (f : Market → Market) (hf : ∀ x, (f x).id = x.id) : (w.modifyMarket a f).mids = w.mids := by
  unfold World.mids modifyMarket
  simp only [List.map_map]
  apply List.map_congr_left
  intro x _
  simp only [Function.comp]
  split
  · exact hf x
  · rfl
@[simp] theorem emit_mids (w : World) (e : Ev) : (w.emit e).mids = w.mids := rfl
@[simp] theorem bumpBetId_mids (w : World) : w.bumpBetId.mids = w.mids := rfl
@[simp] theorem addTransaction_mids (w : World) (c n : Nat) (f : Bool) : (w.addTransaction c n f).mids = w.mids := rfl
@[simp] theorem blotterAdd_mids (w : World) (m o : Nat) : (w.blotterAdd m o).mids = w.mids := by
  unfold blotterAdd
  show (w.modifyMarket m _).mids = w.mids
  exact modifyMarket_mids' w m _ (fun _ => rfl)
@[simp] theorem blotterComplete_mids (w : World) (m o : Nat) : (w.blotterComplete m o).mids = w.mids := modifyMarket_mids' w m _ (fun _ => rfl)
@[simp] theorem setClock_mids (w : World) (t : Time) : (w.setClock t).mids = w.mids := rfl

@[simp] theorem setCtx_mids (w : World) (c : RunnerCtx) : (w.setCtx c).mids = w.mids := by
  unfold setCtx; split <;> rfl
@[simp] theorem ctxPlace_mids (w : World) (k : CtxKey) (t : Nat) : (w.ctxPlace k t).mids = w.mids := setCtx_mids _ _
@[simp] theorem ctxReset_mids (w : World) (k : CtxKey) (t : Nat) : (w.ctxReset k t).mids = w.mids := setCtx_mids _ _
@[simp] theorem completeTrade_mids (w : World) (tid : Nat) : (w.completeTrade tid).mids = w.mids := by
  unfold completeTrade; simp
@[simp] theorem tradeUpdateStatus_mids (w : World) (tid : Nat) (s : TradeStatus) : (w.tradeUpdateStatus tid s).mids = w.mids := by
  unfold tradeUpdateStatus
  simp only
  split <;> simp
@[simp] theorem tradeEnter_mids (w : World) (tid : Nat) : (w.tradeEnter tid).mids = w.mids := tradeUpdateStatus_mids _ _ _
@[simp] theorem tradeExit_mids (w : World) (tid : Nat) : (w.tradeExit tid).mids = w.mids := tradeUpdateStatus_mids _ _ _
@[simp] theorem orderUpdateStatus_mids (w : World) (oid : Nat) (s : Status) : (w.orderUpdateStatus oid s).mids = w.mids := by
  unfold orderUpdateStatus
  simp only
  split <;> simp
@[simp] theorem orderExecutable_mids (w : World) (oid : Nat) : (w.orderExecutable oid).mids = w.mids := by
  unfold orderExecutable; split <;> simp
@[simp] theorem orderExecutionComplete_mids (w : World) (oid : Nat) : (w.orderExecutionComplete oid).mids = w.mids := by
  unfold orderExecutionComplete; simp
@[simp] theorem orderViolation_mids (w : World) (oid : Nat) (m : String) : (w.orderViolation oid m).mids = w.mids := by
  unfold orderViolation; split <;> simp
@[simp] theorem orderPlacing_mids (w : World) (oid : Nat) : (w.orderPlacing oid).mids = w.mids := orderUpdateStatus_mids _ _ _

theorem foldl_mids {α} (f : World → α → World) (hf : ∀ w a, (f w a).mids = w.mids) (l : List α) (w : World) :
    (l.foldl f w).mids = w.mids := by
  induction l generalizing w with
  | nil => rfl
  | cons a as ih => rw [List.foldl_cons, ih, hf]

theorem foldl_pair_mids {α β} (f : World × β → α → World × β) (hf : ∀ acc a, (f acc a).1.mids = acc.1.mids) (l : List α) (acc : World × β) :
    (l.foldl f acc).1.mids = acc.1.mids := by
  induction l generalizing acc with
  | nil => rfl
  | cons a as ih => rw [List.foldl_cons, ih, hf]

theorem orderCancel_mids (w w' : World) (a : Nat) (r : Option Rat) (h : w.orderCancel a r = .ok w') : w'.mids = w.mids := by
  unfold orderCancel at h
  simp only at h
  split_ifs at h
  have := (Except.ok.inj h).symm
  subst this
  unfold orderCancelling; simp
theorem orderUpdate_mids (w w' : World) (a : Nat) (p : String) (h : w.orderUpdate a p = .ok w') : w'.mids = w.mids := by
  unfold orderUpdate at h
  simp only at h
  split_ifs at h
  have := (Except.ok.inj h).symm
  subst this
  unfold orderUpdating; simp
theorem orderReplace_mids (w w' : World) (a : Nat) (p : Rat) (h : w.orderReplace a p = .ok w') : w'.mids = w.mids := by
  unfold orderReplace at h
  simp only at h
  split_ifs at h
  have := (Except.ok.inj h).symm
  subst this
  unfold orderReplacing; simp

@[simp] theorem validateControls_mids (w : World) (oid cid : Nat) (k : PackKind) : (w.validateControls oid cid k).1.mids = w.mids := by
  unfold validateControls
  simp only
  repeat' split
  all_goals simp

theorem addPackage_mids (k : PackKind) (t : Txn) (d bd : Rat) (w : World) (vc : Option Int × List Nat) :
    (addPackage k t d bd w vc).mids = w.mids := rfl

@[simp] theorem createPackages_mids (w : World) (t : Txn) (p : List (Nat × Option Int)) (k : PackKind) :
    (w.createPackages t p k).mids = w.mids := by
  unfold createPackages
  exact foldl_mids _ (fun w vc => addPackage_mids k t _ _ w vc) _ w

@[simp] theorem txnExecute_mids (w : World) (t : Txn) : (w.txnExecute t).1.mids = w.mids := by
  unfold txnExecute
  simp only
  have h : ∀ (w : World) (c : Bool) (p : List (Nat × Option Int)) (k : PackKind), (if c then w else w.createPackages t p k).mids = w.mids := by
    intro w c p k; split <;> simp
  rw [h, h, h, h]

@[simp] theorem txnExit_mids (w : World) (t : Txn) : (w.txnExit t).mids = w.mids := by
  unfold txnExit; split <;> simp

@[simp] theorem txnPlace_mids (w : World) (t : Txn) (oid : Nat) (v : Option Int) (ex force : Bool) :
    (w.txnPlace t oid v ex force).1.mids = w.mids := by
  unfold txnPlace
  simp only
  have hv : (if (ex && !force) = true then (w.modifyOrder oid fun o => { o with client := some t.client }).validateControls oid t.client .place
      else (w.modifyOrder oid fun o => { o with client := some t.client }, none)).1.mids = w.mids := by
    split <;> simp
  generalize (if (ex && !force) = true then (w.modifyOrder oid fun o => { o with client := some t.client }).validateControls oid t.client .place
    else (w.modifyOrder oid fun o => { o with client := some t.client }, none)) = vr at hv
  obtain ⟨w1, r⟩ := vr
  simp only at hv ⊢
  cases r with
  | some r => exact hv
  | none =>
    simp only
    repeat' split
    all_goals simp [hv]

theorem txnCancel_mids (w : World) (t : Txn) (oid : Nat) (red : Option Rat) (f : Bool) : (w.txnCancel t oid red f).1.mids = w.mids := by
  unfold txnCancel
  simp only
  split
  · rfl
  · have hv : (if (!f) = true then w.validateControls oid t.client .cancel else (w, none)).1.mids = w.mids := by split <;> simp
    generalize (if (!f) = true then w.validateControls oid t.client .cancel else (w, none)) = vr at hv
    obtain ⟨w1, r⟩ := vr
    cases r with
    | some r => exact hv
    | none =>
      simp only at hv ⊢
      cases h : w1.orderCancel oid red with
      | error e => exact hv
      | ok w2 => exact (orderCancel_mids w1 w2 oid red h).trans hv

theorem txnUpdate_mids (w : World) (t : Txn) (oid : Nat) (p : String) (f : Bool) : (w.txnUpdate t oid p f).1.mids = w.mids := by
  unfold txnUpdate
  simp only
  split
  · rfl
  · have hv : (if (!f) = true then w.validateControls oid t.client .update else (w, none)).1.mids = w.mids := by split <;> simp
    generalize (if (!f) = true then w.validateControls oid t.client .update else (w, none)) = vr at hv
    obtain ⟨w1, r⟩ := vr
    cases r with
    | some r => exact hv
    | none =>
      simp only at hv ⊢
      cases h : w1.orderUpdate oid p with
      | error e => exact hv
      | ok w2 => exact (orderUpdate_mids w1 w2 oid p h).trans hv

theorem txnReplace_mids (w : World) (t : Txn) (oid : Nat) (p : Rat) (v : Option Int) (f : Bool) : (w.txnReplace t oid p v f).1.mids = w.mids := by
  unfold txnReplace
  simp only
  split
  · rfl
  · have hv : (if (!f) = true then w.validateControls oid t.client .replace else (w, none)).1.mids = w.mids := by split <;> simp
    generalize (if (!f) = true then w.validateControls oid t.client .replace else (w, none)) = vr at hv
    obtain ⟨w1, r⟩ := vr
    cases r with
    | some r => exact hv
    | none =>
      simp only at hv ⊢
      cases h : w1.orderReplace oid p with
      | error e => exact hv
      | ok w2 => exact (orderReplace_mids w1 w2 oid p h).trans hv

/-! ### simulated execution -/

@[simp] theorem logPlaced_mids (w : World) (oid : Nat) (b : Option Nat) : (w.logPlaced oid b).mids = w.mids := by
  unfold logPlaced; cases b <;> simp

@[simp] theorem placeStep_mids (p : Package) (w : World) (oid : Nat) : (placeStep p w oid).mids = w.mids := by
  unfold placeStep
  simp only
  split <;> simp

@[simp] theorem cancelStep_mids (p : Package) (acc : World × Nat) (oid : Nat) : (cancelStep p acc oid).1.mids = acc.1.mids := by
  obtain ⟨w, failed⟩ := acc
  unfold cancelStep
  simp only
  repeat' split
  all_goals simp

@[simp] theorem updateStep_mids (p : Package) (acc : World × Nat) (oid : Nat) : (updateStep p acc oid).1.mids = acc.1.mids := by
  obtain ⟨w, failed⟩ := acc
  unfold updateStep
  simp

@[simp] theorem createReplacement_mids (w : World) (oid : Nat) (np sz : Rat) (cr : Time) : (w.createReplacement oid np sz cr).1.mids = w.mids := rfl

@[simp] theorem replacePlace_mids (p : Package) (w : World) (o : Order) (oid : Nat) (book : Book) (np : Option Rat) (sc : Rat) (failed : Nat) :
    (replacePlace p w o oid book np sc failed).1.mids = w.mids := by
  unfold replacePlace
  simp only
  split <;> simp

@[simp] theorem replaceStep_mids (p : Package) (acc : World × Nat) (pr : Nat × Option Rat) : (replaceStep p acc pr).1.mids = acc.1.mids := by
  obtain ⟨w, failed⟩ := acc
  obtain ⟨oid, np⟩ := pr
  unfold replaceStep
  simp only
  split <;> simp

@[simp] theorem executePackage_mids (w : World) (p : Package) : (w.executePackage p).mids = w.mids := by
  unfold executePackage
  cases p.kind with
  | place =>
    simp only; unfold executePlace
    simp only [addTransaction_mids]
    exact foldl_mids _ (fun w oid => placeStep_mids p w oid) _ w
  | cancel =>
    simp only; unfold executeCancel
    simp only
    have := foldl_pair_mids (cancelStep p) (fun acc oid => cancelStep_mids p acc oid) (w.packageOrders p) (w, 0)
    generalize (w.packageOrders p).foldl (cancelStep p) (w, 0) = r at this
    obtain ⟨w1, failed⟩ := r
    simp only at this ⊢
    split <;> simp [this]
  | update =>
    simp only; unfold executeUpdate
    simp only
    have := foldl_pair_mids (updateStep p) (fun acc oid => updateStep_mids p acc oid) (w.packageOrders p) (w, 0)
    generalize (w.packageOrders p).foldl (updateStep p) (w, 0) = r at this
    obtain ⟨w1, failed⟩ := r
    simp only at this ⊢
    split <;> simp [this]
  | replace =>
    simp only; unfold executeReplace
    simp only
    generalize (((w.packageOrders p).filter fun oid => (w.order! oid).status ≠ some .executionComplete).map fun oid => (oid, (w.order! oid).ud.newPrice)) = zs
    have := foldl_pair_mids (replaceStep p) (fun acc pr => replaceStep_mids p acc pr) zs (w, 0)
    generalize zs.foldl (replaceStep p) (w, 0) = r at this
    obtain ⟨w1, failed⟩ := r
    simp only at this ⊢
    split <;> simp [this]

@[simp] theorem checkPendingPackages_mids (w : World) (mid : Nat) : (w.checkPendingPackages mid).mids = w.mids := by
  unfold checkPendingPackages
  simp only
  exact foldl_mids _ (fun w p => executePackage_mids w p) _ w

/-! ### middleware, completion loop, closure -/

@[simp] theorem processRunnerRemoval_mids (w : World) (mid rsel : Nat) (rhc : Rat) (raf : Option Rat) :
    (w.processRunnerRemoval mid rsel rhc raf).mids = w.mids := by
  unfold processRunnerRemoval
  simp only
  exact foldl_mids (fun w1 oid => w1.modifyOrder oid (w1.removalOnOrder (w.market! mid) rsel rhc raf)) (fun w oid => rfl) _ w

@[simp] theorem matchStep_mids (mid : Nat) (r : Bool) (acc : World × List (Nat × Rat × List (Rat × Rat))) (o0 : Order) :
    (matchStep mid r acc o0).1.mids = acc.1.mids := by
  obtain ⟨w, lk⟩ := acc
  unfold matchStep
  simp only
  repeat' split
  all_goals simp

@[simp] theorem matchOrders_mids (w : World) (mid : Nat) (l : List Order) (r : Bool) : (w.matchOrders mid l r).mids = w.mids := by
  unfold matchOrders
  exact foldl_pair_mids _ (fun acc o => matchStep_mids mid r acc o) l _

@[simp] theorem matchStrategy_mids (mid : Nat) (w : World) (sid : Nat) : (matchStrategy mid w sid).mids = w.mids := by
  unfold matchStrategy
  simp only
  split <;> simp

@[simp] theorem mwProcessSimulatedOrders_mids (w : World) (mid : Nat) : (w.mwProcessSimulatedOrders mid).mids = w.mids := by
  unfold mwProcessSimulatedOrders
  simp only
  split
  · exact foldl_mids _ (fun w sid => matchStrategy_mids mid w sid) _ w
  · split <;> simp

@[simp] theorem mwUpdateAnalytics_mids (w : World) (mid : Nat) : (w.mwUpdateAnalytics mid).1.mids = w.mids := by
  unfold mwUpdateAnalytics
  exact modifyMarket_mids' _ mid _ (fun _ => rfl)

@[simp] theorem simulatedMiddleware_mids (w : World) (mid : Nat) : (w.simulatedMiddleware mid).mids = w.mids := by
  unfold simulatedMiddleware
  simp only
  have h : (List.foldl (fun w (k : Nat × Rat × Option Rat) => w.processRunnerRemoval mid k.1 k.2.1 k.2.2) (w.mwUpdateAnalytics mid).1 (w.mwUpdateAnalytics mid).2).mids = w.mids := by
    rw [foldl_mids (fun w (k : Nat × Rat × Option Rat) => w.processRunnerRemoval mid k.1 k.2.1 k.2.2) (fun w k => processRunnerRemoval_mids w mid k.1 k.2.1 k.2.2)]; exact mwUpdateAnalytics_mids w mid
  split <;> simp [h]

@[simp] theorem processSimulatedOrders_mids (w : World) (mid : Nat) : (w.processSimulatedOrders mid).mids = w.mids := by
  unfold processSimulatedOrders
  simp only
  rw [foldl_mids, foldl_mids]
  · intro w oid
    repeat' split
    all_goals simp
  · intro w s
    split <;> simp

@[simp] theorem blotterProcessClosed_mids (w : World) (mid : Nat) (book : Book) : (w.blotterProcessClosed mid book).mids = w.mids := by
  unfold blotterProcessClosed
  simp only
  apply foldl_mids
  intro w oid
  split <;> simp

@[simp] theorem processCloseMarket_mids (w : World) (mid : Nat) (book : Book) : (w.processCloseMarket mid book).mids = w.mids := by
  unfold processCloseMarket
  split
  · rfl
  · rename_i m hm
    have h0 : (if (!m.closed) = true then w.modifyMarket mid (fun m => { m with closed := true, closedAt := some w.clock }) else w).mids = w.mids := by
      split
      · exact modifyMarket_mids' w mid _ (fun _ => rfl)
      · rfl
    generalize (if (!m.closed) = true then w.modifyMarket mid (fun m => { m with closed := true, closedAt := some w.clock }) else w) = wa at h0
    have h1 : ((wa.modifyMarket mid fun m => { m with book := some book }).blotterProcessClosed mid book).mids = w.mids := by
      rw [blotterProcessClosed_mids, modifyMarket_mids' wa mid (fun m => { m with book := some book }) (fun _ => rfl), h0]
    simp only
    generalize (wa.modifyMarket mid fun m => { m with book := some book }).blotterProcessClosed mid book = wb at h1
    have := modifyMarket_mids' ({ wb with out := wb.out ++ wb.closeCallbacks mid book ++ wb.clearedEvents mid ++ [Ev.closeEvent mid] } : World) mid
      (fun m => { m with analytics := [], hasAnalytics := false }) (fun _ => rfl)
    exact this.trans h1

/-! ### scripted actions and whole updates: the counter never decreases -/

theorem doActionCore_mids (w : World) (mid : Nat) (batch : Option Txn) (a : Action) : (w.doActionCore mid batch a).1.mids = w.mids := by
  unfold doActionCore
  simp only
  split
  · rfl
  · cases a with
    | create o tr => cases tr <;> rfl
    | place tg v force => cases batch <;> simp
    | cancel tg red force => cases batch <;> simp [txnCancel_mids]
    | update tg pers force => cases batch <;> simp [txnUpdate_mids]
    | replace tg price v force => cases batch <;> simp [txnReplace_mids]
    | batchBegin c => cases batch <;> simp
    | batchExecute => cases batch <;> simp
    | batchEnd => cases batch <;> simp


@[simp] theorem noteForeign_mids (w : World) (mid : Nat) (a : Action) : (w.noteForeign mid a).mids = w.mids := by
  unfold noteForeign; split <;> rfl

@[simp] theorem doAction_mids (w : World) (mid : Nat) (batch : Option Txn) (a : Action) : (w.doAction mid batch a).1.mids = w.mids := by
  unfold doAction; rw [doActionCore_mids]; simp

@[simp] theorem doActions_mids (w : World) (mid : Nat) (as : List Action) : (w.doActions mid as).1.mids = w.mids := by
  unfold doActions
  simp only
  have : ∀ (l : List Action) (acc : World × Option Txn × List String),
      (l.foldl (fun (acc : World × Option Txn × List String) a =>
        ((acc.1.doAction mid acc.2.1 a).1, (acc.1.doAction mid acc.2.1 a).2.1, acc.2.2 ++ [(acc.1.doAction mid acc.2.1 a).2.2])) acc).1.mids = acc.1.mids := by
    intro l
    induction l with
    | nil => intro acc; rfl
    | cons a as ih => intro acc; rw [List.foldl_cons, ih]; simp
  have h := this as (w, none, [])
  generalize as.foldl _ (w, none, []) = r at h
  obtain ⟨w1, b, outs⟩ := r
  cases b with
  | some t => simpa using h
  | none => exact h

theorem market?_isSome_iff (w : World) (mid : Nat) : (w.market? mid).isSome = true ↔ mid ∈ w.mids := by
  unfold market? World.mids
  rw [List.find?_isSome]
  constructor
  · rintro ⟨m, hm, he⟩
    exact List.mem_map.mpr ⟨m, hm, by simpa using he⟩
  · intro h
    obtain ⟨m, hm, he⟩ := List.mem_map.mp h
    exact ⟨m, hm, by simpa using he⟩

end Mids
end Flumine
