/- Lemmas/Final.lean — finality and the live list, for every function of an update of one market:
   an order in the market's blotter is in a "sent" status with a consistent `complete` flag; an order
   of the blotter that has left the live list is EXECUTION_COMPLETE; and EXECUTION_COMPLETE is absorbing
   for the orders of the blotter (no request, response handler, matching pass, removal or closure
   makes such an order live again). -/
import Flumine.SimLoop
import Flumine.Lemmas.OrderLemmas
import Flumine.Lemmas.Ids
import Flumine.Lemmas.Inv
import Mathlib.Tactic.SplitIfs
namespace Flumine.Fin
open Flumine Flumine.World Flumine.OL Flumine.Ids Flumine.Inv

/-- the statuses of an order that has been sent, with `complete` the cached `_is_complete()` of the status -/
def Sent (o : Order) : Prop :=
  (o.status = some .pending ∨ o.status = some .executable ∨ o.status = some .cancelling ∨ o.status = some .updating ∨
    o.status = some .replacing ∨ o.status = some .executionComplete) ∧
  (∀ s, o.status = some s → o.complete = statusComplete s)

def EC (o : Order) : Prop := o.status = some .executionComplete

theorem Sent.not_complete_live {o : Order} (h : Sent o) (hc : o.complete = true) : EC o := by
  obtain ⟨hs, hcons⟩ := h
  unfold EC
  have hd : ∀ s : Status, o.status = some s → statusComplete s = false → False := by
    intro s e hf
    have := hcons s e
    rw [hc, hf] at this
    cases this
  rcases hs with e | e | e | e | e | e
  · exact (hd _ e (by decide)).elim
  · exact (hd _ e (by decide)).elim
  · exact (hd _ e (by decide)).elim
  · exact (hd _ e (by decide)).elim
  · exact (hd _ e (by decide)).elim
  · exact e

structure BI (mid : Nat) (w : World) : Prop where
  inv : Inv w
  sent : ∀ oid ∈ (w.market! mid).blotter, Sent (w.order! oid)
  live : ∀ oid ∈ (w.market! mid).blotter, oid ∉ (w.market! mid).live → EC (w.order! oid)

/-- the blotter of the market only grows and EXECUTION_COMPLETE is kept by its orders -/
def Step (mid : Nat) (w w' : World) : Prop :=
  (∀ oid ∈ (w.market! mid).blotter, oid ∈ (w'.market! mid).blotter) ∧
  (∀ oid ∈ (w.market! mid).blotter, EC (w.order! oid) → EC (w'.order! oid))

def FS (mid : Nat) (w w' : World) : Prop := Keeps w w' ∧ (BI mid w → BI mid w' ∧ Step mid w w')

theorem Step.refl (mid : Nat) (w : World) : Step mid w w := ⟨fun _ h => h, fun _ _ h => h⟩
theorem Step.trans {mid : Nat} {a b c : World} (h1 : Step mid a b) (h2 : Step mid b c) : Step mid a c :=
  ⟨fun oid h => h2.1 oid (h1.1 oid h), fun oid hb he => h2.2 oid (h1.1 oid hb) (h1.2 oid hb he)⟩
theorem FS.refl (mid : Nat) (w : World) : FS mid w w := ⟨Keeps.refl w, fun h => ⟨h, Step.refl mid w⟩⟩
theorem FS.trans {mid : Nat} {a b c : World} (h1 : FS mid a b) (h2 : FS mid b c) : FS mid a c :=
  ⟨h1.1.trans h2.1, fun h => by
    obtain ⟨hb, s1⟩ := h1.2 h
    obtain ⟨hc, s2⟩ := h2.2 hb
    exact ⟨hc, s1.trans s2⟩⟩

theorem fs_foldl {α} (mid : Nat) (f : World → α → World) (hf : ∀ w a, FS mid w (f w a)) (l : List α) (w : World) :
    FS mid w (l.foldl f w) := by
  induction l generalizing w with
  | nil => exact FS.refl mid w
  | cons a as ih => rw [List.foldl_cons]; exact (hf w a).trans (ih _)

/-- nothing the invariant looks at changed: same statuses and flags of the blotter's orders, same blotter, and the live
    list lost at most orders that are EXECUTION_COMPLETE -/
theorem FS.frame {mid : Nat} {w w' : World} (hg : Good w w')
    (H : BI mid w →
      (∀ oid ∈ (w.market! mid).blotter, (w'.order! oid).status = (w.order! oid).status ∧ (w'.order! oid).complete = (w.order! oid).complete) ∧
      (w'.market! mid).blotter = (w.market! mid).blotter ∧ (∀ x ∈ (w'.market! mid).live, x ∈ (w.market! mid).live) ∧
      (∀ x ∈ (w.market! mid).blotter, x ∉ (w'.market! mid).live → x ∈ (w.market! mid).live → EC (w.order! x))) : FS mid w w' := by
  refine ⟨hg.1, fun h => ?_⟩
  obtain ⟨hs, hb, hl, hl2⟩ := H h
  refine ⟨⟨hg.2 h.inv, ?_, ?_⟩, ?_, ?_⟩
  · intro oid ho
    rw [hb] at ho
    obtain ⟨a, b⟩ := h.sent oid ho
    unfold Sent
    rw [(hs oid ho).1, (hs oid ho).2]; exact ⟨a, b⟩
  · intro oid ho hn
    rw [hb] at ho
    unfold EC; rw [(hs oid ho).1]
    by_cases hin : oid ∈ (w.market! mid).live
    · exact hl2 oid ho hn hin
    · exact h.live oid ho hin
  · intro oid ho; rw [hb]; exact ho
  · intro oid ho he; unfold EC at he ⊢; rw [(hs oid ho).1]; exact he

theorem FS.of_eq {mid : Nat} {w w' : World} (ho : w'.orders = w.orders) (hm : w'.markets = w.markets) (hq : ∀ p ∈ w'.queue, p ∈ w.queue) :
    FS mid w w' := by
  have hmk : w'.market! mid = w.market! mid := Inv.market!_congr w' w hm mid
  refine FS.frame (Good.of_eq ho hm hq) (fun _ => ⟨fun oid _ => by rw [order!_congr w w' ho oid]; exact ⟨rfl, rfl⟩, by rw [hmk], by rw [hmk]; exact fun _ h => h,
    by rw [hmk]; intro x _ h1 h2; exact absurd h2 h1⟩)

/-- the order after `modifyOrder`: untouched, or `f` of the old one -/
theorem order!_modify (w : World) (a oid : Nat) (f : Order → Order) (hf : ∀ x, (f x).id = x.id) :
    (w.modifyOrder a f).order! oid = w.order! oid ∨ (oid = a ∧ HasOrder w a ∧ (w.modifyOrder a f).order! oid = f (w.order! a)) := by
  by_cases e : oid = a
  · subst e
    by_cases h : HasOrder w oid
    · right; exact ⟨rfl, h, order!_modify_self w oid f h (fun x hx => by rw [hf x]; exact hx)⟩
    · left
      -- no order has this id: the map changes nothing
      have : w.modifyOrder oid f = w := by
        unfold modifyOrder
        have : (w.orders.map fun x => if x.id = oid then f x else x) = w.orders := by
          have hh : ∀ x ∈ w.orders, (if x.id = oid then f x else x) = x := by
            intro x hx
            split
            · rename_i hid
              exfalso; apply h
              rw [hasOrder_iff]; unfold ids; exact List.mem_map.mpr ⟨x, hx, hid⟩
            · rfl
          calc (w.orders.map fun x => if x.id = oid then f x else x) = w.orders.map id := List.map_congr_left hh
            _ = w.orders := List.map_id _
        rw [this]
      rw [this]
  · left; exact order!_modify_other w oid a f e (fun x hx => by rw [hf x]; exact hx)

/-- a change of one order that keeps its id, status and `complete` flag -/
theorem fs_modifyOrder (mid : Nat) (w : World) (a : Nat) (f : Order → Order) (hf : ∀ x, (f x).id = x.id)
    (hs : (f (w.order! a)).status = (w.order! a).status ∧ (f (w.order! a)).complete = (w.order! a).complete) : FS mid w (w.modifyOrder a f) := by
  refine FS.frame (good_modifyOrder w a f hf) (fun _ => ⟨?_, rfl, fun _ h => h, fun x _ h1 h2 => absurd h2 h1⟩)
  intro oid _
  rcases order!_modify w a oid f hf with h | ⟨e, _, h⟩
  · rw [h]; exact ⟨rfl, rfl⟩
  · rw [h, e]; exact hs

/-- `setOrder` of the order itself with fields other than id / status / complete changed -/
theorem fs_setOrder (mid : Nat) (w : World) (oid : Nat) (o' : Order) (ha : HasOrder w oid)
    (h : o'.id = oid ∧ o'.status = (w.order! oid).status ∧ o'.complete = (w.order! oid).complete) : FS mid w (w.setOrder o') := by
  refine FS.frame (good_setOrder w o') (fun _ => ⟨?_, rfl, fun _ h => h, fun x _ h1 h2 => absurd h2 h1⟩)
  intro x _
  by_cases e : x = oid
  · subst e
    have := order!_setOrder_self w o' (by rw [h.1]; exact ha)
    rw [h.1] at this
    rw [this]; exact ⟨h.2.1, h.2.2⟩
  · rw [order!_setOrder_other w o' x (by rw [h.1]; exact e)]; exact ⟨rfl, rfl⟩

/-! ### lookups of a market after a change of the market table -/

theorem find_map_market (l : List Market) (a m : Nat) (f : Market → Market) (hf : ∀ x, (f x).id = x.id) :
    (l.map fun x => if x.id = a then f x else x).find? (fun x => decide (x.id = m)) =
      (l.find? (fun x => decide (x.id = m))).map (fun x => if x.id = a then f x else x) := by
  induction l with
  | nil => rfl
  | cons x xs ih =>
    rw [List.map_cons, List.find?_cons, List.find?_cons]
    have hid : (if x.id = a then f x else x).id = x.id := by split; exact hf x; rfl
    rw [hid]
    by_cases hx : x.id = m
    · simp [hx]
    · simp only [hx, decide_false]; exact ih

theorem market!_modify (w : World) (a m : Nat) (f : Market → Market) (hf : ∀ x, (f x).id = x.id) :
    (w.modifyMarket a f).market! m = w.market! m ∨ (m = a ∧ (w.modifyMarket a f).market! m = f (w.market! m)) := by
  unfold market! market? modifyMarket
  simp only
  rw [find_map_market w.markets a m f hf]
  cases h : w.markets.find? (fun x => decide (x.id = m)) with
  | none => left; rfl
  | some x =>
    have hxm : x.id = m := by simpa using List.find?_some h
    simp only [Option.map_some, Option.getD_some]
    by_cases e : x.id = a
    · right; rw [if_pos e]; exact ⟨hxm.symm.trans e, rfl⟩
    · left; rw [if_neg e]

/-- a change of a market that keeps its id, blotter and live list -/
theorem fs_modifyMarket (mid : Nat) (w : World) (a : Nat) (f : Market → Market)
    (hf : ∀ m, (f m).id = m.id ∧ (f m).blotter = m.blotter ∧ (f m).live = m.live) : FS mid w (w.modifyMarket a f) := by
  have hm : ((w.modifyMarket a f).market! mid).blotter = (w.market! mid).blotter ∧ ((w.modifyMarket a f).market! mid).live = (w.market! mid).live := by
    rcases market!_modify w a mid f (fun x => (hf x).1) with h | ⟨_, h⟩ <;> rw [h]
    · exact ⟨rfl, rfl⟩
    · exact ⟨(hf _).2.1, (hf _).2.2⟩
  refine FS.frame (good_mm w a f hf) (fun _ => ⟨fun oid _ => ⟨rfl, rfl⟩, hm.1, by rw [hm.2]; exact fun _ h => h,
    by rw [hm.2]; intro x _ h1 h2; exact absurd h2 h1⟩)

/-- `_update_status(s)` on an existing order: allowed when, for an order of the blotter, s is a sent status,
    the order is still in the live list unless s completes it, and a complete order stays complete -/
theorem fs_orderUpdateStatus (mid : Nat) (w : World) (a : Nat) (s : Status) (ha : HasOrder w a)
    (hc : BI mid w → a ∈ (w.market! mid).blotter →
      (s = .pending ∨ s = .executable ∨ s = .cancelling ∨ s = .updating ∨ s = .replacing ∨ s = .executionComplete) ∧
      (a ∉ (w.market! mid).live → s = .executionComplete) ∧ (EC (w.order! a) → s = .executionComplete)) :
    FS mid w (w.orderUpdateStatus a s) := by
  have hmk : (w.orderUpdateStatus a s).market! mid = w.market! mid := Inv.market!_congr _ _ (orderUpdateStatus_markets w a s) mid
  refine ⟨(good_orderUpdateStatus w a s).1, fun h => ⟨⟨(good_orderUpdateStatus w a s).2 h.inv, ?_, ?_⟩, ?_, ?_⟩⟩
  · intro oid ho
    rw [hmk] at ho
    by_cases e : oid = a
    · subst e
      rw [orderUpdateStatus_self w oid s ha]
      obtain ⟨h1, _, _⟩ := hc h ho
      refine ⟨?_, ?_⟩
      · show (some s = some .pending ∨ some s = some .executable ∨ some s = some .cancelling ∨ some s = some .updating ∨
          some s = some .replacing ∨ some s = some .executionComplete)
        rcases h1 with e | e | e | e | e | e <;> rw [e] <;> simp
      · intro t ht
        have : s = t := Option.some.inj ht
        subst this; rfl
    · rw [orderUpdateStatus_other w oid a s ha e]; exact h.sent oid ho
  · intro oid ho hn
    rw [hmk] at ho hn
    by_cases e : oid = a
    · subst e
      rw [orderUpdateStatus_self w oid s ha]
      obtain ⟨_, h2, _⟩ := hc h ho
      show some s = some .executionComplete
      rw [h2 hn]
    · rw [orderUpdateStatus_other w oid a s ha e]; exact h.live oid ho hn
  · intro oid ho; rw [hmk]; exact ho
  · intro oid ho he
    by_cases e : oid = a
    · subst e
      rw [orderUpdateStatus_self w oid s ha]
      obtain ⟨_, _, h3⟩ := hc h ho
      show some s = some .executionComplete
      rw [h3 he]
    · rw [orderUpdateStatus_other w oid a s ha e]; exact he


/-! ### the status primitives -/

theorem sent_complete_ec {mid : Nat} {w : World} (h : BI mid w) (a : Nat) (hb : a ∈ (w.market! mid).blotter)
    (hc : (w.order! a).complete = true) : EC (w.order! a) := (h.sent a hb).not_complete_live hc

theorem ec_complete {mid : Nat} {w : World} (h : BI mid w) (a : Nat) (hb : a ∈ (w.market! mid).blotter)
    (he : EC (w.order! a)) : (w.order! a).complete = true := by
  rw [(h.sent a hb).2 _ he]; decide

theorem fs_orderExecutable (mid : Nat) (w : World) (a : Nat) (ha : HasOrder w a) : FS mid w (w.orderExecutable a) := by
  unfold orderExecutable
  split
  · exact fs_modifyOrder mid w a _ (fun _ => rfl) ⟨rfl, rfl⟩
  · rename_i hnc
    refine (fs_orderUpdateStatus mid w a .executable ha ?_).trans (fs_modifyOrder mid _ a _ (fun _ => rfl) ⟨rfl, rfl⟩)
    intro h hb
    refine ⟨Or.inr (Or.inl rfl), fun hl => ?_, fun he => ?_⟩
    · exact absurd (ec_complete h a hb (h.live a hb hl)) hnc
    · exact absurd (ec_complete h a hb he) hnc

theorem fs_orderExecutionComplete (mid : Nat) (w : World) (a : Nat) (ha : HasOrder w a) : FS mid w (w.orderExecutionComplete a) := by
  unfold orderExecutionComplete
  exact (fs_orderUpdateStatus mid w a .executionComplete ha (fun _ _ => ⟨by simp, fun _ => rfl, fun _ => rfl⟩)).trans
    (fs_modifyOrder mid _ a _ (fun _ => rfl) ⟨rfl, rfl⟩)

theorem fs_orderViolation (mid : Nat) (w : World) (a : Nat) (msg : String) (ha : HasOrder w a) : FS mid w (w.orderViolation a msg) := by
  unfold orderViolation
  split
  · exact FS.refl mid w
  · rename_i hg
    refine (fs_orderUpdateStatus mid w a .violation ha ?_).trans (fs_modifyOrder mid _ a _ (fun _ => rfl) ⟨rfl, rfl⟩)
    intro h hb
    exfalso; apply hg
    obtain ⟨hs, _⟩ := h.sent a hb
    rcases hs with e | e | e | e | e | e <;> rw [e] <;> simp

/-- a request accepted on an executable order: in flight -/
theorem fs_inflight (mid : Nat) (w : World) (a : Nat) (s : Status) (ha : HasOrder w a)
    (hs : s = .cancelling ∨ s = .updating ∨ s = .replacing) (hx : (w.order! a).status = some .executable) :
    FS mid w (w.orderUpdateStatus a s) := by
  apply fs_orderUpdateStatus mid w a s ha
  intro h hb
  have hne : ¬ EC (w.order! a) := by unfold EC; rw [hx]; simp
  refine ⟨?_, fun hl => absurd (h.live a hb hl) hne, fun he => absurd he hne⟩
  rcases hs with e | e | e <;> rw [e] <;> simp

theorem fs_request (mid : Nat) (w : World) (a : Nat) (o' : Order) (s : Status) (ha : HasOrder w a) (hid : o'.id = a)
    (hst : o'.status = (w.order! a).status) (hc : o'.complete = (w.order! a).complete)
    (hx : (w.order! a).status = some .executable) (hs : s = .cancelling ∨ s = .updating ∨ s = .replacing) :
    FS mid w ((w.setOrder o').orderUpdateStatus a s) := by
  refine (fs_setOrder mid w a o' ha ⟨hid, hst, hc⟩).trans ?_
  apply fs_inflight mid _ a s (hasOrder_setOrder w _ a ha) hs
  have := order!_setOrder_self w o' (by rw [hid]; exact ha)
  rw [hid] at this
  rw [this, hst]; exact hx

theorem fs_orderCancel (mid : Nat) (w w' : World) (a : Nat) (red : Option Rat) (ha : HasOrder w a) (h : w.orderCancel a red = .ok w') : FS mid w w' := by
  unfold orderCancel at h
  simp only at h
  split_ifs at h with h1 h2 h3 h4
  have := (Except.ok.inj h).symm
  subst this
  exact fs_request mid w a _ .cancelling ha (order!_id w a ha) rfl rfl (Decidable.of_not_not h4) (Or.inl rfl)

theorem fs_orderUpdate (mid : Nat) (w w' : World) (a : Nat) (p : String) (ha : HasOrder w a) (h : w.orderUpdate a p = .ok w') : FS mid w w' := by
  unfold orderUpdate at h
  simp only at h
  split_ifs at h with h1 h2 h3 h4
  have := (Except.ok.inj h).symm
  subst this
  exact fs_request mid w a _ .updating ha (order!_id w a ha) rfl rfl (Decidable.of_not_not h4) (Or.inr (Or.inl rfl))

theorem fs_orderReplace (mid : Nat) (w w' : World) (a : Nat) (p : Rat) (ha : HasOrder w a) (h : w.orderReplace a p = .ok w') : FS mid w w' := by
  unfold orderReplace at h
  simp only at h
  split_ifs at h with h1 h2 h3 h4
  have := (Except.ok.inj h).symm
  subst this
  exact fs_request mid w a _ .replacing ha (order!_id w a ha) rfl rfl (Decidable.of_not_not h4) (Or.inr (Or.inr rfl))

/-! ### blotter and live list -/

theorem fs_blotterComplete (mid : Nat) (w : World) (m' oid : Nat)
    (hec : BI mid w → m' = mid → oid ∈ (w.market! mid).blotter → EC (w.order! oid)) : FS mid w (w.blotterComplete m' oid) := by
  unfold blotterComplete
  refine FS.frame (good_blotterComplete w m' oid) (fun h => ?_)
  rcases market!_modify w m' mid (fun m => { m with live := m.live.erase oid }) (fun _ => rfl) with e | ⟨em, e⟩
  · rw [e]; exact ⟨fun _ _ => ⟨rfl, rfl⟩, rfl, fun _ hx => hx, fun x _ h1 h2 => absurd h2 h1⟩
  · rw [e]
    refine ⟨fun _ _ => ⟨rfl, rfl⟩, rfl, fun x hx => List.mem_of_mem_erase hx, ?_⟩
    intro x hb h1 h2
    by_cases ex : x = oid
    · rw [ex]; rw [ex] at hb; exact hec h em.symm hb
    · exact absurd ((List.mem_erase_of_ne ex).mpr h2) h1

theorem fs_blotterAdd (mid : Nat) (w : World) (m' oid : Nat) (ho : oid ∈ ids w) (hn : oid ∉ (w.market! m').blotter)
    (hsent : m' = mid → Sent (w.order! oid)) : FS mid w (w.blotterAdd m' oid) := by
  have hg := good_blotterAdd w m' oid ho hn
  unfold blotterAdd at hg ⊢
  -- the flags written on the order do not matter: reduce to the market part
  have hord : ∀ x, ((w.modifyMarket m' fun m => { m with active := true, blotter := m.blotter ++ [oid], live := m.live ++ [oid] }).modifyOrder oid
      fun o => { o with inBlotter := true, blotterClient := o.client }).order! x = w.order! x ∨ True := fun _ => Or.inr trivial
  have hst : ∀ x, (((w.modifyMarket m' fun m => { m with active := true, blotter := m.blotter ++ [oid], live := m.live ++ [oid] }).modifyOrder oid
      fun o => { o with inBlotter := true, blotterClient := o.client }).order! x).status = (w.order! x).status ∧
      (((w.modifyMarket m' fun m => { m with active := true, blotter := m.blotter ++ [oid], live := m.live ++ [oid] }).modifyOrder oid
      fun o => { o with inBlotter := true, blotterClient := o.client }).order! x).complete = (w.order! x).complete := by
    intro x
    rcases order!_modify (w.modifyMarket m' fun m => { m with active := true, blotter := m.blotter ++ [oid], live := m.live ++ [oid] }) oid x
      (fun o => { o with inBlotter := true, blotterClient := o.client }) (fun _ => rfl) with h | ⟨_, _, h⟩
    · rw [h]; exact ⟨rfl, rfl⟩
    · rw [h]; rename_i e _; rw [e]; exact ⟨rfl, rfl⟩
  have hmk : ((w.modifyMarket m' fun m => { m with active := true, blotter := m.blotter ++ [oid], live := m.live ++ [oid] }).modifyOrder oid
      fun o => { o with inBlotter := true, blotterClient := o.client }).market! mid =
      (w.modifyMarket m' fun m => { m with active := true, blotter := m.blotter ++ [oid], live := m.live ++ [oid] }).market! mid := rfl
  refine ⟨hg.1, fun h => ?_⟩
  rcases market!_modify w m' mid (fun m => { m with active := true, blotter := m.blotter ++ [oid], live := m.live ++ [oid] }) (fun _ => rfl) with e | ⟨em, e⟩
  · -- another market (or none of that id): the market's lists are as they were
    refine ⟨⟨hg.2 h.inv, ?_, ?_⟩, ?_, ?_⟩
    · intro x hx; rw [hmk, e] at hx
      obtain ⟨a, b⟩ := h.sent x hx
      unfold Sent; rw [(hst x).1, (hst x).2]; exact ⟨a, b⟩
    · intro x hx hl; rw [hmk, e] at hx hl
      unfold EC; rw [(hst x).1]; exact h.live x hx hl
    · intro x hx; rw [hmk, e]; exact hx
    · intro x _ he; unfold EC at he ⊢; rw [(hst x).1]; exact he
  · refine ⟨⟨hg.2 h.inv, ?_, ?_⟩, ?_, ?_⟩
    · intro x hx; rw [hmk, e] at hx
      unfold Sent; rw [(hst x).1, (hst x).2]
      rcases List.mem_append.mp hx with hx | hx
      · exact h.sent x hx
      · rw [List.mem_singleton.mp hx]; exact hsent em.symm
    · intro x hx hl; rw [hmk, e] at hx hl
      unfold EC; rw [(hst x).1]
      have hl' : x ∉ (w.market! mid).live := fun hh => hl (List.mem_append_left _ hh)
      rcases List.mem_append.mp hx with hx | hx
      · exact h.live x hx hl'
      · exact absurd (List.mem_append_right _ hx) hl
    · intro x hx; rw [hmk, e]; exact List.mem_append_left _ hx
    · intro x _ he; unfold EC at he ⊢; rw [(hst x).1]; exact he


/-! ### new orders and markets -/

theorem order!_append (w w' : World) (o : Order) (ho : w'.orders = w.orders ++ [o]) (oid : Nat) (h : HasOrder w oid) :
    w'.order! oid = w.order! oid := by
  obtain ⟨x, hx⟩ := h
  rw [order!_of_find w oid x hx]
  apply order!_of_find
  rw [ho, List.find?_append, hx]; rfl

theorem blotter_hasOrder {mid : Nat} {w : World} (h : BI mid w) (oid : Nat) (hb : oid ∈ (w.market! mid).blotter) : HasOrder w oid :=
  h.inv.blotter_hasOrder mid oid hb

theorem fs_appendOrder (mid : Nat) (w w' : World) (o : Order) (hid : o.id = w.orders.length) (ho : w'.orders = w.orders ++ [o])
    (hm : w'.markets = w.markets) (hq : ∀ p ∈ w'.queue, p ∈ w.queue) : FS mid w w' := by
  have hmk : w'.market! mid = w.market! mid := Inv.market!_congr w' w hm mid
  refine FS.frame (good_appendOrder w w' o hid ho hm hq) (fun h => ⟨fun oid hb => ?_, by rw [hmk], by rw [hmk]; exact fun _ hx => hx,
    by rw [hmk]; intro x _ h1 h2; exact absurd h2 h1⟩)
  rw [order!_append w w' o ho oid (blotter_hasOrder h oid hb)]; exact ⟨rfl, rfl⟩

theorem market!_append_other (w : World) (m : Market) (mid : Nat) (hne : m.id ≠ mid) :
    ({ w with markets := w.markets ++ [m] } : World).market! mid = w.market! mid := by
  unfold market! market?
  simp only
  rw [List.find?_append]
  cases w.markets.find? (fun x => decide (x.id = mid)) with
  | some x => rfl
  | none => simp [hne]

theorem fs_appendMarket (mid : Nat) (w : World) (m : Market) (hnew : (w.market? m.id).isNone = true) (hb : m.blotter = []) (hl : m.live = []) :
    FS mid w ({ w with markets := w.markets ++ [m] } : World) := by
  refine FS.frame (good_appendMarket w m hnew hb hl) (fun h => ?_)
  by_cases e : m.id = mid
  · -- the market did not exist: its blotter was (the default's) empty one and is empty now
    have h0 : w.market! mid = default := by
      unfold market!; rw [← e]
      cases hx : w.market? m.id with
      | none => rfl
      | some x => rw [hx] at hnew; cases hnew
    have h1 : ({ w with markets := w.markets ++ [m] } : World).market! mid = m := by
      unfold market! market?
      simp only
      rw [List.find?_append]
      have : w.markets.find? (fun x => decide (x.id = mid)) = none := by
        rw [← e]; unfold market? at hnew; exact Option.isNone_iff_eq_none.mp hnew
      rw [this]; simp [e]
    rw [h0, h1, hb, hl]
    have d1 : (default : Market).blotter = [] := rfl
    have d2 : (default : Market).live = [] := rfl
    rw [d1, d2]
    refine ⟨?_, rfl, ?_, ?_⟩
    · intro x hx; cases hx
    · intro x hx; cases hx
    · intro x hx; cases hx
  · rw [market!_append_other w m mid e]
    exact ⟨fun _ _ => ⟨rfl, rfl⟩, rfl, fun _ hx => hx, fun x _ h1 h2 => absurd h2 h1⟩


/-! ### frame-type functions -/

theorem fs_setClient (M : Nat) (w : World) (c : Client) : FS M w (w.setClient c) := FS.of_eq rfl rfl (fun _ hp => hp)
theorem fs_emit (M : Nat) (w : World) (e : Ev) : FS M w (w.emit e) := FS.of_eq rfl rfl (fun _ hp => hp)
theorem fs_setCtx (M : Nat) (w : World) (c : RunnerCtx) : FS M w (w.setCtx c) := FS.of_eq (setCtx_orders w c) (setCtx_markets w c) (sub_of_eq (setCtx_queue w c))
theorem fs_ctxPlace (M : Nat) (w : World) (k : CtxKey) (t : Nat) : FS M w (w.ctxPlace k t) := FS.of_eq (ctxPlace_orders w k t) (ctxPlace_markets w k t) (sub_of_eq (setCtx_queue w _))
theorem fs_tradeEnter (M : Nat) (w : World) (t : Nat) : FS M w (w.tradeEnter t) := FS.of_eq (tradeEnter_orders w t) (tradeEnter_markets w t) (sub_of_eq (tradeUpdateStatus_queue w t _))
theorem fs_tradeExit (M : Nat) (w : World) (t : Nat) : FS M w (w.tradeExit t) := FS.of_eq (tradeExit_orders w t) (tradeExit_markets w t) (sub_of_eq (tradeUpdateStatus_queue w t _))
theorem fs_addTransaction (M : Nat) (w : World) (c n : Nat) (f : Bool) : FS M w (w.addTransaction c n f) := FS.of_eq rfl rfl (fun _ hp => hp)
theorem fs_bumpBetId (M : Nat) (w : World) : FS M w w.bumpBetId := FS.of_eq rfl rfl (fun _ hp => hp)

theorem FS.hasOrder {M : Nat} {w w' : World} (h : FS M w w') (oid : Nat) (ho : HasOrder w oid) : HasOrder w' oid := h.1.hasOrder oid ho

/-! ### requests -/

theorem fs_validateControls (M : Nat) (w : World) (oid cid : Nat) (k : PackKind) (ho : HasOrder w oid) : FS M w (w.validateControls oid cid k).1 := by
  unfold validateControls
  simp only
  split
  · exact fs_orderViolation M w oid _ ho
  · split
    · exact fs_orderViolation M w oid _ ho
    · split
      · split_ifs
        · exact (fs_setCtx M w _).trans (fs_orderViolation M _ oid _ ((fs_setCtx M w _).hasOrder oid ho))
        · exact fs_orderViolation M w oid _ ho
      · split_ifs
        · exact (fs_setCtx M w _).trans (fs_setClient M _ _)
        · exact ((fs_setCtx M w _).trans (fs_setClient M _ _)).trans (fs_orderViolation M _ oid _ (((fs_setCtx M w _).trans (fs_setClient M _ _)).hasOrder oid ho))
        · exact fs_setClient M w _
        · exact (fs_setClient M w _).trans (fs_orderViolation M _ oid _ ((fs_setClient M w _).hasOrder oid ho))

/-- `Transaction.place_order`, through a transaction of ANY market: an order that sits EXECUTION_COMPLETE in M's
    blotter is refused by the complete-order guard (fix f0672de), any other order of M's blotter is live there -/
theorem fs_txnPlace (M : Nat) (w : World) (t : Txn) (oid : Nat) (v : Option Int) (ex force : Bool) (ho : HasOrder w oid) :
    FS M w (w.txnPlace t oid v ex force).1 := by
  unfold txnPlace
  simp only
  have k0 := fs_modifyOrder M w oid (fun o => { o with client := some t.client }) (fun _ => rfl) ⟨rfl, rfl⟩
  generalize w.modifyOrder oid (fun o => { o with client := some t.client }) = w0 at k0
  have h0 := k0.hasOrder oid ho
  have k1 : FS M w0 (if (ex && !force) = true then w0.validateControls oid t.client .place else (w0, none)).1 := by
    split
    · exact fs_validateControls M w0 oid t.client .place h0
    · exact FS.refl _ w0
  generalize (if (ex && !force) = true then w0.validateControls oid t.client .place else (w0, none)) = vr at k1
  obtain ⟨w1, r⟩ := vr
  simp only at k1 ⊢
  have h1 := k1.hasOrder oid h0
  cases r with
  | some r => exact k0.trans k1
  | none =>
    simp only
    split
    · exact k0.trans k1
    · rename_i hnc
      rw [Bool.or_eq_true, not_or] at hnc
      have hn1 : oid ∉ (w1.market! t.market).blotter := fun hin => hnc.1 (List.contains_iff_mem.mpr hin)
      have hne1 : ¬ EC (w1.order! oid) := by
        intro he; apply hnc.2; unfold EC at he; rw [he]; rfl
      have k2 := fs_modifyOrder M w1 oid (fun o => { o with publishTime := some (((w1.market! t.market).book).getD {}).pt, marketVersion := v }) (fun _ => rfl) ⟨rfl, rfl⟩
      have m2 : (w1.modifyOrder oid (fun o => { o with publishTime := some (((w1.market! t.market).book).getD {}).pt, marketVersion := v })).markets = w1.markets := rfl
      have e2 : ((w1.modifyOrder oid (fun o => { o with publishTime := some (((w1.market! t.market).book).getD {}).pt, marketVersion := v })).order! oid).status = (w1.order! oid).status := by
        rw [order!_modify_self w1 oid _ h1 (by intro x hx; exact hx)]
      generalize w1.modifyOrder oid (fun o => { o with publishTime := some (((w1.market! t.market).book).getD {}).pt, marketVersion := v }) = w2 at k2 m2 e2
      have h2 := k2.hasOrder oid h1
      have hne2 : ¬ EC (w2.order! oid) := by unfold EC; rw [e2]; exact hne1
      have k3 := fs_orderUpdateStatus M w2 oid .pending h2 (fun hBI hb =>
        ⟨Or.inl rfl, fun hl => absurd (hBI.live oid hb hl) hne2, fun he => absurd he hne2⟩)
      have m3 : (w2.orderUpdateStatus oid .pending).markets = w1.markets := (orderUpdateStatus_markets w2 oid .pending).trans m2
      have s3 : Sent ((w2.orderUpdateStatus oid .pending).order! oid) := by
        rw [orderUpdateStatus_self w2 oid .pending h2]
        exact ⟨Or.inl rfl, fun s hs => by have : Status.pending = s := Option.some.inj hs; subst this; rfl⟩
      have base := ((k0.trans k1).trans k2).trans k3
      unfold orderPlacing
      generalize w2.orderUpdateStatus oid .pending = w3 at base m3 s3
      have hn3 : oid ∉ (w3.market! t.market).blotter := by
        rw [Inv.market!_congr w3 w1 m3 t.market]; exact hn1
      have k4 := fs_blotterAdd M w3 t.market oid ((hasOrder_iff w3 oid).mp (base.hasOrder oid ho)) hn3 (fun _ => s3)
      split
      · split
        · exact ((base.trans k4).trans (fs_emit _ _ _)).trans (fs_ctxPlace _ _ _ _)
        · exact (base.trans k4).trans (fs_ctxPlace _ _ _ _)
      · split
        · exact (base.trans k4).trans (fs_emit _ _ _)
        · exact base.trans k4

theorem fs_txnCancel (M : Nat) (w : World) (t : Txn) (oid : Nat) (red : Option Rat) (f : Bool) (ho : HasOrder w oid) :
    FS M w (w.txnCancel t oid red f).1 := by
  unfold txnCancel
  simp only
  split
  · exact FS.refl M w
  · have k1 : FS M w (if (!f) = true then w.validateControls oid t.client .cancel else (w, none)).1 := by
      split
      · exact fs_validateControls M w oid t.client .cancel ho
      · exact FS.refl M w
    generalize (if (!f) = true then w.validateControls oid t.client .cancel else (w, none)) = vr at k1
    obtain ⟨w1, r⟩ := vr
    cases r with
    | some r => exact k1
    | none =>
      simp only at k1 ⊢
      cases h : w1.orderCancel oid red with
      | error e => exact k1
      | ok w2 => exact k1.trans (fs_orderCancel M w1 w2 oid red (k1.hasOrder oid ho) h)

theorem fs_txnUpdate (M : Nat) (w : World) (t : Txn) (oid : Nat) (p : String) (f : Bool) (ho : HasOrder w oid) :
    FS M w (w.txnUpdate t oid p f).1 := by
  unfold txnUpdate
  simp only
  split
  · exact FS.refl M w
  · have k1 : FS M w (if (!f) = true then w.validateControls oid t.client .update else (w, none)).1 := by
      split
      · exact fs_validateControls M w oid t.client .update ho
      · exact FS.refl M w
    generalize (if (!f) = true then w.validateControls oid t.client .update else (w, none)) = vr at k1
    obtain ⟨w1, r⟩ := vr
    cases r with
    | some r => exact k1
    | none =>
      simp only at k1 ⊢
      cases h : w1.orderUpdate oid p with
      | error e => exact k1
      | ok w2 => exact k1.trans (fs_orderUpdate M w1 w2 oid p (k1.hasOrder oid ho) h)

theorem fs_txnReplace (M : Nat) (w : World) (t : Txn) (oid : Nat) (p : Rat) (v : Option Int) (f : Bool) (ho : HasOrder w oid) :
    FS M w (w.txnReplace t oid p v f).1 := by
  unfold txnReplace
  simp only
  split
  · exact FS.refl M w
  · have k1 : FS M w (if (!f) = true then w.validateControls oid t.client .replace else (w, none)).1 := by
      split
      · exact fs_validateControls M w oid t.client .replace ho
      · exact FS.refl M w
    generalize (if (!f) = true then w.validateControls oid t.client .replace else (w, none)) = vr at k1
    obtain ⟨w1, r⟩ := vr
    cases r with
    | some r => exact k1
    | none =>
      simp only at k1 ⊢
      cases h : w1.orderReplace oid p with
      | error e => exact k1
      | ok w2 => exact k1.trans (fs_orderReplace M w1 w2 oid p (k1.hasOrder oid ho) h)


/-! ### packaging -/

theorem FS.of_good {M : Nat} {w w' : World} (hg : Good w w') (ho : w'.orders = w.orders) (hm : w'.markets = w.markets) : FS M w w' := by
  have hmk : w'.market! M = w.market! M := Inv.market!_congr w' w hm M
  refine FS.frame hg (fun _ => ⟨fun oid _ => by rw [order!_congr w w' ho oid]; exact ⟨rfl, rfl⟩, by rw [hmk], by rw [hmk]; exact fun _ h => h,
    by rw [hmk]; intro x _ h1 h2; exact absurd h2 h1⟩)

theorem packs_orders (k : PackKind) (t : Txn) (d bd : Rat) (l : List (Option Int × List Nat)) (w : World) :
    (l.foldl (addPackage k t d bd) w).orders = w.orders ∧ (l.foldl (addPackage k t d bd) w).markets = w.markets := by
  induction l generalizing w with
  | nil => exact ⟨rfl, rfl⟩
  | cons x xs ih =>
    rw [List.foldl_cons]
    obtain ⟨a, b⟩ := ih (addPackage k t d bd w x)
    exact ⟨a.trans rfl, b.trans rfl⟩

theorem createPackages_orders (w : World) (t : Txn) (pend : List (Nat × Option Int)) (k : PackKind) :
    (w.createPackages t pend k).orders = w.orders ∧ (w.createPackages t pend k).markets = w.markets := by
  unfold createPackages
  exact packs_orders k t _ _ _ w

theorem fs_txnExecute (M : Nat) (w : World) (t : Txn) (ht : TOk w t) : FS M w (w.txnExecute t).1 := by
  refine FS.of_good (good_txnExecute_of w t ht) ?_ ?_
  all_goals
    unfold txnExecute
    simp only
    have h : ∀ (w : World) (c : Bool) (p : List (Nat × Option Int)) (k : PackKind),
        (if c then w else w.createPackages t p k).orders = w.orders ∧ (if c then w else w.createPackages t p k).markets = w.markets := by
      intro w c p k; split
      · exact ⟨rfl, rfl⟩
      · exact createPackages_orders w t p k
    first
      | exact (h _ _ _ _).1.trans ((h _ _ _ _).1.trans ((h _ _ _ _).1.trans (h _ _ _ _).1))
      | exact (h _ _ _ _).2.trans ((h _ _ _ _).2.trans ((h _ _ _ _).2.trans (h _ _ _ _).2))

theorem fs_txnExit (M : Nat) (w : World) (t : Txn) (ht : TOk w t) : FS M w (w.txnExit t) := by
  unfold txnExit; split
  · exact fs_txnExecute M w t ht
  · exact FS.refl M w

/-! ### simulated execution -/

theorem fs_logPlaced (M : Nat) (w : World) (oid : Nat) (b : Option Nat) : FS M w (w.logPlaced oid b) := by
  unfold logPlaced
  have k1 := fs_modifyOrder M w oid (fun o => { o with placedAt := some w.clock }) (fun _ => rfl) ⟨rfl, rfl⟩
  cases b with
  | none => exact k1
  | some b => exact (k1.trans (fs_modifyOrder M _ oid (fun o => { o with betId := some b }) (fun _ => rfl) ⟨rfl, rfl⟩)).trans (fs_emit M _ _)

theorem fs_placeStep (M : Nat) (p : Package) (w : World) (oid : Nat) (ho : HasOrder w oid) : FS M w (placeStep p w oid) := by
  unfold placeStep
  simp only
  have k1 := (fs_tradeEnter M w (w.order! oid).trade).trans (fs_bumpBetId M _)
  generalize (w.tradeEnter (w.order! oid).trade).bumpBetId = w1 at k1
  generalize placeResponse p w1 (w.order! oid) = pr
  have k2 := k1.trans ((fs_modifyOrder M w1 oid (fun o => { o with sim := pr.1 }) (fun _ => rfl) ⟨rfl, rfl⟩).trans (fs_logPlaced M _ oid pr.2.betId))
  generalize (w1.modifyOrder oid fun o => { o with sim := pr.1 }).logPlaced oid pr.2.betId = w2 at k2
  have h2 := k2.hasOrder oid ho
  cases pr.2.status with
  | success => exact (k2.trans (fs_orderExecutable M w2 oid h2)).trans (fs_tradeExit M _ _)
  | failure => exact (k2.trans (fs_orderExecutionComplete M w2 oid h2)).trans (fs_tradeExit M _ _)

theorem fs_cancelStep (M : Nat) (p : Package) (acc : World × Nat) (oid : Nat) (ho : HasOrder acc.1 oid) : FS M acc.1 (cancelStep p acc oid).1 := by
  obtain ⟨w, failed⟩ := acc
  unfold cancelStep
  simp only
  have k1 := fs_tradeEnter M w (w.order! oid).trade
  generalize w.tradeEnter (w.order! oid).trade = w1 at k1
  generalize (w.order! oid).sim.cancel (((w1.market! p.market).book).getD {}).status
    (if (w.order! oid).ud.hasReduction then (w.order! oid).ud.sizeReduction else none) = cr
  have k2 := k1.trans (fs_modifyOrder M w1 oid (fun o => { o with sim := cr.1, cancelResponses := o.cancelResponses + 1 }) (fun _ => rfl) ⟨rfl, rfl⟩)
  generalize w1.modifyOrder oid (fun o => { o with sim := cr.1, cancelResponses := o.cancelResponses + 1 }) = w2 at k2
  have h2 := k2.hasOrder oid ho
  cases cr.2.status with
  | success =>
    simp only
    split
    · exact (k2.trans (fs_orderExecutionComplete M w2 oid h2)).trans (fs_tradeExit M _ _)
    · exact (k2.trans (fs_orderExecutable M w2 oid h2)).trans (fs_tradeExit M _ _)
  | failure => exact (k2.trans (fs_orderExecutable M w2 oid h2)).trans (fs_tradeExit M _ _)

theorem fs_updateStep (M : Nat) (p : Package) (acc : World × Nat) (oid : Nat) (ho : HasOrder acc.1 oid) : FS M acc.1 (updateStep p acc oid).1 := by
  obtain ⟨w, failed⟩ := acc
  unfold updateStep
  simp only
  have k1 := fs_tradeEnter M w (w.order! oid).trade
  generalize w.tradeEnter (w.order! oid).trade = w1 at k1
  generalize (w.order! oid).sim.update (((w1.market! p.market).book).getD {}).view (w.order! oid).sim.persistence = ur
  have k2 := k1.trans (fs_modifyOrder M w1 oid (fun o => { o with sim := ur.1, updateResponses := o.updateResponses + 1 }) (fun _ => rfl) ⟨rfl, rfl⟩)
  generalize w1.modifyOrder oid (fun o => { o with sim := ur.1, updateResponses := o.updateResponses + 1 }) = w2 at k2
  exact (k2.trans (fs_orderExecutable M w2 oid (k2.hasOrder oid ho))).trans (fs_tradeExit M _ _)

theorem fs_createReplacement (M : Nat) (w : World) (oid : Nat) (np sz : Rat) (cr : Time) : FS M w (w.createReplacement oid np sz cr).1 := by
  unfold createReplacement
  simp only
  exact fs_appendOrder M w _ _ rfl rfl rfl (fun _ hp => hp)


theorem fs_replacePlace (M : Nat) (p : Package) (w : World) (o : Order) (oid : Nat) (book : Book) (np : Option Rat) (sc : Rat) (failed : Nat)
    (ho : HasOrder w oid) : FS M w (replacePlace p w o oid book np sc failed).1 := by
  unfold replacePlace
  simp only
  have k1 := (fs_orderExecutionComplete M w oid ho).trans (fs_bumpBetId M _)
  generalize (w.orderExecutionComplete oid).bumpBetId = w1 at k1
  have k2 := k1.trans (fs_createReplacement M w1 oid (np.getD 0) sc p.created)
  have hr := createReplacement_mem w1 oid (np.getD 0) sc p.created
  generalize w1.createReplacement oid (np.getD 0) sc p.created = cr at k2 hr
  obtain ⟨w2, rid⟩ := cr
  simp only at k2 hr ⊢
  have hr2 : HasOrder w2 rid := (hasOrder_iff w2 rid).mpr hr
  generalize (w2.order! rid).sim.place p.marketVersion (w2.client! p.client).bpe (w2.client! ((w2.order! rid).client.getD 0)).fullMatch book.view
    ((runnerOf book (w2.order! rid).sel (w2.order! rid).hc).getD { sel := (w2.order! rid).sel }).view false none w2.betId = pr
  have q3 := fs_modifyOrder M w2 rid (fun x => { x with sim := pr.1 }) (fun _ => rfl) ⟨rfl, rfl⟩
  have k3 := k2.trans q3
  generalize w2.modifyOrder rid (fun x => { x with sim := pr.1 }) = w3 at k3 q3
  have hr3 := q3.hasOrder rid hr2
  cases pr.2.status with
  | success =>
    simp only
    have q4 := (fs_modifyOrder M w3 rid (fun x => { x with placedAt := some w3.clock, betId := pr.2.betId }) (fun _ => rfl) ⟨rfl, rfl⟩).trans (fs_emit M _ (.orderEvent rid))
    have k4 := k3.trans q4
    generalize (w3.modifyOrder rid (fun x => { x with placedAt := some w3.clock, betId := pr.2.betId })).emit (.orderEvent rid) = w4 at k4 q4
    have hr4 := q4.hasOrder rid hr3
    have q5 := fs_txnPlace M w4 { market := p.market, client := o.client.getD ((w4.clients.head?.map (·.id)).getD 0) } rid none false false hr4
    exact ((k4.trans q5).trans (fs_orderExecutable M _ rid (q5.hasOrder rid hr4))).trans (fs_tradeExit M _ _)
  | failure =>
    have q4 := fs_orderExecutionComplete M w3 rid hr3
    exact ((k3.trans q4).trans (fs_orderExecutable M _ oid ((k3.trans q4).hasOrder oid ho))).trans (fs_tradeExit M _ _)

theorem fs_replaceStep (M : Nat) (p : Package) (acc : World × Nat) (pr : Nat × Option Rat) (ho : HasOrder acc.1 pr.1) :
    FS M acc.1 (replaceStep p acc pr).1 := by
  obtain ⟨w, failed⟩ := acc
  obtain ⟨oid, newPrice⟩ := pr
  unfold replaceStep
  simp only
  have k1 := fs_tradeEnter M w (w.order! oid).trade
  generalize w.tradeEnter (w.order! oid).trade = w1 at k1
  generalize (w.order! oid).sim.cancel (((w1.market! p.market).book).getD {}).status
    (if (w.order! oid).ud.hasReduction then (w.order! oid).ud.sizeReduction else none) = cr
  have k2 := k1.trans (fs_modifyOrder M w1 oid (fun o => { o with sim := cr.1, cancelResponses := o.cancelResponses + 1 }) (fun _ => rfl) ⟨rfl, rfl⟩)
  generalize w1.modifyOrder oid (fun o => { o with sim := cr.1, cancelResponses := o.cancelResponses + 1 }) = w2 at k2
  have h2 := k2.hasOrder oid ho
  cases cr.2.status with
  | failure => exact (k2.trans (fs_orderExecutable M w2 oid h2)).trans (fs_tradeExit M _ _)
  | success => exact k2.trans (fs_replacePlace M p w2 _ oid _ newPrice _ failed h2)

/-- a fold whose step is good for the elements of the list that name existing orders -/
theorem fs_foldl_mem {α} (M : Nat) (f : World → α → World) (key : α → Nat) (l : List α) (w : World)
    (hf : ∀ w a, HasOrder w (key a) → FS M w (f w a)) (hl : ∀ a ∈ l, HasOrder w (key a)) : FS M w (l.foldl f w) := by
  induction l generalizing w with
  | nil => exact FS.refl M w
  | cons a as ih =>
    rw [List.foldl_cons]
    have k := hf w a (hl a List.mem_cons_self)
    exact k.trans (ih _ (fun x hx => k.hasOrder _ (hl x (List.mem_cons_of_mem _ hx))))

theorem fs_foldl_pair_mem {α β} (M : Nat) (f : World × β → α → World × β) (key : α → Nat) (l : List α) (acc : World × β)
    (hf : ∀ acc a, HasOrder acc.1 (key a) → FS M acc.1 (f acc a).1) (hl : ∀ a ∈ l, HasOrder acc.1 (key a)) : FS M acc.1 (l.foldl f acc).1 := by
  induction l generalizing acc with
  | nil => exact FS.refl M _
  | cons a as ih =>
    rw [List.foldl_cons]
    have k := hf acc a (hl a List.mem_cons_self)
    exact k.trans (ih _ (fun x hx => k.hasOrder _ (hl x (List.mem_cons_of_mem _ hx))))

theorem fs_executePackage (M : Nat) (w : World) (p : Package) (hp : ∀ oid ∈ p.orders, HasOrder w oid) : FS M w (w.executePackage p) := by
  have hpo : ∀ oid ∈ w.packageOrders p, HasOrder w oid := fun oid h => hp oid (List.mem_filter.mp h).1
  unfold executePackage
  cases p.kind with
  | place =>
    simp only; unfold executePlace
    exact (fs_foldl_mem M (placeStep p) id _ w (fun w oid h => fs_placeStep M p w oid h) hpo).trans (fs_addTransaction _ _ _ _ _)
  | cancel =>
    simp only; unfold executeCancel
    simp only
    have := fs_foldl_pair_mem M (cancelStep p) id (w.packageOrders p) (w, 0) (fun acc oid h => fs_cancelStep M p acc oid h) hpo
    generalize (w.packageOrders p).foldl (cancelStep p) (w, 0) = r at this
    obtain ⟨w1, failed⟩ := r
    simp only at this ⊢
    split
    · exact this.trans (fs_addTransaction _ _ _ _ _)
    · exact this
  | update =>
    simp only; unfold executeUpdate
    simp only
    have := fs_foldl_pair_mem M (updateStep p) id (w.packageOrders p) (w, 0) (fun acc oid h => fs_updateStep M p acc oid h) hpo
    generalize (w.packageOrders p).foldl (updateStep p) (w, 0) = r at this
    obtain ⟨w1, failed⟩ := r
    simp only at this ⊢
    split
    · exact this.trans (fs_addTransaction _ _ _ _ _)
    · exact this
  | replace =>
    simp only; unfold executeReplace
    simp only
    have hz : ∀ a ∈ (((w.packageOrders p).filter fun oid => (w.order! oid).status ≠ some .executionComplete).map fun oid => (oid, (w.order! oid).ud.newPrice)),
        HasOrder w a.1 := by
      intro a ha
      obtain ⟨oid, ho, rfl⟩ := List.mem_map.mp ha
      exact hpo oid (List.mem_filter.mp ho).1
    generalize (((w.packageOrders p).filter fun oid => (w.order! oid).status ≠ some .executionComplete).map fun oid => (oid, (w.order! oid).ud.newPrice)) = zs at hz
    have := fs_foldl_pair_mem M (replaceStep p) (fun a => a.1) zs (w, 0) (fun acc pr h => fs_replaceStep M p acc pr h) hz
    generalize zs.foldl (replaceStep p) (w, 0) = r at this
    obtain ⟨w1, failed⟩ := r
    simp only at this ⊢
    split
    · exact (this.trans (fs_addTransaction _ _ _ _ _)).trans (fs_addTransaction _ _ _ _ _)
    · exact this.trans (fs_addTransaction _ _ _ _ _)


theorem fs_execAll (M : Nat) (l : List Package) (w : World) (hl : ∀ p ∈ l, ∀ oid ∈ p.orders, HasOrder w oid) :
    FS M w (l.foldl (fun w p => w.executePackage p) w) := by
  induction l generalizing w with
  | nil => exact FS.refl M w
  | cons p ps ih =>
    rw [List.foldl_cons]
    have k : FS M w (w.executePackage p) := fs_executePackage M w p (hl p List.mem_cons_self)
    exact k.trans (ih _ (fun q hq oid h => k.hasOrder oid (hl q (List.mem_cons_of_mem _ hq) oid h)))

theorem fs_checkPendingPackages (M : Nat) (w : World) (mid : Nat) : FS M w (w.checkPendingPackages mid) := by
  refine ⟨keeps_checkPendingPackages w mid, fun h => ?_⟩
  have hl : ∀ p ∈ w.queue.filter (fun p => p.market = mid ∧ p.delay < elapsedSeconds w.clock p.created),
      ∀ oid ∈ p.orders, HasOrder w oid := by
    intro p hp oid ho
    exact (hasOrder_iff w oid).mpr (h.inv.queue p (List.mem_filter.mp hp).1 oid ho)
  have k : FS M w (w.checkPendingPackages mid) := by
    unfold checkPendingPackages
    simp only
    exact (fs_execAll M _ w hl).trans (FS.of_eq rfl rfl (fun p hp => (List.mem_filter.mp hp).1))
  exact k.2 h

/-! ### middleware, completion loop, closure -/

theorem removalOnOrder_status (w : World) (m : Market) (rsel : Nat) (rhc : Rat) (raf : Option Rat) (o : Order) :
    (w.removalOnOrder m rsel rhc raf o).status = o.status ∧ (w.removalOnOrder m rsel rhc raf o).complete = o.complete := by
  unfold removalOnOrder
  simp only
  repeat' split
  all_goals exact ⟨rfl, rfl⟩

theorem fs_processRunnerRemoval (M : Nat) (w : World) (mid rsel : Nat) (rhc : Rat) (raf : Option Rat) : FS M w (w.processRunnerRemoval mid rsel rhc raf) := by
  unfold processRunnerRemoval
  simp only
  exact fs_foldl M _ (fun w oid => fs_modifyOrder M w oid _ (fun o => Ids.removalOnOrder_id w _ rsel rhc raf o) (removalOnOrder_status w _ rsel rhc raf _)) _ w

theorem fs_matchStep (M mid : Nat) (r : Bool) (acc : World × List (Nat × Rat × List (Rat × Rat))) (o0 : Order) (ho : HasOrder acc.1 o0.id) :
    FS M acc.1 (matchStep mid r acc o0).1 := by
  obtain ⟨w, lk⟩ := acc
  unfold matchStep
  simp only
  have hid : (w.order! o0.id).id = o0.id := order!_id w o0.id ho
  split
  · exact FS.refl M w
  · generalize (w.order! o0.id).sim.call _ _ _ _ = cr
    have k1 := fs_modifyOrder M w (w.order! o0.id).id (fun x => { x with sim := cr.1 }) (fun _ => rfl) ⟨rfl, rfl⟩
    split
    · exact k1.trans (fs_orderExecutionComplete M _ _ (k1.hasOrder _ (by rw [hid]; exact ho)))
    · exact k1

theorem fs_matchOrders (M : Nat) (w : World) (mid : Nat) (l : List Order) (r : Bool) (hl : ∀ x ∈ l, HasOrder w x.id) : FS M w (w.matchOrders mid l r) := by
  unfold matchOrders
  exact fs_foldl_pair_mem M (matchStep mid r) (fun x => x.id) l _ (fun acc o h => fs_matchStep M mid r acc o h) hl

theorem live_orders_exist (w : World) (mid : Nat) (hI : Inv w) (l : List Nat) (hl : ∀ oid ∈ l, oid ∈ (w.market! mid).blotter)
    (x : Order) (hx : x ∈ l.map w.order!) : HasOrder w x.id := by
  obtain ⟨oid, ho, rfl⟩ := List.mem_map.mp hx
  have h := hI.blotter_hasOrder mid oid (hl oid ho)
  rw [order!_id w oid h]; exact h

theorem mem_insertBy (key : Order → Rat) (o x : Order) (l : List Order) (h : x ∈ insertBy key o l) : x = o ∨ x ∈ l := by
  induction l with
  | nil => left; simpa [insertBy] using h
  | cons y ys ih =>
    unfold insertBy at h
    split at h
    · rcases List.mem_cons.mp h with e | e
      · left; exact e
      · right; exact e
    · rcases List.mem_cons.mp h with e | e
      · right; rw [e]; exact List.mem_cons_self
      · rcases ih e with e' | e'
        · left; exact e'
        · right; exact List.mem_cons_of_mem _ e'

theorem mem_stableSortBy (key : Order → Rat) (l : List Order) (x : Order) (h : x ∈ stableSortBy key l) : x ∈ l := by
  unfold stableSortBy at h
  have : ∀ (l acc : List Order), x ∈ l.foldl (fun acc o => insertBy key o acc) acc → x ∈ l ∨ x ∈ acc := by
    intro l
    induction l with
    | nil => intro acc h; right; exact h
    | cons y ys ih =>
      intro acc h
      rw [List.foldl_cons] at h
      rcases ih _ h with e | e
      · left; exact List.mem_cons_of_mem _ e
      · rcases mem_insertBy key y x acc e with e' | e'
        · left; rw [e']; exact List.mem_cons_self
        · right; exact e'
  rcases this l [] h with e | e
  · exact e
  · cases e

theorem mem_sortOrders' (l : List Order) (x : Order) (h : x ∈ sortOrders l) : x ∈ l := by
  unfold sortOrders at h
  simp only at h
  rcases List.mem_append.mp h with h | h
  · rcases List.mem_append.mp h with h | h
    · exact (List.mem_filter.mp (mem_stableSortBy _ _ x h)).1
    · exact (List.mem_filter.mp (mem_stableSortBy _ _ x h)).1
  · exact (List.mem_filter.mp h).1

theorem fs_matchStrategy (M mid : Nat) (w : World) (sid : Nat) : FS M w (matchStrategy mid w sid) := by
  refine ⟨keeps_matchStrategy mid w sid, fun h => ?_⟩
  have k : FS M w (matchStrategy mid w sid) := by
    unfold matchStrategy
    simp only
    split
    · exact FS.refl M w
    · apply fs_matchOrders
      intro x hx
      have hx1 := mem_sortOrders' _ x hx
      unfold strategyLive at hx1
      exact live_orders_exist w mid h.inv _ (fun _ ho => ho) x (List.mem_filter.mp hx1).1
  exact k.2 h

theorem fs_mwProcessSimulatedOrders (M : Nat) (w : World) (mid : Nat) : FS M w (w.mwProcessSimulatedOrders mid) := by
  refine ⟨keeps_mwProcessSimulatedOrders w mid, fun h => ?_⟩
  have k : FS M w (w.mwProcessSimulatedOrders mid) := by
    unfold mwProcessSimulatedOrders
    simp only
    split
    · exact fs_foldl M _ (fun w sid => fs_matchStrategy M mid w sid) _ w
    · split
      · exact FS.refl M w
      · apply fs_matchOrders
        intro x hx
        exact live_orders_exist w mid h.inv _ (fun oid ho => h.inv.live_sub mid oid ho) x (mem_sortOrders' _ x hx)
  exact k.2 h

theorem fs_mwUpdateAnalytics (M : Nat) (w : World) (mid : Nat) : FS M w (w.mwUpdateAnalytics mid).1 := by
  unfold mwUpdateAnalytics
  simp only
  exact FS.trans (b := { w with removals := w.removals ++ (detectRemovals ((w.market! mid).book.getD {}).runners (w.market! mid).removals).2 })
    (FS.of_eq rfl rfl (fun _ hp => hp)) (fs_modifyMarket M _ mid _ (fun m => ⟨rfl, rfl, rfl⟩))

theorem fs_simulatedMiddleware (M : Nat) (w : World) (mid : Nat) : FS M w (w.simulatedMiddleware mid) := by
  unfold simulatedMiddleware
  simp only
  have k1 := fs_mwUpdateAnalytics M w mid
  generalize w.mwUpdateAnalytics mid = p at k1
  have k2 := k1.trans (fs_foldl M (fun w (k : Nat × Rat × Option Rat) => w.processRunnerRemoval mid k.1 k.2.1 k.2.2)
    (fun w k => fs_processRunnerRemoval M w mid k.1 k.2.1 k.2.2) p.2 p.1)
  split
  · exact k2.trans (fs_mwProcessSimulatedOrders M _ mid)
  · exact k2


theorem ec_after_complete (w : World) (oid : Nat) (ho : HasOrder w oid) : EC ((w.orderExecutionComplete oid).order! oid) := by
  unfold orderExecutionComplete EC
  rw [order!_modify_self _ oid _ (hasOrder_orderUpdateStatus w oid oid .executionComplete ho) (by intro x hx; exact hx)]
  rw [orderUpdateStatus_self w oid .executionComplete ho]
  rfl

/-- one order of the completion loop -/
theorem fs_loopStep (M : Nat) (mid : Nat) (w : World) (oid : Nat) (ho : HasOrder w oid) :
    FS M w (let o := w.order! oid
      if o.complete then w.blotterComplete mid oid
      else match o.sim.kind with
        | .limit => if o.sim.sizeRemaining = 0 then (w.orderExecutionComplete oid).blotterComplete mid oid else w
        | _ => if o.sim.simStatus = .executionComplete then (w.orderExecutionComplete oid).blotterComplete mid oid else w) := by
  have hdone : FS M w ((w.orderExecutionComplete oid).blotterComplete mid oid) :=
    (fs_orderExecutionComplete M w oid ho).trans (fs_blotterComplete M _ mid oid (fun _ _ _ => ec_after_complete w oid ho))
  simp only
  split
  · rename_i hc
    exact fs_blotterComplete M w mid oid (fun h _ hb => sent_complete_ec h oid hb hc)
  · split
    · split
      · exact hdone
      · exact FS.refl M w
    · split
      · exact hdone
      · exact FS.refl M w

theorem fs_processSimulatedOrders (M : Nat) (w : World) (mid : Nat) : FS M w (w.processSimulatedOrders mid) := by
  refine ⟨keeps_processSimulatedOrders w mid, fun h => ?_⟩
  have hl : ∀ oid ∈ (w.market! mid).live, HasOrder w oid := fun oid ho => h.inv.blotter_hasOrder mid oid (h.inv.live_sub mid oid ho)
  have k : FS M w (w.processSimulatedOrders mid) := by
    unfold processSimulatedOrders
    simp only
    refine FS.trans (fs_foldl_mem M _ id _ w (fun w oid ho => fs_loopStep M mid w oid ho) hl) (fs_foldl M _ ?_ _ _)
    intro w s
    split
    · exact fs_emit M w _
    · exact FS.refl M w
  exact k.2 h

theorem fs_blotterProcessClosed (M : Nat) (w : World) (mid : Nat) (book : Book) : FS M w (w.blotterProcessClosed mid book) := by
  refine ⟨keeps_blotterProcessClosed w mid book, fun h => ?_⟩
  have hl : ∀ oid ∈ (w.market! mid).blotter, HasOrder w oid := h.inv.blotter_hasOrder mid
  have k : FS M w (w.blotterProcessClosed mid book) := by
    unfold blotterProcessClosed
    simp only
    refine fs_foldl_mem M _ id _ w ?_ hl
    intro w oid ho
    split
    · exact FS.refl M w
    · exact fs_setOrder M w oid _ ho ⟨order!_id w oid ho, rfl, rfl⟩
  exact k.2 h

theorem fs_processCloseMarket (M : Nat) (w : World) (mid : Nat) (book : Book) : FS M w (w.processCloseMarket mid book) := by
  unfold processCloseMarket
  split
  · exact fs_emit M w _
  · rename_i m hm
    have k0 : FS M w (if (!m.closed) = true then w.modifyMarket mid (fun m => { m with closed := true, closedAt := some w.clock }) else w) := by
      split
      · exact fs_modifyMarket M w mid _ (fun _ => ⟨rfl, rfl, rfl⟩)
      · exact FS.refl M w
    have k : FS M w (((if (!m.closed) = true then w.modifyMarket mid (fun m => { m with closed := true, closedAt := some w.clock }) else w).modifyMarket mid
        (fun m => { m with book := some book })).blotterProcessClosed mid book) :=
      (k0.trans (fs_modifyMarket M _ mid (fun m => { m with book := some book }) (fun _ => ⟨rfl, rfl, rfl⟩))).trans (fs_blotterProcessClosed M _ mid book)
    simp only
    generalize (((if (!m.closed) = true then w.modifyMarket mid (fun m => { m with closed := true, closedAt := some w.clock }) else w).modifyMarket mid
        (fun m => { m with book := some book })).blotterProcessClosed mid book) = w1 at k
    have k2 : FS M w1 ({ w1 with out := w1.out ++ w1.closeCallbacks mid book ++ w1.clearedEvents mid ++ [Ev.closeEvent mid] } : World) := FS.of_eq rfl rfl (fun _ hp => hp)
    generalize ({ w1 with out := w1.out ++ w1.closeCallbacks mid book ++ w1.clearedEvents mid ++ [Ev.closeEvent mid] } : World) = w2 at k2
    have k3 := fs_modifyMarket M w2 mid (fun m => { m with analytics := [], hasAnalytics := false }) (fun _ => ⟨rfl, rfl, rfl⟩)
    generalize w2.modifyMarket mid (fun m => { m with analytics := [], hasAnalytics := false }) = w3 at k3
    exact ((k.trans k2).trans k3).trans (FS.of_eq rfl rfl (fun _ hp => hp))


/-! ### scripted strategy actions and a whole update (of any market `mid`), seen from market M -/

/-- what is carried through the actions of a callback: the invariant and an open transaction (if any) holding
    existing orders only -/
def SOk (M : Nat) (w : World) (b : Option Txn) : Prop := BI M w ∧ BOk w b

theorem fin_direct_none (M : Nat) (w : World) (mid oid c : Nat) (f : World → Txn → World × Txn × ReqResult)
    (hk : FS M w (f w { market := mid, client := c }).1)
    (hs : (f w { market := mid, client := c }).2.1 = { market := mid, client := c } ∨
      (∃ v, (f w { market := mid, client := c }).2.1 = { ({ market := mid, client := c } : Txn) with pPlace := [] ++ [(oid, v)], pendingOrders := true }) ∨
      (∃ v, (f w { market := mid, client := c }).2.1 = { ({ market := mid, client := c } : Txn) with pCancel := [] ++ [(oid, v)], pendingOrders := true }) ∨
      (∃ v, (f w { market := mid, client := c }).2.1 = { ({ market := mid, client := c } : Txn) with pUpdate := [] ++ [(oid, v)], pendingOrders := true }) ∨
      (∃ v, (f w { market := mid, client := c }).2.1 = { ({ market := mid, client := c } : Txn) with pReplace := [] ++ [(oid, v)], pendingOrders := true }))
    (ho : oid ∈ ids w) (hBI : BI M w) :
    BI M ((f w { market := mid, client := c }).1.txnExit (f w { market := mid, client := c }).2.1) ∧
    Step M w ((f w { market := mid, client := c }).1.txnExit (f w { market := mid, client := c }).2.1) := by
  have ht1 : TOk (f w { market := mid, client := c }).1 (f w { market := mid, client := c }).2.1 :=
    tok_add _ { market := mid, client := c } _ oid ((TOk.fresh w mid c).keeps hk.1) (Keeps.mem hk.1 oid ho) hs
  exact (hk.trans (fs_txnExit M _ _ ht1)).2 hBI

theorem fin_doActionCore (M : Nat) (w : World) (mid : Nat) (batch : Option Txn) (a : Action) (h : SOk M w batch) :
    SOk M (w.doActionCore mid batch a).1 (w.doActionCore mid batch a).2.1 ∧ Step M w (w.doActionCore mid batch a).1 := by
  obtain ⟨hBI, hB⟩ := h
  have hB' := (step_doActionCore w mid batch a hBI.inv hB).2
  unfold doActionCore at hB' ⊢
  simp only at hB' ⊢
  split at hB'
  · rename_i hmiss; rw [if_pos hmiss]; exact ⟨⟨hBI, hB⟩, Step.refl M w⟩
  · rename_i hmiss
    rw [if_neg hmiss]
    have hin : ∀ tg, a.target? = some tg → tg.resolve w ∈ ids w := by
      intro tg htg
      apply target_mem w tg hBI.inv
      rw [htg] at hmiss
      simpa using hmiss
    cases a with
    | create o tr =>
      have hk : ∀ (w' : World), w'.orders = w.orders ++ [{ o with id := w.orders.length, created := w.clock, statusAt := w.clock, status := none, complete := false, log := [] }] →
          w'.markets = w.markets → w'.queue = w.queue → BOk w' batch → SOk M w' batch ∧ Step M w w' := by
        intro w' h1 h2 h3 hb
        obtain ⟨b1, s1⟩ := (fs_appendOrder M w w' _ rfl h1 h2 (sub_of_eq h3)).2 hBI
        exact ⟨⟨b1, hb⟩, s1⟩
      cases tr with
      | none => exact hk _ rfl rfl rfl hB'
      | some t => exact hk _ rfl rfl rfl hB'
    | place tg v force =>
      have ho := hin tg rfl
      have hho := (hasOrder_iff w _).mpr ho
      cases batch with
      | some t =>
        have hk : FS M w (w.txnPlace t (tg.resolve w) v true force).1 := fs_txnPlace M w t (tg.resolve w) v true force hho
        obtain ⟨b1, s1⟩ := hk.2 hBI
        exact ⟨⟨b1, hB'⟩, s1⟩
      | none =>
        refine (fun (X : BI M _ ∧ Step M w _) => ⟨⟨X.1, hB'⟩, X.2⟩) ?_
        exact fin_direct_none M w mid (tg.resolve w) _ (fun w t => w.txnPlace t (tg.resolve w) v true force) (fs_txnPlace M w { market := mid, client := _ } (tg.resolve w) v true force hho)
          (by
            rcases txnPlace_txn w { market := mid, client := _ } (tg.resolve w) v true force with h | h
            · exact Or.inl h
            · exact Or.inr (Or.inl ⟨v, h⟩)) ho hBI
    | cancel tg red force =>
      have ho := hin tg rfl
      have hho := (hasOrder_iff w _).mpr ho
      cases batch with
      | some t =>
        have hk : FS M w (w.txnCancel t (tg.resolve w) red force).1 := fs_txnCancel M w t (tg.resolve w) red force hho
        obtain ⟨b1, s1⟩ := hk.2 hBI
        exact ⟨⟨b1, hB'⟩, s1⟩
      | none =>
        refine (fun (X : BI M _ ∧ Step M w _) => ⟨⟨X.1, hB'⟩, X.2⟩) ?_
        exact fin_direct_none M w mid (tg.resolve w) _ (fun w t => w.txnCancel t (tg.resolve w) red force) (fs_txnCancel M w { market := mid, client := _ } (tg.resolve w) red force hho)
          (by
            rcases txnCancel_txn w { market := mid, client := _ } (tg.resolve w) red force with h | h
            · exact Or.inl h
            · exact Or.inr (Or.inr (Or.inl ⟨none, h⟩))) ho hBI
    | update tg pers force =>
      have ho := hin tg rfl
      have hho := (hasOrder_iff w _).mpr ho
      cases batch with
      | some t =>
        have hk : FS M w (w.txnUpdate t (tg.resolve w) pers force).1 := fs_txnUpdate M w t (tg.resolve w) pers force hho
        obtain ⟨b1, s1⟩ := hk.2 hBI
        exact ⟨⟨b1, hB'⟩, s1⟩
      | none =>
        refine (fun (X : BI M _ ∧ Step M w _) => ⟨⟨X.1, hB'⟩, X.2⟩) ?_
        exact fin_direct_none M w mid (tg.resolve w) _ (fun w t => w.txnUpdate t (tg.resolve w) pers force) (fs_txnUpdate M w { market := mid, client := _ } (tg.resolve w) pers force hho)
          (by
            rcases txnUpdate_txn w { market := mid, client := _ } (tg.resolve w) pers force with h | h
            · exact Or.inl h
            · exact Or.inr (Or.inr (Or.inr (Or.inl ⟨none, h⟩)))) ho hBI
    | replace tg price v force =>
      have ho := hin tg rfl
      have hho := (hasOrder_iff w _).mpr ho
      cases batch with
      | some t =>
        have hk : FS M w (w.txnReplace t (tg.resolve w) price v force).1 := fs_txnReplace M w t (tg.resolve w) price v force hho
        obtain ⟨b1, s1⟩ := hk.2 hBI
        exact ⟨⟨b1, hB'⟩, s1⟩
      | none =>
        refine (fun (X : BI M _ ∧ Step M w _) => ⟨⟨X.1, hB'⟩, X.2⟩) ?_
        exact fin_direct_none M w mid (tg.resolve w) _ (fun w t => w.txnReplace t (tg.resolve w) price v force) (fs_txnReplace M w { market := mid, client := _ } (tg.resolve w) price v force hho)
          (by
            rcases txnReplace_txn w { market := mid, client := _ } (tg.resolve w) price v force with h | h
            · exact Or.inl h
            · exact Or.inr (Or.inr (Or.inr (Or.inr ⟨v, h⟩)))) ho hBI
    | batchBegin c =>
      cases batch with
      | some t =>
        obtain ⟨b1, s1⟩ := (fs_txnExit M w t (hB t rfl)).2 hBI
        exact ⟨⟨b1, hB'⟩, s1⟩
      | none => exact ⟨⟨hBI, hB'⟩, Step.refl M w⟩
    | batchExecute =>
      cases batch with
      | some t =>
        obtain ⟨b1, s1⟩ := (fs_txnExecute M w t (hB t rfl)).2 hBI
        exact ⟨⟨b1, hB'⟩, s1⟩
      | none => exact ⟨⟨hBI, hB'⟩, Step.refl M w⟩
    | batchEnd =>
      cases batch with
      | some t =>
        obtain ⟨b1, s1⟩ := (fs_txnExit M w t (hB t rfl)).2 hBI
        exact ⟨⟨b1, hB'⟩, s1⟩
      | none => exact ⟨⟨hBI, hB'⟩, Step.refl M w⟩

theorem fs_noteForeign (M : Nat) (w : World) (mid : Nat) (a : Action) : FS M w (w.noteForeign mid a) :=
  FS.of_eq (noteForeign_orders w mid a) (noteForeign_markets w mid a) (sub_of_eq (noteForeign_queue w mid a))

theorem fin_doAction (M : Nat) (w : World) (mid : Nat) (batch : Option Txn) (a : Action) (h : SOk M w batch) :
    SOk M (w.doAction mid batch a).1 (w.doAction mid batch a).2.1 ∧ Step M w (w.doAction mid batch a).1 := by
  unfold doAction
  obtain ⟨b1, s1⟩ := (fs_noteForeign M w mid a).2 h.1
  obtain ⟨g1, g2⟩ := fin_doActionCore M _ mid batch a ⟨b1, fun t ht => (h.2 t ht).keeps (fs_noteForeign M w mid a).1⟩
  exact ⟨g1, s1.trans g2⟩

theorem fs_doActions (M : Nat) (w : World) (mid : Nat) (as : List Action) : FS M w (w.doActions mid as).1 := by
  refine ⟨keeps_doActions w mid as, fun hBI => ?_⟩
  unfold doActions
  simp only
  have h : ∀ (l : List Action) (acc : World × Option Txn × List String), SOk M acc.1 acc.2.1 →
      SOk M (l.foldl (fun (acc : World × Option Txn × List String) a =>
        ((acc.1.doAction mid acc.2.1 a).1, (acc.1.doAction mid acc.2.1 a).2.1, acc.2.2 ++ [(acc.1.doAction mid acc.2.1 a).2.2])) acc).1
        (l.foldl (fun (acc : World × Option Txn × List String) a =>
        ((acc.1.doAction mid acc.2.1 a).1, (acc.1.doAction mid acc.2.1 a).2.1, acc.2.2 ++ [(acc.1.doAction mid acc.2.1 a).2.2])) acc).2.1 ∧
      Step M acc.1 (l.foldl (fun (acc : World × Option Txn × List String) a =>
        ((acc.1.doAction mid acc.2.1 a).1, (acc.1.doAction mid acc.2.1 a).2.1, acc.2.2 ++ [(acc.1.doAction mid acc.2.1 a).2.2])) acc).1 := by
    intro l
    induction l with
    | nil => intro acc h1; exact ⟨h1, Step.refl M _⟩
    | cons a as ih =>
      intro acc h1
      rw [List.foldl_cons]
      obtain ⟨g1, g2⟩ := fin_doAction M acc.1 mid acc.2.1 a h1
      obtain ⟨g3, g4⟩ := ih ((acc.1.doAction mid acc.2.1 a).1, (acc.1.doAction mid acc.2.1 a).2.1, acc.2.2 ++ [(acc.1.doAction mid acc.2.1 a).2.2]) g1
      exact ⟨g3, g2.trans g4⟩
  have h0 : SOk M (w, (none : Option Txn), ([] : List String)).1 (w, (none : Option Txn), ([] : List String)).2.1 := by
    refine ⟨hBI, ?_⟩
    intro t ht; cases ht
  have := h as (w, none, []) h0
  generalize as.foldl _ (w, none, []) = r at this
  obtain ⟨w1, b, outs⟩ := r
  obtain ⟨⟨b1, b2⟩, s1⟩ := this
  cases b with
  | some t =>
    obtain ⟨c1, c2⟩ := (fs_txnExit M w1 t (b2 t rfl)).2 b1
    exact ⟨c1, s1.trans c2⟩
  | none => exact ⟨b1, s1⟩

theorem fs_foldl_pair {α β} (M : Nat) (f : World × β → α → World × β) (hf : ∀ acc a, FS M acc.1 (f acc a).1) (l : List α) (acc : World × β) :
    FS M acc.1 (l.foldl f acc).1 := by
  induction l generalizing acc with
  | nil => exact FS.refl M _
  | cons a as ih => rw [List.foldl_cons]; exact (hf acc a).trans (ih _)

/-- one update of any market `mid`, whatever the strategies do in their callbacks, seen from market M -/
theorem fs_processMarketBook (M : Nat) (w : World) (mid : Nat) (book : Book) (script : Nat → List Action) :
    FS M w (w.processMarketBook mid book script).1 := by
  unfold processMarketBook
  simp only
  have k0 : FS M w (w.setClock book.pt) := FS.of_eq rfl rfl (fun _ hp => hp)
  generalize w.setClock book.pt = w0 at k0
  have k1 : FS M w (if w0.queue.isEmpty = true then w0 else w0.checkPendingPackages mid) := by
    split
    · exact k0
    · exact k0.trans (fs_checkPendingPackages M w0 mid)
  generalize (if w0.queue.isEmpty = true then w0 else w0.checkPendingPackages mid) = w1 at k1
  split
  · exact k1.trans (fs_processCloseMarket M w1 mid book)
  · have k2 : FS M w1 (if (w1.market? mid).isNone = true then
          ({ w1 with markets := w1.markets ++ [({ id := mid, book := some book } : Market)] } : World).emit (.marketEvent mid)
        else if (w1.market! mid).closed = true then w1.modifyMarket mid (fun m => { m with closed := false }) else w1) := by
      split
      · rename_i hnone
        exact (fs_appendMarket M w1 { id := mid, book := some book } hnone rfl rfl).trans (fs_emit M _ _)
      · split
        · exact fs_modifyMarket M w1 mid _ (fun _ => ⟨rfl, rfl, rfl⟩)
        · exact FS.refl M w1
    generalize (if (w1.market? mid).isNone = true then
          ({ w1 with markets := w1.markets ++ [({ id := mid, book := some book } : Market)] } : World).emit (.marketEvent mid)
        else if (w1.market! mid).closed = true then w1.modifyMarket mid (fun m => { m with closed := false }) else w1) = w2 at k2
    have k3 := ((k1.trans k2).trans (fs_modifyMarket M w2 mid (fun m => { m with book := some book }) (fun _ => ⟨rfl, rfl, rfl⟩))).trans (fs_simulatedMiddleware M _ mid)
    generalize (w2.modifyMarket mid (fun m => { m with book := some book })).simulatedMiddleware mid = w3 at k3
    have k4 : FS M w (if (w3.market! mid).active = true then w3.processSimulatedOrders mid else w3) := by
      split
      · exact k3.trans (fs_processSimulatedOrders M w3 mid)
      · exact k3
    generalize (if (w3.market! mid).active = true then w3.processSimulatedOrders mid else w3) = w4 at k4
    -- the strategies' callbacks
    refine k4.trans (fs_foldl_pair M _ ?_ _ _)
    intro acc s
    obtain ⟨wa, outs⟩ := acc
    simp only
    split
    · have : FS M wa (if (w1.market? mid).isNone = true then wa.emit (.newMarket s.id mid) else wa) := by
        split
        · exact fs_emit M _ _
        · exact FS.refl M _
      exact (this.trans (fs_emit M _ _)).trans (fs_doActions M _ mid _)
    · exact FS.refl M _

/-- any run (`Inv.runUpdates`: any markets, in any interleaving), seen from market M -/
theorem fs_runUpdates (M : Nat) (w : World) (us : List (Nat × Book × (Nat → List Action))) : FS M w (runUpdates w us) := by
  unfold runUpdates
  exact fs_foldl M _ (fun w u => fs_processMarketBook M w u.1 u.2.1 u.2.2) us w

theorem bi_empty (M : Nat) (cfg : Config) (cl : List Client) (ss : List Strategy) : BI M { cfg := cfg, clients := cl, strategies := ss } := by
  have hb : (({ cfg := cfg, clients := cl, strategies := ss } : World).market! M).blotter = [] := rfl
  refine ⟨inv_empty cfg cl ss, ?_, ?_⟩
  · intro oid h; rw [hb] at h; cases h
  · intro oid h; rw [hb] at h; cases h

end Flumine.Fin
