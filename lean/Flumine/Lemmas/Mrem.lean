/- Lemmas/Mrem.lean — the markets' own lists of applied runner removals (`World.mrem`) are written by `mwUpdateAnalytics` only (and a
   new market starts with an empty list): every other function of the model leaves them as they are. -/
import Flumine.SimLoop
import Flumine.Lemmas.Inv
import Mathlib.Tactic.SplitIfs
namespace Flumine

/-- every market the framework knows with its own list of runner removals already applied (`Market.removals`:
    `SimulatedMiddleware._market_runner_removals[market_id]`), in order of arrival -/
def World.mrem (w : World) : List (Nat × List (Nat × Rat × Option Rat)) := w.markets.map fun m => (m.id, m.removals)

namespace Mrem
open Flumine Flumine.World

@[simp] theorem modifyOrder_mrem (w : World) (a : Nat) (f : Order → Order) : (w.modifyOrder a f).mrem = w.mrem := rfl
@[simp] theorem setOrder_mrem (w : World) (o : Order) : (w.setOrder o).mrem = w.mrem := rfl
@[simp] theorem setTrade_mrem (w : World) (t : Trade) : (w.setTrade t).mrem = w.mrem := rfl
@[simp] theorem setClient_mrem (w : World) (c : Client) : (w.setClient c).mrem = w.mrem := rfl
theorem modifyMarket_mrem' (w : World) (a : Nat) (f : Market → Market) (hf : ∀ x, (f x).id = x.id ∧ (f x).removals = x.removals) :
    (w.modifyMarket a f).mrem = w.mrem := by
  unfold World.mrem modifyMarket
  simp only [List.map_map]
  apply List.map_congr_left
  intro x _
  simp only [Function.comp]
  split
  · rw [(hf x).1, (hf x).2]
  · rfl
@[simp] theorem emit_mrem (w : World) (e : Ev) : (w.emit e).mrem = w.mrem := rfl
@[simp] theorem bumpBetId_mrem (w : World) : w.bumpBetId.mrem = w.mrem := rfl
@[simp] theorem addTransaction_mrem (w : World) (c n : Nat) (f : Bool) : (w.addTransaction c n f).mrem = w.mrem := rfl
@[simp] theorem blotterAdd_mrem (w : World) (m o : Nat) : (w.blotterAdd m o).mrem = w.mrem := by
  unfold blotterAdd
  show (w.modifyMarket m _).mrem = w.mrem
  exact modifyMarket_mrem' w m _ (fun _ => ⟨rfl, rfl⟩)
@[simp] theorem blotterComplete_mrem (w : World) (m o : Nat) : (w.blotterComplete m o).mrem = w.mrem := modifyMarket_mrem' w m _ (fun _ => ⟨rfl, rfl⟩)
@[simp] theorem setClock_mrem (w : World) (t : Time) : (w.setClock t).mrem = w.mrem := rfl

@[simp] theorem setCtx_mrem (w : World) (c : RunnerCtx) : (w.setCtx c).mrem = w.mrem := by
  unfold setCtx; split <;> rfl
@[simp] theorem ctxPlace_mrem (w : World) (k : CtxKey) (t : Nat) : (w.ctxPlace k t).mrem = w.mrem := setCtx_mrem _ _
@[simp] theorem ctxReset_mrem (w : World) (k : CtxKey) (t : Nat) : (w.ctxReset k t).mrem = w.mrem := setCtx_mrem _ _
@[simp] theorem completeTrade_mrem (w : World) (tid : Nat) : (w.completeTrade tid).mrem = w.mrem := by
  unfold completeTrade; simp
@[simp] theorem tradeUpdateStatus_mrem (w : World) (tid : Nat) (s : TradeStatus) : (w.tradeUpdateStatus tid s).mrem = w.mrem := by
  unfold tradeUpdateStatus
  simp only
  split <;> simp
@[simp] theorem tradeEnter_mrem (w : World) (tid : Nat) : (w.tradeEnter tid).mrem = w.mrem := tradeUpdateStatus_mrem _ _ _
@[simp] theorem tradeExit_mrem (w : World) (tid : Nat) : (w.tradeExit tid).mrem = w.mrem := tradeUpdateStatus_mrem _ _ _
@[simp] theorem orderUpdateStatus_mrem (w : World) (oid : Nat) (s : Status) : (w.orderUpdateStatus oid s).mrem = w.mrem := by
  unfold orderUpdateStatus
  simp only
  split <;> simp
@[simp] theorem orderExecutable_mrem (w : World) (oid : Nat) : (w.orderExecutable oid).mrem = w.mrem := by
  unfold orderExecutable; split <;> simp
@[simp] theorem orderExecutionComplete_mrem (w : World) (oid : Nat) : (w.orderExecutionComplete oid).mrem = w.mrem := by
  unfold orderExecutionComplete; simp
@[simp] theorem orderViolation_mrem (w : World) (oid : Nat) (m : String) : (w.orderViolation oid m).mrem = w.mrem := by
  unfold orderViolation; split <;> simp
@[simp] theorem orderPlacing_mrem (w : World) (oid : Nat) : (w.orderPlacing oid).mrem = w.mrem := orderUpdateStatus_mrem _ _ _

theorem foldl_mrem {α} (f : World → α → World) (hf : ∀ w a, (f w a).mrem = w.mrem) (l : List α) (w : World) :
    (l.foldl f w).mrem = w.mrem := by
  induction l generalizing w with
  | nil => rfl
  | cons a as ih => rw [List.foldl_cons, ih, hf]

theorem foldl_pair_mrem {α β} (f : World × β → α → World × β) (hf : ∀ acc a, (f acc a).1.mrem = acc.1.mrem) (l : List α) (acc : World × β) :
    (l.foldl f acc).1.mrem = acc.1.mrem := by
  induction l generalizing acc with
  | nil => rfl
  | cons a as ih => rw [List.foldl_cons, ih, hf]

theorem orderCancel_mrem (w w' : World) (a : Nat) (r : Option Rat) (h : w.orderCancel a r = .ok w') : w'.mrem = w.mrem := by
  unfold orderCancel at h
  simp only at h
  split_ifs at h
  have := (Except.ok.inj h).symm
  subst this
  unfold orderCancelling; simp
theorem orderUpdate_mrem (w w' : World) (a : Nat) (p : String) (h : w.orderUpdate a p = .ok w') : w'.mrem = w.mrem := by
  unfold orderUpdate at h
  simp only at h
  split_ifs at h
  have := (Except.ok.inj h).symm
  subst this
  unfold orderUpdating; simp
theorem orderReplace_mrem (w w' : World) (a : Nat) (p : Rat) (h : w.orderReplace a p = .ok w') : w'.mrem = w.mrem := by
  unfold orderReplace at h
  simp only at h
  split_ifs at h
  have := (Except.ok.inj h).symm
  subst this
  unfold orderReplacing; simp

@[simp] theorem validateControls_mrem (w : World) (oid cid : Nat) (k : PackKind) : (w.validateControls oid cid k).1.mrem = w.mrem := by
  unfold validateControls
  simp only
  repeat' split
  all_goals simp

theorem addPackage_mrem (k : PackKind) (t : Txn) (d bd : Rat) (w : World) (vc : Option Int × List Nat) :
    (addPackage k t d bd w vc).mrem = w.mrem := rfl

@[simp] theorem createPackages_mrem (w : World) (t : Txn) (p : List (Nat × Option Int)) (k : PackKind) :
    (w.createPackages t p k).mrem = w.mrem := by
  unfold createPackages
  exact foldl_mrem _ (fun w vc => addPackage_mrem k t _ _ w vc) _ w

@[simp] theorem txnExecute_mrem (w : World) (t : Txn) : (w.txnExecute t).1.mrem = w.mrem := by
  unfold txnExecute
  simp only
  have h : ∀ (w : World) (c : Bool) (p : List (Nat × Option Int)) (k : PackKind), (if c then w else w.createPackages t p k).mrem = w.mrem := by
    intro w c p k; split <;> simp
  rw [h, h, h, h]

@[simp] theorem txnExit_mrem (w : World) (t : Txn) : (w.txnExit t).mrem = w.mrem := by
  unfold txnExit; split <;> simp

@[simp] theorem txnPlace_mrem (w : World) (t : Txn) (oid : Nat) (v : Option Int) (ex force : Bool) :
    (w.txnPlace t oid v ex force).1.mrem = w.mrem := by
  unfold txnPlace
  simp only
  have hv : (if (ex && !force) = true then (w.modifyOrder oid fun o => { o with client := some t.client }).validateControls oid t.client .place
      else (w.modifyOrder oid fun o => { o with client := some t.client }, none)).1.mrem = w.mrem := by
    split <;> simp
  generalize (if (ex && !force) = true then (w.modifyOrder oid fun o => { o with client := some t.client }).validateControls oid t.client .place
    else (w.modifyOrder oid fun o => { o with client := some t.client }, none)) = vr at hv
  obtain ⟨w1, r⟩ := vr
  simp only at hv ⊢
  cases r with
  | some r => exact hv
  | none =>
    simp only
    repeat' split
    all_goals simp [hv]

theorem txnCancel_mrem (w : World) (t : Txn) (oid : Nat) (red : Option Rat) (f : Bool) : (w.txnCancel t oid red f).1.mrem = w.mrem := by
  unfold txnCancel
  simp only
  split
  · rfl
  · have hv : (if (!f) = true then w.validateControls oid t.client .cancel else (w, none)).1.mrem = w.mrem := by split <;> simp
    generalize (if (!f) = true then w.validateControls oid t.client .cancel else (w, none)) = vr at hv
    obtain ⟨w1, r⟩ := vr
    cases r with
    | some r => exact hv
    | none =>
      simp only at hv ⊢
      cases h : w1.orderCancel oid red with
      | error e => exact hv
      | ok w2 => exact (orderCancel_mrem w1 w2 oid red h).trans hv

theorem txnUpdate_mrem (w : World) (t : Txn) (oid : Nat) (p : String) (f : Bool) : (w.txnUpdate t oid p f).1.mrem = w.mrem := by
  unfold txnUpdate
  simp only
  split
  · rfl
  · have hv : (if (!f) = true then w.validateControls oid t.client .update else (w, none)).1.mrem = w.mrem := by split <;> simp
    generalize (if (!f) = true then w.validateControls oid t.client .update else (w, none)) = vr at hv
    obtain ⟨w1, r⟩ := vr
    cases r with
    | some r => exact hv
    | none =>
      simp only at hv ⊢
      cases h : w1.orderUpdate oid p with
      | error e => exact hv
      | ok w2 => exact (orderUpdate_mrem w1 w2 oid p h).trans hv

theorem txnReplace_mrem (w : World) (t : Txn) (oid : Nat) (p : Rat) (v : Option Int) (f : Bool) : (w.txnReplace t oid p v f).1.mrem = w.mrem := by
  unfold txnReplace
  simp only
  split
  · rfl
  · have hv : (if (!f) = true then w.validateControls oid t.client .replace else (w, none)).1.mrem = w.mrem := by split <;> simp
    generalize (if (!f) = true then w.validateControls oid t.client .replace else (w, none)) = vr at hv
    obtain ⟨w1, r⟩ := vr
    cases r with
    | some r => exact hv
    | none =>
      simp only at hv ⊢
      cases h : w1.orderReplace oid p with
      | error e => exact hv
      | ok w2 => exact (orderReplace_mrem w1 w2 oid p h).trans hv

/-! ### simulated execution -/

@[simp] theorem logPlaced_mrem (w : World) (oid : Nat) (b : Option Nat) : (w.logPlaced oid b).mrem = w.mrem := by
  unfold logPlaced; cases b <;> simp

@[simp] theorem placeStep_mrem (p : Package) (w : World) (oid : Nat) : (placeStep p w oid).mrem = w.mrem := by
  unfold placeStep
  simp only
  split <;> simp

@[simp] theorem cancelStep_mrem (p : Package) (acc : World × Nat) (oid : Nat) : (cancelStep p acc oid).1.mrem = acc.1.mrem := by
  obtain ⟨w, failed⟩ := acc
  unfold cancelStep
  simp only
  repeat' split
  all_goals simp

@[simp] theorem updateStep_mrem (p : Package) (acc : World × Nat) (oid : Nat) : (updateStep p acc oid).1.mrem = acc.1.mrem := by
  obtain ⟨w, failed⟩ := acc
  unfold updateStep
  simp

@[simp] theorem createReplacement_mrem (w : World) (oid : Nat) (np sz : Rat) (cr : Time) : (w.createReplacement oid np sz cr).1.mrem = w.mrem := rfl

@[simp] theorem replacePlace_mrem (p : Package) (w : World) (o : Order) (oid : Nat) (book : Book) (np : Option Rat) (sc : Rat) (failed : Nat) :
    (replacePlace p w o oid book np sc failed).1.mrem = w.mrem := by
  unfold replacePlace
  simp only
  split <;> simp

@[simp] theorem replaceStep_mrem (p : Package) (acc : World × Nat) (pr : Nat × Option Rat) : (replaceStep p acc pr).1.mrem = acc.1.mrem := by
  obtain ⟨w, failed⟩ := acc
  obtain ⟨oid, np⟩ := pr
  unfold replaceStep
  simp only
  split <;> simp

@[simp] theorem executePackage_mrem (w : World) (p : Package) : (w.executePackage p).mrem = w.mrem := by
  unfold executePackage
  cases p.kind with
  | place =>
    simp only; unfold executePlace
    simp only [addTransaction_mrem]
    exact foldl_mrem _ (fun w oid => placeStep_mrem p w oid) _ w
  | cancel =>
    simp only; unfold executeCancel
    simp only
    have := foldl_pair_mrem (cancelStep p) (fun acc oid => cancelStep_mrem p acc oid) (w.packageOrders p) (w, 0)
    generalize (w.packageOrders p).foldl (cancelStep p) (w, 0) = r at this
    obtain ⟨w1, failed⟩ := r
    simp only at this ⊢
    split <;> simp [this]
  | update =>
    simp only; unfold executeUpdate
    simp only
    have := foldl_pair_mrem (updateStep p) (fun acc oid => updateStep_mrem p acc oid) (w.packageOrders p) (w, 0)
    generalize (w.packageOrders p).foldl (updateStep p) (w, 0) = r at this
    obtain ⟨w1, failed⟩ := r
    simp only at this ⊢
    split <;> simp [this]
  | replace =>
    simp only; unfold executeReplace
    simp only
    generalize (((w.packageOrders p).filter fun oid => (w.order! oid).status ≠ some .executionComplete).map fun oid => (oid, (w.order! oid).ud.newPrice)) = zs
    have := foldl_pair_mrem (replaceStep p) (fun acc pr => replaceStep_mrem p acc pr) zs (w, 0)
    generalize zs.foldl (replaceStep p) (w, 0) = r at this
    obtain ⟨w1, failed⟩ := r
    simp only at this ⊢
    split <;> simp [this]

@[simp] theorem checkPendingPackages_mrem (w : World) (mid : Nat) : (w.checkPendingPackages mid).mrem = w.mrem := by
  unfold checkPendingPackages
  simp only
  exact foldl_mrem _ (fun w p => executePackage_mrem w p) _ w

/-! ### middleware, completion loop, closure -/

@[simp] theorem processRunnerRemoval_mrem (w : World) (mid rsel : Nat) (rhc : Rat) (raf : Option Rat) :
    (w.processRunnerRemoval mid rsel rhc raf).mrem = w.mrem := by
  unfold processRunnerRemoval
  simp only
  exact foldl_mrem (fun w1 oid => w1.modifyOrder oid (w1.removalOnOrder (w.market! mid) rsel rhc raf)) (fun w oid => rfl) _ w

@[simp] theorem matchStep_mrem (mid : Nat) (r : Bool) (acc : World × List (Nat × Rat × List (Rat × Rat))) (o0 : Order) :
    (matchStep mid r acc o0).1.mrem = acc.1.mrem := by
  obtain ⟨w, lk⟩ := acc
  unfold matchStep
  simp only
  repeat' split
  all_goals simp

@[simp] theorem matchOrders_mrem (w : World) (mid : Nat) (l : List Order) (r : Bool) : (w.matchOrders mid l r).mrem = w.mrem := by
  unfold matchOrders
  exact foldl_pair_mrem _ (fun acc o => matchStep_mrem mid r acc o) l _

@[simp] theorem matchStrategy_mrem (mid : Nat) (w : World) (sid : Nat) : (matchStrategy mid w sid).mrem = w.mrem := by
  unfold matchStrategy
  simp only
  split <;> simp

@[simp] theorem mwProcessSimulatedOrders_mrem (w : World) (mid : Nat) : (w.mwProcessSimulatedOrders mid).mrem = w.mrem := by
  unfold mwProcessSimulatedOrders
  simp only
  split
  · exact foldl_mrem _ (fun w sid => matchStrategy_mrem mid w sid) _ w
  · split <;> simp

@[simp] theorem processSimulatedOrders_mrem (w : World) (mid : Nat) : (w.processSimulatedOrders mid).mrem = w.mrem := by
  unfold processSimulatedOrders
  simp only
  rw [foldl_mrem, foldl_mrem]
  · intro w oid
    repeat' split
    all_goals simp
  · intro w s
    split <;> simp

@[simp] theorem blotterProcessClosed_mrem (w : World) (mid : Nat) (book : Book) : (w.blotterProcessClosed mid book).mrem = w.mrem := by
  unfold blotterProcessClosed
  simp only
  apply foldl_mrem
  intro w oid
  split <;> simp

@[simp] theorem processCloseMarket_mrem (w : World) (mid : Nat) (book : Book) : (w.processCloseMarket mid book).mrem = w.mrem := by
  unfold processCloseMarket
  split
  · rfl
  · rename_i m hm
    have h0 : (if (!m.closed) = true then w.modifyMarket mid (fun m => { m with closed := true, closedAt := some w.clock }) else w).mrem = w.mrem := by
      split
      · exact modifyMarket_mrem' w mid _ (fun _ => ⟨rfl, rfl⟩)
      · rfl
    generalize (if (!m.closed) = true then w.modifyMarket mid (fun m => { m with closed := true, closedAt := some w.clock }) else w) = wa at h0
    have h1 : ((wa.modifyMarket mid fun m => { m with book := some book }).blotterProcessClosed mid book).mrem = w.mrem := by
      rw [blotterProcessClosed_mrem, modifyMarket_mrem' wa mid (fun m => { m with book := some book }) (fun _ => ⟨rfl, rfl⟩), h0]
    simp only
    generalize (wa.modifyMarket mid fun m => { m with book := some book }).blotterProcessClosed mid book = wb at h1
    have := modifyMarket_mrem' ({ wb with out := wb.out ++ wb.closeCallbacks mid book ++ wb.clearedEvents mid ++ [Ev.closeEvent mid] } : World) mid
      (fun m => { m with analytics := [], hasAnalytics := false }) (fun _ => ⟨rfl, rfl⟩)
    exact this.trans h1

/-! ### scripted actions and whole updates: the counter never decreases -/

theorem doActionCore_mrem (w : World) (mid : Nat) (batch : Option Txn) (a : Action) : (w.doActionCore mid batch a).1.mrem = w.mrem := by
  unfold doActionCore
  simp only
  split
  · rfl
  · cases a with
    | create o tr => cases tr <;> rfl
    | place tg v force => cases batch <;> simp
    | cancel tg red force => cases batch <;> simp [txnCancel_mrem]
    | update tg pers force => cases batch <;> simp [txnUpdate_mrem]
    | replace tg price v force => cases batch <;> simp [txnReplace_mrem]
    | batchBegin c => cases batch <;> simp
    | batchExecute => cases batch <;> simp
    | batchEnd => cases batch <;> simp


@[simp] theorem noteForeign_mrem (w : World) (mid : Nat) (a : Action) : (w.noteForeign mid a).mrem = w.mrem := by
  unfold noteForeign; split <;> rfl

@[simp] theorem doAction_mrem (w : World) (mid : Nat) (batch : Option Txn) (a : Action) : (w.doAction mid batch a).1.mrem = w.mrem := by
  unfold doAction; rw [doActionCore_mrem]; simp

@[simp] theorem doActions_mrem (w : World) (mid : Nat) (as : List Action) : (w.doActions mid as).1.mrem = w.mrem := by
  unfold doActions
  simp only
  have : ∀ (l : List Action) (acc : World × Option Txn × List String),
      (l.foldl (fun (acc : World × Option Txn × List String) a =>
        ((acc.1.doAction mid acc.2.1 a).1, (acc.1.doAction mid acc.2.1 a).2.1, acc.2.2 ++ [(acc.1.doAction mid acc.2.1 a).2.2])) acc).1.mrem = acc.1.mrem := by
    intro l
    induction l with
    | nil => intro acc; rfl
    | cons a as ih => intro acc; rw [List.foldl_cons, ih]; simp
  have h := this as (w, none, [])
  generalize as.foldl _ (w, none, []) = r at h
  obtain ⟨w1, b, outs⟩ := r
  cases b with
  | some t => simpa using h
  | none => exact h

end Mrem
end Flumine
