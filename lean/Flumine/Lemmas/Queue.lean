/- Lemmas/Queue.lean — the handler queue is written by `addPackage` (`Transaction.execute`) and by
   `_check_pending_packages` only: requests, response handlers, middleware, completion loop and closure leave it alone. -/
import Flumine.SimLoop
import Mathlib.Tactic.SplitIfs
namespace Flumine.Qu
open Flumine Flumine.World

@[simp] theorem modifyOrder_queue (w : World) (a : Nat) (f : Order → Order) : (w.modifyOrder a f).queue = w.queue := rfl
@[simp] theorem setOrder_queue (w : World) (o : Order) : (w.setOrder o).queue = w.queue := rfl
@[simp] theorem setTrade_queue (w : World) (t : Trade) : (w.setTrade t).queue = w.queue := rfl
@[simp] theorem setMarket_queue (w : World) (m : Market) : (w.setMarket m).queue = w.queue := rfl
@[simp] theorem setClient_queue (w : World) (c : Client) : (w.setClient c).queue = w.queue := rfl
@[simp] theorem modifyMarket_queue (w : World) (a : Nat) (f : Market → Market) : (w.modifyMarket a f).queue = w.queue := rfl
@[simp] theorem emit_queue (w : World) (e : Ev) : (w.emit e).queue = w.queue := rfl
@[simp] theorem bumpBetId_queue (w : World) : w.bumpBetId.queue = w.queue := rfl
@[simp] theorem addTransaction_queue (w : World) (c n : Nat) (f : Bool) : (w.addTransaction c n f).queue = w.queue := rfl
@[simp] theorem blotterAdd_queue (w : World) (m o : Nat) : (w.blotterAdd m o).queue = w.queue := rfl
@[simp] theorem blotterComplete_queue (w : World) (m o : Nat) : (w.blotterComplete m o).queue = w.queue := rfl
@[simp] theorem setClock_queue (w : World) (t : Time) : (w.setClock t).queue = w.queue := rfl

@[simp] theorem setCtx_queue (w : World) (c : RunnerCtx) : (w.setCtx c).queue = w.queue := by
  unfold setCtx; split <;> rfl
@[simp] theorem ctxPlace_queue (w : World) (k : CtxKey) (t : Nat) : (w.ctxPlace k t).queue = w.queue := setCtx_queue _ _
@[simp] theorem ctxReset_queue (w : World) (k : CtxKey) (t : Nat) : (w.ctxReset k t).queue = w.queue := setCtx_queue _ _
@[simp] theorem completeTrade_queue (w : World) (tid : Nat) : (w.completeTrade tid).queue = w.queue := by
  unfold completeTrade; simp
@[simp] theorem tradeUpdateStatus_queue (w : World) (tid : Nat) (s : TradeStatus) : (w.tradeUpdateStatus tid s).queue = w.queue := by
  unfold tradeUpdateStatus
  simp only
  split <;> simp
@[simp] theorem tradeEnter_queue (w : World) (tid : Nat) : (w.tradeEnter tid).queue = w.queue := tradeUpdateStatus_queue _ _ _
@[simp] theorem tradeExit_queue (w : World) (tid : Nat) : (w.tradeExit tid).queue = w.queue := tradeUpdateStatus_queue _ _ _
@[simp] theorem orderUpdateStatus_queue (w : World) (oid : Nat) (s : Status) : (w.orderUpdateStatus oid s).queue = w.queue := by
  unfold orderUpdateStatus
  simp only
  split <;> simp
@[simp] theorem orderExecutable_queue (w : World) (oid : Nat) : (w.orderExecutable oid).queue = w.queue := by
  unfold orderExecutable; split <;> simp
@[simp] theorem orderExecutionComplete_queue (w : World) (oid : Nat) : (w.orderExecutionComplete oid).queue = w.queue := by
  unfold orderExecutionComplete; simp
@[simp] theorem orderViolation_queue (w : World) (oid : Nat) (m : String) : (w.orderViolation oid m).queue = w.queue := by
  unfold orderViolation; split <;> simp
@[simp] theorem orderPlacing_queue (w : World) (oid : Nat) : (w.orderPlacing oid).queue = w.queue := orderUpdateStatus_queue _ _ _

theorem foldl_queue {α} (f : World → α → World) (hf : ∀ w a, (f w a).queue = w.queue) (l : List α) (w : World) :
    (l.foldl f w).queue = w.queue := by
  induction l generalizing w with
  | nil => rfl
  | cons a as ih => rw [List.foldl_cons, ih, hf]

theorem foldl_pair_queue {α β} (f : World × β → α → World × β) (hf : ∀ acc a, (f acc a).1.queue = acc.1.queue) (l : List α) (acc : World × β) :
    (l.foldl f acc).1.queue = acc.1.queue := by
  induction l generalizing acc with
  | nil => rfl
  | cons a as ih => rw [List.foldl_cons, ih, hf]

theorem orderCancel_queue (w w' : World) (a : Nat) (r : Option Rat) (h : w.orderCancel a r = .ok w') : w'.queue = w.queue := by
  unfold orderCancel at h
  simp only at h
  split_ifs at h
  have := (Except.ok.inj h).symm
  subst this
  unfold orderCancelling; simp
theorem orderUpdate_queue (w w' : World) (a : Nat) (p : String) (h : w.orderUpdate a p = .ok w') : w'.queue = w.queue := by
  unfold orderUpdate at h
  simp only at h
  split_ifs at h
  have := (Except.ok.inj h).symm
  subst this
  unfold orderUpdating; simp
theorem orderReplace_queue (w w' : World) (a : Nat) (p : Rat) (h : w.orderReplace a p = .ok w') : w'.queue = w.queue := by
  unfold orderReplace at h
  simp only at h
  split_ifs at h
  have := (Except.ok.inj h).symm
  subst this
  unfold orderReplacing; simp

@[simp] theorem validateControls_queue (w : World) (oid cid : Nat) (k : PackKind) : (w.validateControls oid cid k).1.queue = w.queue := by
  unfold validateControls
  simp only
  repeat' split
  all_goals simp

@[simp] theorem txnPlace_queue (w : World) (t : Txn) (oid : Nat) (v : Option Int) (ex force : Bool) :
    (w.txnPlace t oid v ex force).1.queue = w.queue := by
  unfold txnPlace
  simp only
  have hv : (if (ex && !force) = true then (w.modifyOrder oid fun o => { o with client := some t.client }).validateControls oid t.client .place
      else (w.modifyOrder oid fun o => { o with client := some t.client }, none)).1.queue = w.queue := by
    split <;> simp
  generalize (if (ex && !force) = true then (w.modifyOrder oid fun o => { o with client := some t.client }).validateControls oid t.client .place
    else (w.modifyOrder oid fun o => { o with client := some t.client }, none)) = vr at hv
  obtain ⟨w1, r⟩ := vr
  simp only at hv ⊢
  cases r with
  | some r => exact hv
  | none =>
    simp only
    repeat' split
    all_goals simp [hv]

theorem txnCancel_queue (w : World) (t : Txn) (oid : Nat) (red : Option Rat) (f : Bool) : (w.txnCancel t oid red f).1.queue = w.queue := by
  unfold txnCancel
  simp only
  split
  · rfl
  · have hv : (if (!f) = true then w.validateControls oid t.client .cancel else (w, none)).1.queue = w.queue := by split <;> simp
    generalize (if (!f) = true then w.validateControls oid t.client .cancel else (w, none)) = vr at hv
    obtain ⟨w1, r⟩ := vr
    cases r with
    | some r => exact hv
    | none =>
      simp only at hv ⊢
      cases h : w1.orderCancel oid red with
      | error e => exact hv
      | ok w2 => exact (orderCancel_queue w1 w2 oid red h).trans hv

theorem txnUpdate_queue (w : World) (t : Txn) (oid : Nat) (p : String) (f : Bool) : (w.txnUpdate t oid p f).1.queue = w.queue := by
  unfold txnUpdate
  simp only
  split
  · rfl
  · have hv : (if (!f) = true then w.validateControls oid t.client .update else (w, none)).1.queue = w.queue := by split <;> simp
    generalize (if (!f) = true then w.validateControls oid t.client .update else (w, none)) = vr at hv
    obtain ⟨w1, r⟩ := vr
    cases r with
    | some r => exact hv
    | none =>
      simp only at hv ⊢
      cases h : w1.orderUpdate oid p with
      | error e => exact hv
      | ok w2 => exact (orderUpdate_queue w1 w2 oid p h).trans hv

theorem txnReplace_queue (w : World) (t : Txn) (oid : Nat) (p : Rat) (v : Option Int) (f : Bool) : (w.txnReplace t oid p v f).1.queue = w.queue := by
  unfold txnReplace
  simp only
  split
  · rfl
  · have hv : (if (!f) = true then w.validateControls oid t.client .replace else (w, none)).1.queue = w.queue := by split <;> simp
    generalize (if (!f) = true then w.validateControls oid t.client .replace else (w, none)) = vr at hv
    obtain ⟨w1, r⟩ := vr
    cases r with
    | some r => exact hv
    | none =>
      simp only at hv ⊢
      cases h : w1.orderReplace oid p with
      | error e => exact hv
      | ok w2 => exact (orderReplace_queue w1 w2 oid p h).trans hv

/-! ### simulated execution -/

@[simp] theorem logPlaced_queue (w : World) (oid : Nat) (b : Option Nat) : (w.logPlaced oid b).queue = w.queue := by
  unfold logPlaced; cases b <;> simp

@[simp] theorem placeStep_queue (p : Package) (w : World) (oid : Nat) : (placeStep p w oid).queue = w.queue := by
  unfold placeStep
  simp only
  split <;> simp

@[simp] theorem cancelStep_queue (p : Package) (acc : World × Nat) (oid : Nat) : (cancelStep p acc oid).1.queue = acc.1.queue := by
  obtain ⟨w, failed⟩ := acc
  unfold cancelStep
  simp only
  repeat' split
  all_goals simp

@[simp] theorem updateStep_queue (p : Package) (acc : World × Nat) (oid : Nat) : (updateStep p acc oid).1.queue = acc.1.queue := by
  obtain ⟨w, failed⟩ := acc
  unfold updateStep
  simp

@[simp] theorem createReplacement_queue (w : World) (oid : Nat) (np sz : Rat) (cr : Time) : (w.createReplacement oid np sz cr).1.queue = w.queue := rfl

@[simp] theorem replacePlace_queue (p : Package) (w : World) (o : Order) (oid : Nat) (book : Book) (np : Option Rat) (sc : Rat) (failed : Nat) :
    (replacePlace p w o oid book np sc failed).1.queue = w.queue := by
  unfold replacePlace
  simp only
  split <;> simp

@[simp] theorem replaceStep_queue (p : Package) (acc : World × Nat) (pr : Nat × Option Rat) : (replaceStep p acc pr).1.queue = acc.1.queue := by
  obtain ⟨w, failed⟩ := acc
  obtain ⟨oid, np⟩ := pr
  unfold replaceStep
  simp only
  split <;> simp

@[simp] theorem executePackage_queue (w : World) (p : Package) : (w.executePackage p).queue = w.queue := by
  unfold executePackage
  cases p.kind with
  | place =>
    simp only; unfold executePlace
    simp only [addTransaction_queue]
    exact foldl_queue _ (fun w oid => placeStep_queue p w oid) _ w
  | cancel =>
    simp only; unfold executeCancel
    simp only
    have := foldl_pair_queue (cancelStep p) (fun acc oid => cancelStep_queue p acc oid) (w.packageOrders p) (w, 0)
    generalize (w.packageOrders p).foldl (cancelStep p) (w, 0) = r at this
    obtain ⟨w1, failed⟩ := r
    simp only at this ⊢
    split <;> simp [this]
  | update =>
    simp only; unfold executeUpdate
    simp only
    have := foldl_pair_queue (updateStep p) (fun acc oid => updateStep_queue p acc oid) (w.packageOrders p) (w, 0)
    generalize (w.packageOrders p).foldl (updateStep p) (w, 0) = r at this
    obtain ⟨w1, failed⟩ := r
    simp only at this ⊢
    split <;> simp [this]
  | replace =>
    simp only; unfold executeReplace
    simp only
    generalize (((w.packageOrders p).filter fun oid => (w.order! oid).status ≠ some .executionComplete).map fun oid => (oid, (w.order! oid).ud.newPrice)) = zs
    have := foldl_pair_queue (replaceStep p) (fun acc pr => replaceStep_queue p acc pr) zs (w, 0)
    generalize zs.foldl (replaceStep p) (w, 0) = r at this
    obtain ⟨w1, failed⟩ := r
    simp only at this ⊢
    split <;> simp [this]

/-! ### middleware, completion loop, closure -/

@[simp] theorem processRunnerRemoval_queue (w : World) (mid rsel : Nat) (rhc : Rat) (raf : Option Rat) :
    (w.processRunnerRemoval mid rsel rhc raf).queue = w.queue := by
  unfold processRunnerRemoval
  simp only
  exact foldl_queue (fun w1 oid => w1.modifyOrder oid (w1.removalOnOrder (w.market! mid) rsel rhc raf)) (fun w oid => rfl) _ w

@[simp] theorem matchStep_queue (mid : Nat) (r : Bool) (acc : World × List (Nat × Rat × List (Rat × Rat))) (o0 : Order) :
    (matchStep mid r acc o0).1.queue = acc.1.queue := by
  obtain ⟨w, lk⟩ := acc
  unfold matchStep
  simp only
  repeat' split
  all_goals simp

@[simp] theorem matchOrders_queue (w : World) (mid : Nat) (l : List Order) (r : Bool) : (w.matchOrders mid l r).queue = w.queue := by
  unfold matchOrders
  exact foldl_pair_queue _ (fun acc o => matchStep_queue mid r acc o) l _

@[simp] theorem matchStrategy_queue (mid : Nat) (w : World) (sid : Nat) : (matchStrategy mid w sid).queue = w.queue := by
  unfold matchStrategy
  simp only
  split <;> simp

@[simp] theorem mwProcessSimulatedOrders_queue (w : World) (mid : Nat) : (w.mwProcessSimulatedOrders mid).queue = w.queue := by
  unfold mwProcessSimulatedOrders
  simp only
  split
  · exact foldl_queue _ (fun w sid => matchStrategy_queue mid w sid) _ w
  · split <;> simp

@[simp] theorem mwUpdateAnalytics_queue (w : World) (mid : Nat) : (w.mwUpdateAnalytics mid).1.queue = w.queue := rfl

@[simp] theorem simulatedMiddleware_queue (w : World) (mid : Nat) : (w.simulatedMiddleware mid).queue = w.queue := by
  unfold simulatedMiddleware
  simp only
  have h : (List.foldl (fun w (k : Nat × Rat × Option Rat) => w.processRunnerRemoval mid k.1 k.2.1 k.2.2) (w.mwUpdateAnalytics mid).1 (w.mwUpdateAnalytics mid).2).queue = w.queue := by
    rw [foldl_queue (fun w (k : Nat × Rat × Option Rat) => w.processRunnerRemoval mid k.1 k.2.1 k.2.2) (fun w k => processRunnerRemoval_queue w mid k.1 k.2.1 k.2.2)]; rfl
  split <;> simp [h]

@[simp] theorem processSimulatedOrders_queue (w : World) (mid : Nat) : (w.processSimulatedOrders mid).queue = w.queue := by
  unfold processSimulatedOrders
  simp only
  rw [foldl_queue, foldl_queue]
  · intro w oid
    repeat' split
    all_goals simp
  · intro w s
    split <;> simp

@[simp] theorem blotterProcessClosed_queue (w : World) (mid : Nat) (book : Book) : (w.blotterProcessClosed mid book).queue = w.queue := by
  unfold blotterProcessClosed
  simp only
  apply foldl_queue
  intro w oid
  split <;> simp

@[simp] theorem processCloseMarket_queue (w : World) (mid : Nat) (book : Book) : (w.processCloseMarket mid book).queue = w.queue := by
  unfold processCloseMarket
  split
  · rfl
  · simp only
    split <;> simp


end Flumine.Qu
