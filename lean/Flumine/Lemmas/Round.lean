/- Lemmas/Round.lean — rounding error bounds for `round2` / `roundHalfEven`. -/
import Flumine.Num
import Mathlib.Tactic.Linarith
import Mathlib.Tactic.Ring
import Mathlib.Tactic.SplitIfs
namespace Flumine

theorem absR_le_iff (a c : Rat) : absR a ≤ c ↔ (-c ≤ a ∧ a ≤ c) := by
  unfold absR; split_ifs with h <;> constructor <;> intro h1 <;> (try constructor) <;> (try obtain ⟨h2, h3⟩ := h1) <;> linarith

theorem absR_nonneg (a : Rat) : 0 ≤ absR a := by
  unfold absR; split_ifs with h <;> linarith

theorem roundHalfEven_err (y : Rat) : absR ((roundHalfEven y : Rat) - y) ≤ 1 / 2 := by
  have h1 := Rat.floor_le y
  have h2 := Rat.lt_floor_add_one y
  push_cast at h2
  rw [absR_le_iff]
  unfold roundHalfEven
  simp only
  split_ifs with a b c <;> push_cast <;> constructor <;> linarith

/-- the code rounds to 2dp: at most half a penny away from the exact value -/
theorem round2_err (x : Rat) : absR (round2 x - x) ≤ 1 / 200 := by
  have h := roundHalfEven_err (x * 100)
  rw [absR_le_iff] at h ⊢
  unfold round2
  obtain ⟨h1, h2⟩ := h
  constructor
  · have : (roundHalfEven (x * 100) : Rat) / 100 = (roundHalfEven (x * 100) : Rat) * (1 / 100) := by ring
    rw [this]; linarith
  · have : (roundHalfEven (x * 100) : Rat) / 100 = (roundHalfEven (x * 100) : Rat) * (1 / 100) := by ring
    rw [this]; linarith

end Flumine
