/-
  C02 — Refused requests change nothing; accepted requests are sent exactly once.
  Model: Txn.lean (txnPlace / txnCancel / txnUpdate / txnReplace, validateControls, chunks,
  groupByVersion, packsOf, createPackages, txnExecute, txnExit).
-/
import Flumine.Txn
import Flumine.Lemmas.OrderLemmas
import Flumine.Props.C03
namespace Flumine.C02
open Flumine Flumine.World Flumine.OL

/-! ### chunks: `utils.chunks(l, n)` -/

theorem chunks_flatten {α} (l : List α) (n : Nat) : (chunks l n).flatten = l := by
  fun_induction chunks l n with
  | case1 h => simp
  | case2 l h hl => simp
  | case3 l h _ ih => rw [List.flatten_cons, ih, List.take_append_drop]

theorem chunks_bound {α} (l : List α) (n : Nat) (hn : 0 < n) : ∀ c ∈ chunks l n, c.length ≤ n ∧ c ≠ [] := by
  fun_induction chunks l n with
  | case1 h => simp
  | case2 l h hl =>
    rcases h with h | h
    · omega
    · exact absurd h hl
  | case3 l h _ ih =>
    intro c hc
    rcases List.mem_cons.mp hc with e | e
    · subst e
      refine ⟨by simp only [List.length_take]; omega, ?_⟩
      intro e
      have hl : l ≠ [] := fun e' => h (Or.inr e')
      have h0 : (l.take n).length = 0 := by rw [e]; rfl
      simp only [List.length_take] at h0
      have : 0 < l.length := List.length_pos_iff.mpr hl
      omega
    · exact ih c e

/-! ### grouping by market version -/

def keys (g : List (Option Int × List Nat)) : List (Option Int) := g.map (·.1)

/-- the orders filed under version v -/
def getGroup (g : List (Option Int × List Nat)) (v : Option Int) : List Nat :=
  ((g.find? fun x => x.1 = v).map (·.2)).getD []

def gstep (acc : List (Option Int × List Nat)) (ov : Nat × Option Int) : List (Option Int × List Nat) :=
  if acc.any (·.1 = ov.2) then acc.map fun g => if g.1 = ov.2 then (g.1, g.2 ++ [ov.1]) else g
  else acc ++ [(ov.2, [ov.1])]

theorem groupByVersion_eq (l : List (Nat × Option Int)) : groupByVersion l = l.foldl gstep [] := rfl

theorem gstep_keys (acc : List (Option Int × List Nat)) (ov : Nat × Option Int) :
    keys (gstep acc ov) = if ov.2 ∈ keys acc then keys acc else keys acc ++ [ov.2] := by
  unfold gstep keys
  by_cases h : acc.any (·.1 = ov.2) = true
  · rw [if_pos h]
    have hm : ov.2 ∈ acc.map (·.1) := by
      simp only [List.any_eq_true, decide_eq_true_eq] at h
      obtain ⟨x, hx, e⟩ := h
      exact List.mem_map.mpr ⟨x, hx, e⟩
    rw [if_pos hm, List.map_map]
    apply List.map_congr_left
    intro g _
    simp only [Function.comp]
    split <;> rfl
  · rw [if_neg h]
    have hm : ¬ ov.2 ∈ acc.map (·.1) := by
      intro hm
      obtain ⟨x, hx, e⟩ := List.mem_map.mp hm
      apply h
      simp only [List.any_eq_true, decide_eq_true_eq]
      exact ⟨x, hx, e⟩
    rw [if_neg hm]; simp

theorem gstep_nodup (acc : List (Option Int × List Nat)) (ov : Nat × Option Int) (h : (keys acc).Nodup) :
    (keys (gstep acc ov)).Nodup := by
  rw [gstep_keys]
  split
  · exact h
  · rename_i hm
    exact List.nodup_append.mpr ⟨h, by simp, by
      intro a ha b hb; simp only [List.mem_singleton] at hb; subst hb; intro e; subst e; exact hm ha⟩

theorem find_map_key (acc : List (Option Int × List Nat)) (v w : Option Int) (o : Nat) :
    ((acc.map fun g => if g.1 = w then (g.1, g.2 ++ [o]) else g).find? fun x => x.1 = v) =
      (acc.find? fun x => x.1 = v).map fun g => if g.1 = w then (g.1, g.2 ++ [o]) else g := by
  induction acc with
  | nil => rfl
  | cons x xs ih =>
    simp only [List.map_cons, List.find?_cons]
    have hk : (if x.1 = w then (x.1, x.2 ++ [o]) else x).1 = x.1 := by split <;> rfl
    rw [hk]
    by_cases hx : x.1 = v
    · simp [hx]
    · simp only [hx, decide_false]; exact ih

theorem gstep_group (acc : List (Option Int × List Nat)) (ov : Nat × Option Int) (v : Option Int) :
    getGroup (gstep acc ov) v = getGroup acc v ++ (if ov.2 = v then [ov.1] else []) := by
  unfold gstep getGroup
  by_cases h : acc.any (·.1 = ov.2) = true
  · rw [if_pos h, find_map_key]
    cases hf : acc.find? (fun x => x.1 = v) with
    | none => simp only [Option.map_none, Option.getD_none, List.nil_append]
              -- v is not a key, ov.2 is a key: they differ
              have : ov.2 ≠ v := by
                intro e
                simp only [List.any_eq_true, decide_eq_true_eq] at h
                obtain ⟨x, hx, ex⟩ := h
                have := List.find?_eq_none.mp hf x hx
                simp [ex, e] at this
              simp [this]
    | some g =>
      have hg : g.1 = v := by simpa using List.find?_some hf
      simp only [Option.map_some, Option.getD_some]
      by_cases e : ov.2 = v
      · rw [if_pos (by rw [hg, e]), if_pos e]
      · rw [if_neg (by rw [hg]; exact fun e' => e e'.symm), if_neg e]; simp
  · rw [if_neg h, List.find?_append]
    cases hf : acc.find? (fun x => x.1 = v) with
    | some g => simp only [Option.some_or, Option.map_some, Option.getD_some]
                have hg : g.1 = v := by simpa using List.find?_some hf
                have : ov.2 ≠ v := by
                  intro e
                  apply h
                  simp only [List.any_eq_true, decide_eq_true_eq]
                  exact ⟨g, List.mem_of_find?_eq_some hf, by rw [hg, e]⟩
                simp [this]
    | none =>
      simp only [Option.none_or, Option.map_none, Option.getD_none, List.nil_append]
      by_cases e : ov.2 = v
      · simp [e]
      · simp [e]

theorem foldl_gstep (l : List (Nat × Option Int)) (acc : List (Option Int × List Nat)) (h : (keys acc).Nodup) :
    (keys (l.foldl gstep acc)).Nodup ∧
    ∀ v, getGroup (l.foldl gstep acc) v = getGroup acc v ++ (l.filter fun ov => ov.2 = v).map (·.1) := by
  induction l generalizing acc with
  | nil => exact ⟨h, fun v => by simp⟩
  | cons ov l ih =>
    obtain ⟨h1, h2⟩ := ih (gstep acc ov) (gstep_nodup acc ov h)
    refine ⟨h1, fun v => ?_⟩
    rw [List.foldl_cons, h2 v, gstep_group, List.filter_cons]
    by_cases e : ov.2 = v
    · simp [e]
    · simp [e]

/-- C02.4a one group per market version, holding exactly the requests of that version in request order -/
theorem groupByVersion_spec (l : List (Nat × Option Int)) :
    (keys (groupByVersion l)).Nodup ∧
    ∀ v, getGroup (groupByVersion l) v = (l.filter fun ov => ov.2 = v).map (·.1) := by
  rw [groupByVersion_eq]
  have := foldl_gstep l [] (by simp [keys])
  exact ⟨this.1, fun v => by rw [this.2 v]; simp [getGroup]⟩

/-! ### packages -/

theorem limits : packLimit .place = 200 ∧ packLimit .cancel = 60 ∧ packLimit .update = 60 ∧ packLimit .replace = 60 := by decide

theorem packLimit_pos (k : PackKind) : 0 < packLimit k := by cases k <;> decide

/-- C02.4b every package holds at most the exchange's per-call limit, is not empty, and only orders
    that were requested with the package's market version -/
theorem packs_sound (pend : List (Nat × Option Int)) (kind : PackKind) :
    ∀ p ∈ packsOf pend kind, p.2.length ≤ packLimit kind ∧ p.2 ≠ [] ∧ ∀ o ∈ p.2, (o, p.1) ∈ pend := by
  intro p hp
  unfold packsOf at hp
  obtain ⟨g, hg, hp⟩ := List.mem_flatMap.mp hp
  obtain ⟨ch, hch, rfl⟩ := List.mem_map.mp hp
  have hb := chunks_bound g.2 (packLimit kind) (packLimit_pos kind) ch hch
  refine ⟨hb.1, hb.2, fun o ho => ?_⟩
  -- o ∈ ch ⊆ g.2 = getGroup (groups) g.1 = filter
  have hog : o ∈ g.2 := by
    have : o ∈ (chunks g.2 (packLimit kind)).flatten := List.mem_flatten.mpr ⟨ch, hch, ho⟩
    rwa [chunks_flatten] at this
  obtain ⟨hnd, hspec⟩ := groupByVersion_spec pend
  have hfind : (groupByVersion pend).find? (fun x => x.1 = g.1) = some g := by
    -- keys are distinct, so the first group with key g.1 is g itself
    have : ∀ (gs : List (Option Int × List Nat)), (keys gs).Nodup → g ∈ gs → gs.find? (fun x => x.1 = g.1) = some g := by
      intro gs
      induction gs with
      | nil => intro _ h; cases h
      | cons x xs ih =>
        intro hn hm
        simp only [keys, List.map_cons, List.nodup_cons] at hn
        rcases List.mem_cons.mp hm with e | e
        · subst e; simp
        · have hx : x.1 ≠ g.1 := by
            intro ex; exact hn.1 (by rw [ex]; exact List.mem_map.mpr ⟨g, e, rfl⟩)
          rw [List.find?_cons]; simp only [hx, decide_false]
          exact ih hn.2 e
    exact this _ hnd hg
  have : getGroup (groupByVersion pend) g.1 = g.2 := by unfold getGroup; rw [hfind]; rfl
  rw [hspec g.1] at this
  rw [← this] at hog
  obtain ⟨ov, hov, rfl⟩ := List.mem_map.mp hog
  have hf := List.mem_filter.mp hov
  have : ov.2 = g.1 := by simpa using hf.2
  rw [← this]; exact hf.1

/-- C02.4c exactly once, in request order: for every market version, the packages of that version,
    read in the order they are sent, hold exactly the requests made with that version, in order -/
theorem packs_complete (pend : List (Nat × Option Int)) (kind : PackKind) (v : Option Int) :
    ((packsOf pend kind).filter fun p => p.1 = v).flatMap (·.2) = (pend.filter fun ov => ov.2 = v).map (·.1) := by
  obtain ⟨hnd, hspec⟩ := groupByVersion_spec pend
  rw [← hspec v]
  unfold packsOf
  generalize groupByVersion pend = gs at hnd
  induction gs with
  | nil => simp [getGroup]
  | cons g gs ih =>
    simp only [keys, List.map_cons, List.nodup_cons] at hnd
    rw [List.flatMap_cons, List.filter_append, List.flatMap_append, ih hnd.2]
    unfold getGroup
    rw [List.find?_cons]
    by_cases e : g.1 = v
    · subst e
      simp only [decide_true]
      have h1 : ((chunks g.2 (packLimit kind)).map fun ch => (g.1, ch)).filter (fun p => p.1 = g.1) =
          (chunks g.2 (packLimit kind)).map fun ch => (g.1, ch) := by
        apply List.filter_eq_self.mpr
        intro p hp
        obtain ⟨ch, _, rfl⟩ := List.mem_map.mp hp
        simp
      rw [h1, List.flatMap_map]
      have h2 : (chunks g.2 (packLimit kind)).flatMap (fun ch => ch) = g.2 := by
        rw [List.flatMap_id']; exact chunks_flatten _ _
      simp only [Option.map_some, Option.getD_some]
      have h3 : gs.find? (fun x => x.1 = g.1) = none := by
        apply List.find?_eq_none.mpr
        intro x hx
        simp only [decide_eq_true_eq]
        intro ex
        exact hnd.1 (by rw [← ex]; exact List.mem_map.mpr ⟨x, hx, rfl⟩)
      rw [h3]
      simpa using h2
    · simp only [e, decide_false]
      have h1 : ((chunks g.2 (packLimit kind)).map fun ch => (g.1, ch)).filter (fun p => p.1 = v) = [] := by
        apply List.filter_eq_nil_iff.mpr
        intro p hp
        obtain ⟨ch, _, rfl⟩ := List.mem_map.mp hp
        simp [e]
      rw [h1]; simp

/-! ### the transaction: nothing is left queued, accepted requests are queued once -/

theorem execute_clears (w : World) (t : Txn) :
    (w.txnExecute t).2.pPlace = [] ∧ (w.txnExecute t).2.pCancel = [] ∧ (w.txnExecute t).2.pUpdate = [] ∧ (w.txnExecute t).2.pReplace = [] := by
  unfold txnExecute; exact ⟨rfl, rfl, rfl, rfl⟩

/-- the pending flag is set whenever a request is waiting -/
def Flagged (t : Txn) : Prop :=
  (t.pPlace ≠ [] ∨ t.pCancel ≠ [] ∨ t.pUpdate ≠ [] ∨ t.pReplace ≠ []) → t.pendingOrders = true

theorem flagged_new (m c : Nat) : Flagged { market := m, client := c } := by
  intro h; simp at h

theorem flagged_execute (w : World) (t : Txn) : Flagged (w.txnExecute t).2 := by
  intro h
  obtain ⟨a, b, c, d⟩ := execute_clears w t
  rw [a, b, c, d] at h; simp at h

theorem flagged_cancel (w : World) (t : Txn) (oid : Nat) (red : Option Rat) (f : Bool) (h : Flagged t) :
    Flagged (w.txnCancel t oid red f).2.1 := by
  unfold txnCancel
  simp only
  by_cases hc : (w.order! oid).client ≠ some t.client
  · rw [if_pos hc]; exact h
  · rw [if_neg hc]
    generalize (if (!f) = true then w.validateControls oid t.client .cancel else (w, none)) = vr
    obtain ⟨w1, r⟩ := vr
    cases r with
    | some r => exact h
    | none =>
      simp only
      cases w1.orderCancel oid red with
      | error e => exact h
      | ok w2 => intro _; rfl

theorem flagged_update (w : World) (t : Txn) (oid : Nat) (p : String) (f : Bool) (h : Flagged t) :
    Flagged (w.txnUpdate t oid p f).2.1 := by
  unfold txnUpdate
  simp only
  by_cases hc : (w.order! oid).client ≠ some t.client
  · rw [if_pos hc]; exact h
  · rw [if_neg hc]
    generalize (if (!f) = true then w.validateControls oid t.client .update else (w, none)) = vr
    obtain ⟨w1, r⟩ := vr
    cases r with
    | some r => exact h
    | none =>
      simp only
      cases w1.orderUpdate oid p with
      | error e => exact h
      | ok w2 => intro _; rfl

theorem flagged_replace (w : World) (t : Txn) (oid : Nat) (p : Rat) (v : Option Int) (f : Bool) (h : Flagged t) :
    Flagged (w.txnReplace t oid p v f).2.1 := by
  unfold txnReplace
  simp only
  by_cases hc : (w.order! oid).client ≠ some t.client
  · rw [if_pos hc]; exact h
  · rw [if_neg hc]
    generalize (if (!f) = true then w.validateControls oid t.client .replace else (w, none)) = vr
    obtain ⟨w1, r⟩ := vr
    cases r with
    | some r => exact h
    | none =>
      simp only
      cases w1.orderReplace oid p with
      | error e => exact h
      | ok w2 => intro _; rfl

/-- an accepted cancel is filed exactly once; anything else files nothing -/
theorem cancel_filed_once (w : World) (t : Txn) (oid : Nat) (red : Option Rat) (f : Bool) :
    ((w.txnCancel t oid red f).2.2 = .accepted ∧ (w.txnCancel t oid red f).2.1.pCancel = t.pCancel ++ [(oid, none)]) ∨
    ((w.txnCancel t oid red f).2.2 ≠ .accepted ∧ (w.txnCancel t oid red f).2.1 = t) := by
  unfold txnCancel
  simp only
  by_cases hc : (w.order! oid).client ≠ some t.client
  · rw [if_pos hc]; right; exact ⟨by simp, rfl⟩
  · rw [if_neg hc]
    generalize (if (!f) = true then w.validateControls oid t.client .cancel else (w, none)) = vr
    obtain ⟨w1, r⟩ := vr
    cases r with
    | some r => right; exact ⟨by simp, rfl⟩
    | none =>
      simp only
      cases w1.orderCancel oid red with
      | error e => right; exact ⟨by simp, rfl⟩
      | ok w2 => left; exact ⟨rfl, rfl⟩

/-- leaving the transaction sends everything that is waiting -/
theorem exit_sends_all (w : World) (t : Txn) (h : Flagged t)
    (hw : t.pPlace ≠ [] ∨ t.pCancel ≠ [] ∨ t.pUpdate ≠ [] ∨ t.pReplace ≠ []) :
    w.txnExit t = (w.txnExecute t).1 := by
  unfold txnExit; rw [if_pos (h hw)]

/-- the queue grows by exactly one package per (version, chunk) pair, of the matching kind, for the
    transaction's market and client -/
theorem createPackages_queue (w : World) (t : Txn) (pend : List (Nat × Option Int)) (kind : PackKind) :
    ((w.createPackages t pend kind).queue.drop w.queue.length).map (fun p => (p.kind, p.market, p.client, p.marketVersion, p.orders)) =
      (packsOf pend kind).map fun vc => (kind, t.market, t.client, vc.1, vc.2) := by
  unfold createPackages
  simp only
  generalize packsOf pend kind = ps
  generalize delayOf w.cfg kind _ = d
  generalize (((w.market! t.market).book).getD {}).betDelay = bd
  induction ps generalizing w with
  | nil => simp
  | cons vc ps ih =>
    rw [List.foldl_cons]
    have hq : (addPackage kind t d bd w vc).queue.length = w.queue.length + 1 := by simp [addPackage]
    have := ih (addPackage kind t d bd w vc)
    rw [hq] at this
    have hsplit : ∀ (q : List Package), q.drop w.queue.length = (q.drop w.queue.length).take 1 ++ q.drop (w.queue.length + 1) := by
      intro q
      rw [← List.drop_drop, List.take_append_drop]
    rw [hsplit, List.map_append, this, List.map_cons]
    congr 1
    -- the first new package is the one appended by addPackage; later steps only append
    have hpre : ∀ (ps : List (Option Int × List Nat)) (w0 : World),
        ((ps.foldl (addPackage kind t d bd) w0).queue.take w0.queue.length) = w0.queue := by
      intro ps
      induction ps with
      | nil => intro w0; simp
      | cons x xs ihx =>
        intro w0
        rw [List.foldl_cons]
        have h1 := ihx (addPackage kind t d bd w0 x)
        have hl : (addPackage kind t d bd w0 x).queue = w0.queue ++ [{ id := w0.nextPackage, kind := kind, market := t.market, orders := x.2, created := w0.clock, delay := d, client := t.client, marketVersion := x.1, betDelay := bd }] := rfl
        have := congrArg (List.take w0.queue.length) h1
        rw [List.take_take] at this
        rw [hl] at this
        simpa [Nat.min_eq_left] using this
    have h1 := hpre ps (addPackage kind t d bd w vc)
    rw [hq] at h1
    have : ((ps.foldl (addPackage kind t d bd) (addPackage kind t d bd w vc)).queue.drop w.queue.length).take 1 =
        ((ps.foldl (addPackage kind t d bd) (addPackage kind t d bd w vc)).queue.take (w.queue.length + 1)).drop w.queue.length := by
      rw [List.drop_take]; simp
    rw [this, h1]
    simp [addPackage]

/-! ### refusals -/

/-- when no control refuses, validation touches neither orders, trades, markets nor the queue (it may
    create the runner context of a new order and restart the client's hourly counters) -/
theorem setClient_frames (w0 : World) (c : Client) : (w0.setClient c).orders = w0.orders ∧ (w0.setClient c).trades = w0.trades ∧
    (w0.setClient c).markets = w0.markets ∧ (w0.setClient c).queue = w0.queue := ⟨rfl, rfl, rfl, rfl⟩

theorem setCtx_frames (w0 : World) (c0 : RunnerCtx) : (w0.setCtx c0).orders = w0.orders ∧ (w0.setCtx c0).trades = w0.trades ∧
    (w0.setCtx c0).markets = w0.markets ∧ (w0.setCtx c0).queue = w0.queue := by
  unfold setCtx; split <;> exact ⟨rfl, rfl, rfl, rfl⟩

theorem validate_pass_frames (w : World) (oid cid : Nat) (kind : PackKind) (h : (w.validateControls oid cid kind).2 = none) :
    (w.validateControls oid cid kind).1.orders = w.orders ∧ (w.validateControls oid cid kind).1.trades = w.trades ∧
    (w.validateControls oid cid kind).1.markets = w.markets ∧ (w.validateControls oid cid kind).1.queue = w.queue := by
  unfold validateControls at h ⊢
  simp only at h ⊢
  split
  · rename_i heq; simp only [heq] at h; cases h
  · rename_i heq
    simp only [heq] at h
    split
    · rename_i heq2; simp only [heq2] at h; cases h
    · rename_i heq2
      simp only [heq2] at h
      split
      · rename_i heq3; simp only [heq3] at h; cases h
      · rename_i heq3
        simp only [heq3] at h
        split_ifs at h ⊢ with hk hs
        · obtain ⟨a, b, c, d⟩ := setClient_frames (w.setCtx (w.ctx ⟨(w.order! oid).strategy, (w.order! oid).market, (w.order! oid).sel, (w.order! oid).hc⟩)) { w.client! cid with counter := checkHour (w.client! cid).counter (w.setCtx (w.ctx ⟨(w.order! oid).strategy, (w.order! oid).market, (w.order! oid).sel, (w.order! oid).hc⟩)).clock }
          obtain ⟨a', b', c', d'⟩ := setCtx_frames w (w.ctx ⟨(w.order! oid).strategy, (w.order! oid).market, (w.order! oid).sel, (w.order! oid).hc⟩)
          exact ⟨a.trans a', b.trans b', c.trans c', d.trans d'⟩
        · exact setClient_frames w _

/-- a request rejected by the order's own guard changes no order, trade, market or queue entry and
    files nothing -/
theorem cancel_error_changes_nothing (w : World) (t : Txn) (oid : Nat) (red : Option Rat) (f : Bool) (e : ReqErr)
    (h : (w.txnCancel t oid red f).2.2 = .error e) :
    (w.txnCancel t oid red f).1.orders = w.orders ∧ (w.txnCancel t oid red f).1.trades = w.trades ∧
    (w.txnCancel t oid red f).1.markets = w.markets ∧ (w.txnCancel t oid red f).1.queue = w.queue ∧
    (w.txnCancel t oid red f).2.1 = t := by
  unfold txnCancel at h ⊢
  simp only at h ⊢
  by_cases hcm : (w.order! oid).client ≠ some t.client
  · rw [if_pos hcm]; exact ⟨rfl, rfl, rfl, rfl, rfl⟩
  · rw [if_neg hcm] at h ⊢
    have hfr : ∀ vr : World × Option Refusal, vr = (if (!f) = true then w.validateControls oid t.client .cancel else (w, none)) →
        vr.2 = none → vr.1.orders = w.orders ∧ vr.1.trades = w.trades ∧ vr.1.markets = w.markets ∧ vr.1.queue = w.queue := by
      intro vr hvr hn
      cases f with
      | true => simp at hvr; subst hvr; exact ⟨rfl, rfl, rfl, rfl⟩
      | false =>
        simp at hvr; subst hvr
        exact validate_pass_frames w oid t.client .cancel hn
    generalize hg : (if (!f) = true then w.validateControls oid t.client .cancel else (w, none)) = vr at h hfr ⊢
    obtain ⟨w1, r⟩ := vr
    cases r with
    | some r => simp at h
    | none =>
      have := hfr (w1, none) rfl rfl
      simp only at h ⊢
      cases hoc : w1.orderCancel oid red with
      | error e' => exact ⟨this.1, this.2.1, this.2.2.1, this.2.2.2, rfl⟩
      | ok w2 => rw [hoc] at h; simp at h

/-- `force=True` skips the controls and nothing else -/
theorem force_skips_only_controls (w : World) (t : Txn) (oid : Nat) (red : Option Rat)
    (h : w.validateControls oid t.client .cancel = (w, none)) :
    w.txnCancel t oid red false = w.txnCancel t oid red true := by
  unfold txnCancel
  simp only [Bool.not_false, if_true, Bool.not_true, Bool.false_eq_true, if_false, h]

/-! ### non-vacuity -/

example : packsOf [(1, some 5), (2, none), (3, some 5)] .cancel = [(some 5, [1, 3]), (none, [2])] := by decide +kernel
example : (chunks (List.range 130) 60).map List.length = [60, 60, 10] := by decide +kernel

end Flumine.C02
