/-
  C02 — Refused requests change nothing; accepted requests are sent exactly once.
  Model: Txn.lean (txnPlace / txnCancel / txnUpdate / txnReplace, validateControls, chunks,
  groupByVersion, packsOf, createPackages, txnExecute, txnExit).
-/
import Flumine.Txn
import Flumine.Lemmas.Packs
import Flumine.Lemmas.OrderLemmas
import Flumine.Props.C03
import Flumine.Lemmas.Final
namespace Flumine.C02
open Flumine Flumine.World Flumine.OL Flumine.Packs

/-! ### chunks: `utils.chunks(l, n)` (proofs in Lemmas/Packs.lean) -/

theorem chunks_flatten {α} (l : List α) (n : Nat) : (chunks l n).flatten = l := Packs.chunks_flatten l n

theorem chunks_bound {α} (l : List α) (n : Nat) (hn : 0 < n) : ∀ c ∈ chunks l n, c.length ≤ n ∧ c ≠ [] := Packs.chunks_bound l n hn

/-! ### grouping by market version -/

/-- C02.4a one group per market version, holding exactly the requests of that version in request order -/
theorem groupByVersion_spec (l : List (Nat × Option Int)) :
    (keys (groupByVersion l)).Nodup ∧
    ∀ v, getGroup (groupByVersion l) v = (l.filter fun ov => ov.2 = v).map (·.1) := Packs.groupByVersion_spec l

/-! ### packages -/

theorem limits : packLimit .place = 200 ∧ packLimit .cancel = 60 ∧ packLimit .update = 60 ∧ packLimit .replace = 60 := by decide

theorem packLimit_pos (k : PackKind) : 0 < packLimit k := Packs.packLimit_pos k

/-- C02.4b every package holds at most the exchange's per-call limit, is not empty, and only orders
    that were requested with the package's market version -/
theorem packs_sound (pend : List (Nat × Option Int)) (kind : PackKind) :
    ∀ p ∈ packsOf pend kind, p.2.length ≤ packLimit kind ∧ p.2 ≠ [] ∧ ∀ o ∈ p.2, (o, p.1) ∈ pend := Packs.packs_sound pend kind


/-- C02.4c exactly once, in request order: for every market version, the packages of that version,
    read in the order they are sent, hold exactly the requests made with that version, in order -/
theorem packs_complete (pend : List (Nat × Option Int)) (kind : PackKind) (v : Option Int) :
    ((packsOf pend kind).filter fun p => p.1 = v).flatMap (·.2) = (pend.filter fun ov => ov.2 = v).map (·.1) := by
  obtain ⟨hnd, hspec⟩ := groupByVersion_spec pend
  rw [← hspec v]
  unfold packsOf
  generalize groupByVersion pend = gs at hnd
  induction gs with
  | nil => simp [getGroup]
  | cons g gs ih =>
    simp only [keys, List.map_cons, List.nodup_cons] at hnd
    rw [List.flatMap_cons, List.filter_append, List.flatMap_append, ih hnd.2]
    unfold getGroup
    rw [List.find?_cons]
    by_cases e : g.1 = v
    · subst e
      simp only [decide_true]
      have h1 : ((chunks g.2 (packLimit kind)).map fun ch => (g.1, ch)).filter (fun p => p.1 = g.1) =
          (chunks g.2 (packLimit kind)).map fun ch => (g.1, ch) := by
        apply List.filter_eq_self.mpr
        intro p hp
        obtain ⟨ch, _, rfl⟩ := List.mem_map.mp hp
        simp
      rw [h1, List.flatMap_map]
      have h2 : (chunks g.2 (packLimit kind)).flatMap (fun ch => ch) = g.2 := by
        rw [List.flatMap_id']; exact chunks_flatten _ _
      simp only [Option.map_some, Option.getD_some]
      have h3 : gs.find? (fun x => x.1 = g.1) = none := by
        apply List.find?_eq_none.mpr
        intro x hx
        simp only [decide_eq_true_eq]
        intro ex
        exact hnd.1 (by rw [← ex]; exact List.mem_map.mpr ⟨x, hx, rfl⟩)
      rw [h3]
      simpa using h2
    · simp only [e, decide_false]
      have h1 : ((chunks g.2 (packLimit kind)).map fun ch => (g.1, ch)).filter (fun p => p.1 = v) = [] := by
        apply List.filter_eq_nil_iff.mpr
        intro p hp
        obtain ⟨ch, _, rfl⟩ := List.mem_map.mp hp
        simp [e]
      rw [h1]; simp

/-- C02.4d exactly once, as multisets: between them the packages of a pending list hold exactly the requested
    orders, each as often as it was requested (whatever the market versions and the chunking) -/
theorem packs_exactly_once (pend : List (Nat × Option Int)) (kind : PackKind) :
    ((packsOf pend kind).flatMap (·.2)).Perm (pend.map (·.1)) := Packs.packs_perm pend kind

/-! ### the transaction: nothing is left queued, accepted requests are queued once -/

theorem execute_clears (w : World) (t : Txn) :
    (w.txnExecute t).2.pPlace = [] ∧ (w.txnExecute t).2.pCancel = [] ∧ (w.txnExecute t).2.pUpdate = [] ∧ (w.txnExecute t).2.pReplace = [] := by
  unfold txnExecute; exact ⟨rfl, rfl, rfl, rfl⟩

/-- the pending flag is set whenever a request is waiting -/
def Flagged (t : Txn) : Prop :=
  (t.pPlace ≠ [] ∨ t.pCancel ≠ [] ∨ t.pUpdate ≠ [] ∨ t.pReplace ≠ []) → t.pendingOrders = true

theorem flagged_new (m c : Nat) : Flagged { market := m, client := c } := by
  intro h; simp at h

theorem flagged_execute (w : World) (t : Txn) : Flagged (w.txnExecute t).2 := by
  intro h
  obtain ⟨a, b, c, d⟩ := execute_clears w t
  rw [a, b, c, d] at h; simp at h

theorem flagged_cancel (w : World) (t : Txn) (oid : Nat) (red : Option Rat) (f : Bool) (h : Flagged t) :
    Flagged (w.txnCancel t oid red f).2.1 := by
  unfold txnCancel
  simp only
  by_cases hc : (w.order! oid).client ≠ some t.client
  · rw [if_pos hc]; exact h
  · rw [if_neg hc]
    generalize (if (!f) = true then w.validateControls oid t.client .cancel else (w, none)) = vr
    obtain ⟨w1, r⟩ := vr
    cases r with
    | some r => exact h
    | none =>
      simp only
      cases w1.orderCancel oid red with
      | error e => exact h
      | ok w2 => intro _; rfl

theorem flagged_update (w : World) (t : Txn) (oid : Nat) (p : String) (f : Bool) (h : Flagged t) :
    Flagged (w.txnUpdate t oid p f).2.1 := by
  unfold txnUpdate
  simp only
  by_cases hc : (w.order! oid).client ≠ some t.client
  · rw [if_pos hc]; exact h
  · rw [if_neg hc]
    generalize (if (!f) = true then w.validateControls oid t.client .update else (w, none)) = vr
    obtain ⟨w1, r⟩ := vr
    cases r with
    | some r => exact h
    | none =>
      simp only
      cases w1.orderUpdate oid p with
      | error e => exact h
      | ok w2 => intro _; rfl

theorem flagged_replace (w : World) (t : Txn) (oid : Nat) (p : Rat) (v : Option Int) (f : Bool) (h : Flagged t) :
    Flagged (w.txnReplace t oid p v f).2.1 := by
  unfold txnReplace
  simp only
  by_cases hc : (w.order! oid).client ≠ some t.client
  · rw [if_pos hc]; exact h
  · rw [if_neg hc]
    generalize (if (!f) = true then w.validateControls oid t.client .replace else (w, none)) = vr
    obtain ⟨w1, r⟩ := vr
    cases r with
    | some r => exact h
    | none =>
      simp only
      cases w1.orderReplace oid p with
      | error e => exact h
      | ok w2 => intro _; rfl

/-- an accepted cancel is filed exactly once; anything else files nothing -/
theorem cancel_filed_once (w : World) (t : Txn) (oid : Nat) (red : Option Rat) (f : Bool) :
    ((w.txnCancel t oid red f).2.2 = .accepted ∧ (w.txnCancel t oid red f).2.1.pCancel = t.pCancel ++ [(oid, none)]) ∨
    ((w.txnCancel t oid red f).2.2 ≠ .accepted ∧ (w.txnCancel t oid red f).2.1 = t) := by
  unfold txnCancel
  simp only
  by_cases hc : (w.order! oid).client ≠ some t.client
  · rw [if_pos hc]; right; exact ⟨by simp, rfl⟩
  · rw [if_neg hc]
    generalize (if (!f) = true then w.validateControls oid t.client .cancel else (w, none)) = vr
    obtain ⟨w1, r⟩ := vr
    cases r with
    | some r => right; exact ⟨by simp, rfl⟩
    | none =>
      simp only
      cases w1.orderCancel oid red with
      | error e => right; exact ⟨by simp, rfl⟩
      | ok w2 => left; exact ⟨rfl, rfl⟩

/-- leaving the transaction sends everything that is waiting -/
theorem exit_sends_all (w : World) (t : Txn) (h : Flagged t)
    (hw : t.pPlace ≠ [] ∨ t.pCancel ≠ [] ∨ t.pUpdate ≠ [] ∨ t.pReplace ≠ []) :
    w.txnExit t = (w.txnExecute t).1 := by
  unfold txnExit; rw [if_pos (h hw)]

/-- the queue grows by exactly one package per (version, chunk) pair, of the matching kind, for the
    transaction's market and client -/
theorem createPackages_queue (w : World) (t : Txn) (pend : List (Nat × Option Int)) (kind : PackKind) :
    ((w.createPackages t pend kind).queue.drop w.queue.length).map (fun p => (p.kind, p.market, p.client, p.marketVersion, p.orders)) =
      (packsOf pend kind).map fun vc => (kind, t.market, t.client, vc.1, vc.2) := by
  unfold createPackages
  simp only
  generalize packsOf pend kind = ps
  generalize delayOf w.cfg kind _ = d
  generalize (((w.market! t.market).book).getD {}).betDelay = bd
  induction ps generalizing w with
  | nil => simp
  | cons vc ps ih =>
    rw [List.foldl_cons]
    have hq : (addPackage kind t d bd w vc).queue.length = w.queue.length + 1 := by simp [addPackage]
    have := ih (addPackage kind t d bd w vc)
    rw [hq] at this
    have hsplit : ∀ (q : List Package), q.drop w.queue.length = (q.drop w.queue.length).take 1 ++ q.drop (w.queue.length + 1) := by
      intro q
      rw [← List.drop_drop, List.take_append_drop]
    rw [hsplit, List.map_append, this, List.map_cons]
    congr 1
    -- the first new package is the one appended by addPackage; later steps only append
    have hpre : ∀ (ps : List (Option Int × List Nat)) (w0 : World),
        ((ps.foldl (addPackage kind t d bd) w0).queue.take w0.queue.length) = w0.queue := by
      intro ps
      induction ps with
      | nil => intro w0; simp
      | cons x xs ihx =>
        intro w0
        rw [List.foldl_cons]
        have h1 := ihx (addPackage kind t d bd w0 x)
        have hl : (addPackage kind t d bd w0 x).queue = w0.queue ++ [{ id := w0.nextPackage, kind := kind, market := t.market, orders := x.2, created := w0.clock, delay := d, client := t.client, marketVersion := x.1, betDelay := bd }] := rfl
        have := congrArg (List.take w0.queue.length) h1
        rw [List.take_take] at this
        rw [hl] at this
        simpa [Nat.min_eq_left] using this
    have h1 := hpre ps (addPackage kind t d bd w vc)
    rw [hq] at h1
    have : ((ps.foldl (addPackage kind t d bd) (addPackage kind t d bd w vc)).queue.drop w.queue.length).take 1 =
        ((ps.foldl (addPackage kind t d bd) (addPackage kind t d bd w vc)).queue.take (w.queue.length + 1)).drop w.queue.length := by
      rw [List.drop_take]; simp
    rw [this, h1]
    simp [addPackage]

/-! ### refusals -/

/-- when no control refuses, validation touches neither orders, trades, markets nor the queue (it may
    create the runner context of a new order and restart the client's hourly counters) -/
theorem setClient_frames (w0 : World) (c : Client) : (w0.setClient c).orders = w0.orders ∧ (w0.setClient c).trades = w0.trades ∧
    (w0.setClient c).markets = w0.markets ∧ (w0.setClient c).queue = w0.queue := ⟨rfl, rfl, rfl, rfl⟩

theorem setCtx_frames (w0 : World) (c0 : RunnerCtx) : (w0.setCtx c0).orders = w0.orders ∧ (w0.setCtx c0).trades = w0.trades ∧
    (w0.setCtx c0).markets = w0.markets ∧ (w0.setCtx c0).queue = w0.queue := by
  unfold setCtx; split <;> exact ⟨rfl, rfl, rfl, rfl⟩

theorem validate_pass_frames (w : World) (oid cid : Nat) (kind : PackKind) (h : (w.validateControls oid cid kind).2 = none) :
    (w.validateControls oid cid kind).1.orders = w.orders ∧ (w.validateControls oid cid kind).1.trades = w.trades ∧
    (w.validateControls oid cid kind).1.markets = w.markets ∧ (w.validateControls oid cid kind).1.queue = w.queue := by
  unfold validateControls at h ⊢
  simp only at h ⊢
  split
  · rename_i heq; simp only [heq] at h; cases h
  · rename_i heq
    simp only [heq] at h
    split
    · rename_i heq2; simp only [heq2] at h; cases h
    · rename_i heq2
      simp only [heq2] at h
      split
      · rename_i heq3; simp only [heq3] at h; cases h
      · rename_i heq3
        simp only [heq3] at h
        split_ifs at h ⊢ with hk hs
        · obtain ⟨a, b, c, d⟩ := setClient_frames (w.setCtx (w.ctx ⟨(w.order! oid).strategy, (w.order! oid).market, (w.order! oid).sel, (w.order! oid).hc⟩)) { w.client! cid with counter := checkHour (w.client! cid).counter (w.setCtx (w.ctx ⟨(w.order! oid).strategy, (w.order! oid).market, (w.order! oid).sel, (w.order! oid).hc⟩)).clock }
          obtain ⟨a', b', c', d'⟩ := setCtx_frames w (w.ctx ⟨(w.order! oid).strategy, (w.order! oid).market, (w.order! oid).sel, (w.order! oid).hc⟩)
          exact ⟨a.trans a', b.trans b', c.trans c', d.trans d'⟩
        · exact setClient_frames w _

/-- a request rejected by the order's own guard changes no order, trade, market or queue entry and
    files nothing -/
theorem cancel_error_changes_nothing (w : World) (t : Txn) (oid : Nat) (red : Option Rat) (f : Bool) (e : ReqErr)
    (h : (w.txnCancel t oid red f).2.2 = .error e) :
    (w.txnCancel t oid red f).1.orders = w.orders ∧ (w.txnCancel t oid red f).1.trades = w.trades ∧
    (w.txnCancel t oid red f).1.markets = w.markets ∧ (w.txnCancel t oid red f).1.queue = w.queue ∧
    (w.txnCancel t oid red f).2.1 = t := by
  unfold txnCancel at h ⊢
  simp only at h ⊢
  by_cases hcm : (w.order! oid).client ≠ some t.client
  · rw [if_pos hcm]; exact ⟨rfl, rfl, rfl, rfl, rfl⟩
  · rw [if_neg hcm] at h ⊢
    have hfr : ∀ vr : World × Option Refusal, vr = (if (!f) = true then w.validateControls oid t.client .cancel else (w, none)) →
        vr.2 = none → vr.1.orders = w.orders ∧ vr.1.trades = w.trades ∧ vr.1.markets = w.markets ∧ vr.1.queue = w.queue := by
      intro vr hvr hn
      cases f with
      | true => simp at hvr; subst hvr; exact ⟨rfl, rfl, rfl, rfl⟩
      | false =>
        simp at hvr; subst hvr
        exact validate_pass_frames w oid t.client .cancel hn
    generalize hg : (if (!f) = true then w.validateControls oid t.client .cancel else (w, none)) = vr at h hfr ⊢
    obtain ⟨w1, r⟩ := vr
    cases r with
    | some r => simp at h
    | none =>
      have := hfr (w1, none) rfl rfl
      simp only at h ⊢
      cases hoc : w1.orderCancel oid red with
      | error e' => exact ⟨this.1, this.2.1, this.2.2.1, this.2.2.2, rfl⟩
      | ok w2 => rw [hoc] at h; simp at h

/-- `force=True` skips the controls and nothing else -/
theorem force_skips_only_controls (w : World) (t : Txn) (oid : Nat) (red : Option Rat)
    (h : w.validateControls oid t.client .cancel = (w, none)) :
    w.txnCancel t oid red false = w.txnCancel t oid red true := by
  unfold txnCancel
  simp only [Bool.not_false, if_true, Bool.not_true, Bool.false_eq_true, if_false, h]

/-- ... also for placements: a FORCED placement of an order that has been placed before - it is in the blotter of the
    transaction's market, or it is complete (the replacement order of a refused re-placement, fix F24) - is refused like an
    unforced one; nothing is filed in the transaction, no status changes; all that happens is that `order.client` has been
    overwritten with the transaction's client before the test (known finding F17) -/
theorem forced_place_of_a_placed_order_refused (w : World) (t : Txn) (oid : Nat) (v : Option Int) (ex : Bool)
    (h : oid ∈ (w.market! t.market).blotter ∨ (w.order! oid).status = some .executionComplete) :
    w.txnPlace t oid v ex true = (w.modifyOrder oid fun o => { o with client := some t.client }, t, .error .alreadyPlaced) := by
  unfold txnPlace
  simp only [Bool.not_true, Bool.and_false, Bool.false_eq_true, if_false]
  have hst : ((w.modifyOrder oid fun o => { o with client := some t.client }).order! oid).status = (w.order! oid).status := by
    rcases Fin.order!_modify w oid oid (fun o => { o with client := some t.client }) (fun _ => rfl) with e | ⟨_, _, e⟩
    · rw [e]
    · rw [e]
  have hc : ((((w.modifyOrder oid fun o => { o with client := some t.client }).market! t.market).blotter.contains oid) ||
      (((w.modifyOrder oid fun o => { o with client := some t.client }).order! oid).status == some .executionComplete)) = true := by
    rcases h with h | h
    · have : ((w.modifyOrder oid fun o => { o with client := some t.client }).market! t.market).blotter.contains oid = true :=
        List.contains_iff_mem.mpr h
      rw [this]; rfl
    · rw [hst, h]; simp
  rw [if_pos hc]

/-! ### non-vacuity -/

example : packsOf [(1, some 5), (2, none), (3, some 5)] .cancel = [(some 5, [1, 3]), (none, [2])] := by decide +kernel
example : (chunks (List.range 130) 60).map List.length = [60, 60, 10] := by decide +kernel

/-! ### C02.5 `Transaction.execute()` as a whole -/

theorem step_queueIds (w : World) (t : Txn) (pend : List (Nat × Option Int)) (k : PackKind) :
    Fl.queueIds (if pend.isEmpty then w else w.createPackages t pend k) = Fl.queueIds w ++ (packsOf pend k).flatMap (·.2) := by
  split
  · rename_i he
    have : pend = [] := List.isEmpty_iff.mp he
    subst this
    simp [packsOf, groupByVersion]
  · unfold createPackages
    exact (Fl.packs_queue k t _ _ (packsOf pend k) w).1

/-- `Transaction.execute()`: the handler queue grows by packages that hold, between them, exactly the requests
    pending in the transaction - every accepted request once, nothing else - and what was queued before stays
    in front, untouched -/
theorem execute_queues_each_request_once (w : World) (t : Txn) :
    ∃ N, Fl.queueIds (w.txnExecute t).1 = Fl.queueIds w ++ N ∧ N.Perm (Fl.txnIds t) := by
  refine ⟨(packsOf t.pPlace .place).flatMap (·.2) ++ ((packsOf t.pCancel .cancel).flatMap (·.2) ++
    ((packsOf t.pUpdate .update).flatMap (·.2) ++ (packsOf t.pReplace .replace).flatMap (·.2))), ?_, ?_⟩
  · unfold txnExecute
    simp only
    rw [step_queueIds, step_queueIds, step_queueIds, step_queueIds]
    simp [List.append_assoc]
  · unfold Fl.txnIds
    rw [List.map_append, List.map_append, List.map_append, List.append_assoc, List.append_assoc]
    exact (packs_exactly_once t.pPlace .place).append ((packs_exactly_once t.pCancel .cancel).append
      ((packs_exactly_once t.pUpdate .update).append (packs_exactly_once t.pReplace .replace)))

end Flumine.C02
