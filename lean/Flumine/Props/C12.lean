/-
  C12 — Exchange call faults never strand an order or lose a transaction count.
  Model: Flumine.Live (Betfair response handlers per order, reset after exhausted retries, retry
  counter, transaction charges) and SimExec (simulated handlers: C03.cancelStep_outcome etc.).
-/
import Flumine.Live
import Flumine.Props.C03
import Flumine.Lemmas.Settle
namespace Flumine.C12
open Flumine Flumine.Live

/-- a state from which the order can progress: resting at the exchange, or complete -/
def Progressable (o : LOrder) : Prop := o.status = some .executable ∨ o.complete = true

def Stuck (o : LOrder) : Prop :=
  o.complete = false ∧ (o.status = some .cancelling ∨ o.status = some .updating ∨ o.status = some .replacing)

theorem progressable_not_stuck (o : LOrder) (h : Progressable o) : ¬ Stuck o := by
  rintro ⟨hc, hs⟩
  rcases h with h | h
  · rw [h] at hs; rcases hs with e | e | e <;> cases e
  · rw [h] at hc; cases hc

theorem executable_progressable (o : LOrder) : Progressable (executable o) := by
  unfold executable Progressable
  by_cases h : o.complete = true
  · rw [if_pos h]; exact Or.inr h
  · rw [if_neg h]; exact Or.inl rfl

theorem executionComplete_progressable (o : LOrder) : Progressable (executionComplete o) := Or.inr rfl

theorem executable_keeps_complete (o : LOrder) (h : o.complete = true) : executable o = o := by
  unfold executable; rw [if_pos h]

/-! ### every outcome of a cancel / update / replace call leaves the order progressable -/

theorem cancel_any_report (o : LOrder) (r : CancelRep) : Progressable (cancelReport o r) := by
  unfold cancelReport
  cases r.status with
  | success => simp only; split <;> first | exact executionComplete_progressable _ | exact executable_progressable _
  | failure => simp only; split <;> first | exact executionComplete_progressable _ | exact executable_progressable _
  | timeout => exact executable_progressable _

theorem cancel_missing_report (o : LOrder) : Progressable (cancelMissing o) := executable_progressable _

theorem update_any_report (o : LOrder) (r : RepStatus) : Progressable (updateReport o r) := executable_progressable _

theorem replace_any_report (o : LOrder) (r : RepStatus) : Progressable (replaceCancelReport o r) := by
  unfold replaceCancelReport
  cases r with
  | success => exact executionComplete_progressable _
  | failure => exact executable_progressable _
  | timeout => exact executable_progressable _

/-- exhausted retries: PLACE orders are completed, the others are put back to executable -/
theorem reset_progressable (c : Bool) (o : LOrder) : Progressable (resetOrder c o) := by
  unfold resetOrder
  cases c
  · exact executable_progressable _
  · exact executionComplete_progressable _

/-- a placement: afterwards the order is executable or complete, or still pending only when the
    exchange may yet have accepted it (asynchronous acknowledgement, or a timeout) -/
theorem place_any_report (o : LOrder) (r : PlaceRep) (hp : o.status = some .pending ∨ o.complete = true) :
    Progressable (placeReport o r) ∨
    ((placeReport o r).status = some .pending ∧ (r.status = .timeout ∨ (r.status = .success ∧ r.orderStatus = some .pending))) := by
  unfold placeReport
  simp only
  cases hr : r.status with
  | success =>
    simp only
    cases hos : r.orderStatus with
    | none => left; exact executable_progressable _
    | some st =>
      cases st <;> simp only <;> first
        | (left; exact executable_progressable _)
        | (left; exact executionComplete_progressable _)
        | (rcases hp with h | h
           · right; refine ⟨h, Or.inr ?_⟩; simp_all
           · left; exact Or.inr h)
  | failure => left; exact executionComplete_progressable _
  | timeout =>
    rcases hp with h | h
    · right; exact ⟨h, Or.inl rfl⟩
    · left; exact Or.inr h

/-- no handler brings a complete order back to life (the report arrived after the order completed through the stream) -/
theorem handlers_never_revive (o : LOrder) (h : o.complete = true) :
    (∀ r, (placeReport o r).complete = true) ∧ (∀ r, (cancelReport o r).complete = true) ∧ (cancelMissing o).complete = true ∧
    (∀ r, (updateReport o r).complete = true) ∧ (∀ r, (replaceCancelReport o r).complete = true) ∧ (∀ c, (resetOrder c o).complete = true) := by
  have ex : ∀ x : LOrder, x.complete = true → (executable x).complete = true := by
    intro x hx; rw [executable_keeps_complete x hx]; exact hx
  refine ⟨?_, ?_, ex o h, ?_, ?_, ?_⟩
  · intro r
    unfold placeReport
    simp only
    cases r.status with
    | success =>
      simp only
      cases r.orderStatus with
      | none => exact ex _ h
      | some st => cases st <;> first | exact ex _ h | rfl | exact h
    | failure => rfl
    | timeout => exact h
  · intro r
    unfold cancelReport
    cases r.status with
    | success => simp only; split <;> first | rfl | exact ex _ h
    | failure => simp only; split <;> first | rfl | exact ex _ h
    | timeout => exact ex _ h
  · intro r; exact ex _ h
  · intro r
    unfold replaceCancelReport
    cases r with
    | success => rfl
    | failure => exact ex _ h
    | timeout => exact ex _ h
  · intro c
    unfold resetOrder
    cases c
    · exact ex _ h
    · rfl

/-! ### retries -/

theorem retry_bound (a : Attempts) (n : Nat) : callsMade n a ≤ a.maxRetries + 1 := Nat.min_le_right _ _

theorem retry_counts (a : Attempts) : (retry a).2 = true ↔ a.retryCount < a.maxRetries := by
  unfold retry; split <;> simp_all

/-- the retry counter never exceeds the configured maximum, whatever the sequence of failures -/
theorem retry_invariant (a : Attempts) (h : a.retryCount ≤ a.maxRetries) : (retry a).1.retryCount ≤ (retry a).1.maxRetries := by
  unfold retry; split
  · simp only; omega
  · exact h

theorem default_is_three_retries : ({} : Attempts).maxRetries = 3 ∧ callsMade 10 {} = 4 := by decide

/-! ### transaction counts -/

/-- bets submitted (placements and replacements of answered calls) plus failed instructions reported -/
theorem charges (c : Counts) (nPlace nReplace : Nat) (cancels updates replaceHalves : List RepStatus) :
    (chargeReplace (chargeCancel (chargeCancel (chargePlace c nPlace) cancels) updates) nReplace replaceHalves).count
      = c.count + nPlace + nReplace ∧
    (chargeReplace (chargeCancel (chargeCancel (chargePlace c nPlace) cancels) updates) nReplace replaceHalves).failed
      = c.failed + countFailures cancels + countFailures updates + countFailures replaceHalves := ⟨rfl, rfl⟩

theorem countFailures_le (rs : List RepStatus) : countFailures rs ≤ rs.length := List.length_filter_le _ _

/-! ### the simulated execution (restated from C03 for this property) -/

open Flumine.World Flumine.OL in
/-- simulated cancel / update / place handlers: the order handled ends executable or complete (or stays
    as final as it was) — never cancelling / updating / replacing -/
theorem simulated_handlers_settle (p : Package) (w : World) (failed oid : Nat) (ho : HasOrder w oid) :
    C03.HandlerOutcome (w.order! oid) ((cancelStep p (w, failed) oid).1.order! oid) ∧
    C03.HandlerOutcome (w.order! oid) ((updateStep p (w, failed) oid).1.order! oid) ∧
    C03.HandlerOutcome (w.order! oid) ((placeStep p w oid).order! oid) :=
  ⟨(C03.cancelStep_outcome p w failed oid ho).1, (C03.updateStep_outcome p w failed oid ho).1, C03.placeStep_outcome p w oid ho⟩


/-! ### the simulated execution of a whole package -/

open Flumine.World Flumine.OL Flumine.Settle Flumine.Inv in
/-- C12 for simulated execution, whole package: whatever the kind of the package (place / cancel / update /
    replace), whatever the simulated exchange answers for each instruction (success, failure with any error,
    a refused re-placement), and whatever happened to the orders while the request waited out its latency
    (matched, lapsed, voided, completed), after the package has been executed EVERY order of it is executable
    or complete - none is left pending, cancelling, updating or replacing.  (Before fix 369e08f this statement
    was false for replace packages: an order that had completed since the request shifted the instructions and
    the last order of the package was never handled.) -/
theorem package_settles_every_order (w : World) (p : Package) (hI : Inv w) (hp : ∀ oid ∈ p.orders, HasOrder w oid) :
    ∀ oid ∈ w.packageOrders p, Settled ((w.executePackage p).order! oid) := by
  have hpo : ∀ oid ∈ w.packageOrders p, HasOrder w oid := fun oid h => hp oid (List.mem_filter.mp h).1
  intro oid hoid
  unfold executePackage
  cases p.kind with
  | place =>
    simp only; unfold executePlace
    have := fold_settles (σ := World) id id (placeStep p) Inv
      (fun s a h _ => settled_of_outcome _ _ (C03.placeStep_outcome p s a h))
      (fun s a h _ => fr_placeStep s p s a h)
      (fun s a _ hi => (good_placeStep p s a).2 hi) (w.packageOrders p) w hI hpo oid hoid
    simp only [id] at this
    rw [order!_congr _ _ (show (((w.packageOrders p).foldl (placeStep p) w).addTransaction p.client _ false).orders = _ from rfl) oid]
    exact this
  | cancel =>
    simp only; unfold executeCancel
    simp only
    have := fold_settles (σ := World × Nat) (·.1) id (cancelStep p) Inv
      (fun s a h _ => settled_of_outcome _ _ (C03.cancelStep_outcome p s.1 s.2 a h).1)
      (fun s a h _ => fr_cancelStep s.1 p s a h)
      (fun s a _ hi => (good_cancelStep p s a).2 hi) (w.packageOrders p) (w, 0) hI hpo oid hoid
    simp only [id] at this
    generalize (w.packageOrders p).foldl (cancelStep p) (w, 0) = r at this
    obtain ⟨w1, failed⟩ := r
    simp only at this ⊢
    split
    · rw [order!_congr _ _ (show (w1.addTransaction p.client failed true).orders = w1.orders from rfl) oid]; exact this
    · exact this
  | update =>
    simp only; unfold executeUpdate
    simp only
    have := fold_settles (σ := World × Nat) (·.1) id (updateStep p) Inv
      (fun s a h _ => settled_of_outcome _ _ (C03.updateStep_outcome p s.1 s.2 a h).1)
      (fun s a h _ => fr_updateStep s.1 p s a h)
      (fun s a _ hi => (good_updateStep p s a).2 hi) (w.packageOrders p) (w, 0) hI hpo oid hoid
    simp only [id] at this
    generalize (w.packageOrders p).foldl (updateStep p) (w, 0) = r at this
    obtain ⟨w1, failed⟩ := r
    simp only at this ⊢
    split
    · rw [order!_congr _ _ (show (w1.addTransaction p.client failed true).orders = w1.orders from rfl) oid]; exact this
    · exact this
  | replace =>
    simp only; unfold executeReplace
    simp only
    -- the orders that still have an instruction, each paired with its own
    have hfr : ∀ (s : World × Nat) (a : Nat × Option Rat), HasOrder s.1 a.1 → Inv s.1 → Fr s.1 a.1 s.1 (replaceStep p s a).1 :=
      fun s a h hi => fr_replaceStep s.1 p s a h hi (Ids.Keeps.refl s.1)
    have hP : ∀ (s : World × Nat) (a : Nat × Option Rat), HasOrder s.1 a.1 → Inv s.1 → Inv (replaceStep p s a).1 :=
      fun s a _ hi => (good_replaceStep p s a).2 hi
    have hlive : ∀ a ∈ ((w.packageOrders p).filter fun oid => (w.order! oid).status ≠ some .executionComplete).map (fun oid => (oid, (w.order! oid).ud.newPrice)),
        HasOrder w a.1 := by
      intro a ha
      obtain ⟨x, hx, rfl⟩ := List.mem_map.mp ha
      exact hpo x (List.mem_filter.mp hx).1
    have hres : Settled (((((w.packageOrders p).filter fun oid => (w.order! oid).status ≠ some .executionComplete).map
        (fun oid => (oid, (w.order! oid).ud.newPrice))).foldl (replaceStep p) (w, 0)).1.order! oid) := by
      by_cases hec : (w.order! oid).status = some .executionComplete
      · -- completed since the request: no instruction, nothing touches it
        refine fold_keeps_settled (σ := World × Nat) (·.1) (·.1) (replaceStep p) Inv hfr hP oid _ (w, 0) hI hlive ?_ (hpo oid hoid) (Or.inr (Or.inl hec))
        intro a ha e
        obtain ⟨x, hx, rfl⟩ := List.mem_map.mp ha
        have := (List.mem_filter.mp hx).2
        simp only [ne_eq, decide_eq_true_eq] at this
        simp only at e
        rw [e] at this; exact this hec
      · have hin : (oid, (w.order! oid).ud.newPrice) ∈ ((w.packageOrders p).filter fun oid => (w.order! oid).status ≠ some .executionComplete).map
            (fun oid => (oid, (w.order! oid).ud.newPrice)) :=
          List.mem_map.mpr ⟨oid, List.mem_filter.mpr ⟨hoid, by simpa using hec⟩, rfl⟩
        exact fold_settles (σ := World × Nat) (·.1) (·.1) (replaceStep p) Inv
          (fun s a h hi => replaceStep_own p s a h hi) hfr hP _ (w, 0) hI hlive _ hin
    generalize (((w.packageOrders p).filter fun oid => (w.order! oid).status ≠ some .executionComplete).map
        (fun oid => (oid, (w.order! oid).ud.newPrice))).foldl (replaceStep p) (w, 0) = r at hres
    obtain ⟨w1, failed⟩ := r
    simp only at hres ⊢
    split
    · exact hres
    · exact hres

open Flumine.World Flumine.OL Flumine.Settle Flumine.Inv in
/-- ... in every reachable state, for every package waiting in the queue -/
theorem queued_package_settles_reachable (cfg : Config) (cl : List Client) (ss : List Strategy)
    (us : List (Nat × Book × (Nat → List Action))) :
    ∀ p ∈ (runUpdates { cfg := cfg, clients := cl, strategies := ss } us).queue,
      ∀ oid ∈ (runUpdates { cfg := cfg, clients := cl, strategies := ss } us).packageOrders p,
        Settled (((runUpdates { cfg := cfg, clients := cl, strategies := ss } us).executePackage p).order! oid) := by
  intro p hp
  have hI := inv_reachable cfg cl ss us
  exact package_settles_every_order _ p hI (fun oid ho => (Ids.hasOrder_iff _ oid).mpr (hI.queue p hp oid ho))


/-- non-vacuity of `package_settles_every_order` on the history that exposed the defect: two orders replaced in one
    package, the first fully matched while the request waits; the package [0, 1] is queued with order 0 already
    EXECUTION_COMPLETE and order 1 REPLACING - executing it completes order 1 and creates its replacement (3 orders) -/
def nvBk (pt : Int) (trd : List (Rat × Rat)) : Book :=
  { pt := pt, activeRunners := 2, runners := [{ sel := 1, atb := [⟨2, 50⟩], atl := [⟨5/2, 50⟩], trd := trd }, { sel := 2 }] }
def nvO (id : Nat) (size : Rat) : Order :=
  { id := id, trade := id, strategy := 0, market := 1, sel := 1, sim := { side := .back, kind := .limit, price := 3, size := size } }
def nvRun : World :=
  Inv.runUpdates { clients := [{ id := 0 }], strategies := [{ id := 0, streams := [0], maxLive := 5, multiOrder := true, maxOrder := none, maxSel := none }] }
    [(1, nvBk 1000 [], fun _ => [.create (nvO 0 4) (some { id := 0, strategy := 0, market := 1, sel := 1 }), .place (.byId 0) none false,
                                  .create (nvO 1 50) (some { id := 1, strategy := 0, market := 1, sel := 1 }), .place (.byId 1) none false]),
     (1, nvBk 1200 [], fun _ => []),
     (1, nvBk 1300 [], fun _ => [.batchBegin 0, .replace (.byId 0) (7/2) none false, .replace (.byId 1) (7/2) none false, .batchEnd]),
     (1, nvBk 1400 [(3, 20)], fun _ => [])]
example : (nvRun.queue.map fun p => (p.kind.name, p.orders)) = [("REPLACE", [0, 1])] ∧
    (nvRun.order! 0).status = some .executionComplete ∧ (nvRun.order! 1).status = some .replacing := by decide +kernel
example : (nvRun.queue.map fun p => (((nvRun.executePackage p).order! 1).status, (nvRun.executePackage p).orders.length)) =
    [(some .executionComplete, 3)] := by decide +kernel

/-! ### non-vacuity -/

def cancelling : LOrder := { id := 0, status := some .cancelling, log := [.pending, .executable, .cancelling], betId := some 7 }
example : (cancelReport cancelling { status := .failure }).status = some .executable := by decide +kernel
example : (cancelReport cancelling { status := .success, sizeCancelled := 2 }).complete = true := by decide +kernel
example : Stuck cancelling := ⟨rfl, Or.inl rfl⟩

end Flumine.C12
