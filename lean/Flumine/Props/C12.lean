/-
  C12 — Exchange call faults never strand an order or lose a transaction count.
  Model: Flumine.Live (Betfair response handlers per order, reset after exhausted retries, retry
  counter, transaction charges) and SimExec (simulated handlers: C03.cancelStep_outcome etc.).
-/
import Flumine.Live
import Flumine.Props.C03
import Flumine.Lemmas.Settle
import Flumine.Lemmas.Strand
namespace Flumine.C12
open Flumine Flumine.Live

/-- a state from which the order can progress: resting at the exchange, or complete -/
def Progressable (o : LOrder) : Prop := o.status = some .executable ∨ o.complete = true

def Stuck (o : LOrder) : Prop :=
  o.complete = false ∧ (o.status = some .cancelling ∨ o.status = some .updating ∨ o.status = some .replacing)

theorem progressable_not_stuck (o : LOrder) (h : Progressable o) : ¬ Stuck o := by
  rintro ⟨hc, hs⟩
  rcases h with h | h
  · rw [h] at hs; rcases hs with e | e | e <;> cases e
  · rw [h] at hc; cases hc

theorem executable_progressable (o : LOrder) : Progressable (executable o) := by
  unfold executable Progressable
  by_cases h : o.complete = true
  · rw [if_pos h]; exact Or.inr h
  · rw [if_neg h]; exact Or.inl rfl

theorem executionComplete_progressable (o : LOrder) : Progressable (executionComplete o) := Or.inr rfl

theorem executable_keeps_complete (o : LOrder) (h : o.complete = true) : executable o = o := by
  unfold executable; rw [if_pos h]

/-! ### every outcome of a cancel / update / replace call leaves the order progressable -/

theorem cancel_any_report (o : LOrder) (r : CancelRep) : Progressable (cancelReport o r) := by
  unfold cancelReport
  cases r.status with
  | success => simp only; split <;> first | exact executionComplete_progressable _ | exact executable_progressable _
  | failure => simp only; split <;> first | exact executionComplete_progressable _ | exact executable_progressable _
  | timeout => exact executable_progressable _

theorem cancel_missing_report (o : LOrder) : Progressable (cancelMissing o) := executable_progressable _

theorem update_any_report (o : LOrder) (r : RepStatus) : Progressable (updateReport o r) := executable_progressable _

theorem replace_any_report (o : LOrder) (r : RepStatus) : Progressable (replaceCancelReport o r) := by
  unfold replaceCancelReport
  cases r with
  | success => exact executionComplete_progressable _
  | failure => exact executable_progressable _
  | timeout => exact executable_progressable _

/-- exhausted retries: PLACE orders are completed, the others are put back to executable -/
theorem reset_progressable (c : Bool) (o : LOrder) : Progressable (resetOrder c o) := by
  unfold resetOrder
  cases c
  · exact executable_progressable _
  · exact executionComplete_progressable _

/-- a placement: afterwards the order is executable or complete, or still pending only when the
    exchange may yet have accepted it (asynchronous acknowledgement, or a timeout) -/
theorem place_any_report (o : LOrder) (r : PlaceRep) (hp : o.status = some .pending ∨ o.complete = true) :
    Progressable (placeReport o r) ∨
    ((placeReport o r).status = some .pending ∧ (r.status = .timeout ∨ (r.status = .success ∧ r.orderStatus = some .pending))) := by
  unfold placeReport
  simp only
  cases hr : r.status with
  | success =>
    simp only
    cases hos : r.orderStatus with
    | none => left; exact executable_progressable _
    | some st =>
      cases st <;> simp only <;> first
        | (left; exact executable_progressable _)
        | (left; exact executionComplete_progressable _)
        | (rcases hp with h | h
           · right; refine ⟨h, Or.inr ?_⟩; simp_all
           · left; exact Or.inr h)
  | failure => left; exact executionComplete_progressable _
  | timeout =>
    rcases hp with h | h
    · right; exact ⟨h, Or.inl rfl⟩
    · left; exact Or.inr h

/-- no handler brings a complete order back to life (the report arrived after the order completed through the stream) -/
theorem handlers_never_revive (o : LOrder) (h : o.complete = true) :
    (∀ r, (placeReport o r).complete = true) ∧ (∀ r, (cancelReport o r).complete = true) ∧ (cancelMissing o).complete = true ∧
    (∀ r, (updateReport o r).complete = true) ∧ (∀ r, (replaceCancelReport o r).complete = true) ∧ (∀ c, (resetOrder c o).complete = true) := by
  have ex : ∀ x : LOrder, x.complete = true → (executable x).complete = true := by
    intro x hx; rw [executable_keeps_complete x hx]; exact hx
  refine ⟨?_, ?_, ex o h, ?_, ?_, ?_⟩
  · intro r
    unfold placeReport
    simp only
    cases r.status with
    | success =>
      simp only
      cases r.orderStatus with
      | none => exact ex _ h
      | some st => cases st <;> first | exact ex _ h | rfl | exact h
    | failure => rfl
    | timeout => exact h
  · intro r
    unfold cancelReport
    cases r.status with
    | success => simp only; split <;> first | rfl | exact ex _ h
    | failure => simp only; split <;> first | rfl | exact ex _ h
    | timeout => exact ex _ h
  · intro r; exact ex _ h
  · intro r
    unfold replaceCancelReport
    cases r with
    | success => rfl
    | failure => exact ex _ h
    | timeout => exact ex _ h
  · intro c
    unfold resetOrder
    cases c
    · exact ex _ h
    · rfl

/-! ### retries -/

theorem retry_bound (a : Attempts) (n : Nat) : callsMade n a ≤ a.maxRetries + 1 := Nat.min_le_right _ _

theorem retry_counts (a : Attempts) : (retry a).2 = true ↔ a.retryCount < a.maxRetries := by
  unfold retry; split <;> simp_all

/-- the retry counter never exceeds the configured maximum, whatever the sequence of failures -/
theorem retry_invariant (a : Attempts) (h : a.retryCount ≤ a.maxRetries) : (retry a).1.retryCount ≤ (retry a).1.maxRetries := by
  unfold retry; split
  · simp only; omega
  · exact h

theorem default_is_three_retries : ({} : Attempts).maxRetries = 3 ∧ callsMade 10 {} = 4 := by decide

/-! ### transaction counts -/

/-- bets submitted (placements and replacements of answered calls) plus failed instructions reported -/
theorem charges (c : Counts) (nPlace nReplace : Nat) (cancels updates replaceHalves : List RepStatus) :
    (chargeReplace (chargeCancel (chargeCancel (chargePlace c nPlace) cancels) updates) nReplace replaceHalves).count
      = c.count + nPlace + nReplace ∧
    (chargeReplace (chargeCancel (chargeCancel (chargePlace c nPlace) cancels) updates) nReplace replaceHalves).failed
      = c.failed + countFailures cancels + countFailures updates + countFailures replaceHalves := ⟨rfl, rfl⟩

theorem countFailures_le (rs : List RepStatus) : countFailures rs ≤ rs.length := List.length_filter_le _ _

/-! ### the simulated execution (restated from C03 for this property) -/

open Flumine.World Flumine.OL in
/-- simulated cancel / update / place handlers: the order handled ends executable or complete (or stays
    as final as it was) — never cancelling / updating / replacing -/
theorem simulated_handlers_settle (p : Package) (w : World) (failed oid : Nat) (ho : HasOrder w oid) :
    C03.HandlerOutcome (w.order! oid) ((cancelStep p (w, failed) oid).1.order! oid) ∧
    C03.HandlerOutcome (w.order! oid) ((updateStep p (w, failed) oid).1.order! oid) ∧
    C03.HandlerOutcome (w.order! oid) ((placeStep p w oid).order! oid) :=
  ⟨(C03.cancelStep_outcome p w failed oid ho).1, (C03.updateStep_outcome p w failed oid ho).1, C03.placeStep_outcome p w oid ho⟩


/-! ### the simulated execution of a whole package -/

open Flumine.World Flumine.OL Flumine.Settle Flumine.Inv in
/-- C12 for simulated execution, whole package: whatever the kind of the package (place / cancel / update /
    replace), whatever the simulated exchange answers for each instruction (success, failure with any error,
    a refused re-placement), and whatever happened to the orders while the request waited out its latency
    (matched, lapsed, voided, completed), after the package has been executed EVERY order of it is executable
    or complete - none is left pending, cancelling, updating or replacing.  (Before fix 369e08f this statement
    was false for replace packages: an order that had completed since the request shifted the instructions and
    the last order of the package was never handled.) -/
theorem package_settles_every_order (w : World) (p : Package) (hI : Inv w) (hp : ∀ oid ∈ p.orders, HasOrder w oid) :
    ∀ oid ∈ w.packageOrders p, Settled ((w.executePackage p).order! oid) :=
  Settle.package_settles w p hI hp

open Flumine.World Flumine.OL Flumine.Settle Flumine.Inv in
/-- ... in every reachable state, for every package waiting in the queue -/
theorem queued_package_settles_reachable (cfg : Config) (cl : List Client) (ss : List Strategy)
    (us : List (Nat × Book × (Nat → List Action))) :
    ∀ p ∈ (runUpdates { cfg := cfg, clients := cl, strategies := ss } us).queue,
      ∀ oid ∈ (runUpdates { cfg := cfg, clients := cl, strategies := ss } us).packageOrders p,
        Settled (((runUpdates { cfg := cfg, clients := cl, strategies := ss } us).executePackage p).order! oid) := by
  intro p hp
  have hI := inv_reachable cfg cl ss us
  exact package_settles_every_order _ p hI (fun oid ho => (Ids.hasOrder_iff _ oid).mpr (hI.queue p hp oid ho))


/-- non-vacuity of `package_settles_every_order` on the history that exposed the defect: two orders replaced in one
    package, the first fully matched while the request waits; the package [0, 1] is queued with order 0 already
    EXECUTION_COMPLETE and order 1 REPLACING - executing it completes order 1 and creates its replacement (3 orders) -/
def nvBk (pt : Int) (trd : List (Rat × Rat)) : Book :=
  { pt := pt, activeRunners := 2, runners := [{ sel := 1, atb := [⟨2, 50⟩], atl := [⟨5/2, 50⟩], trd := trd }, { sel := 2 }] }
def nvO (id : Nat) (size : Rat) : Order :=
  { id := id, trade := id, strategy := 0, market := 1, sel := 1, sim := { side := .back, kind := .limit, price := 3, size := size } }
def nvRun : World :=
  Inv.runUpdates { clients := [{ id := 0 }], strategies := [{ id := 0, streams := [0], maxLive := 5, multiOrder := true, maxOrder := none, maxSel := none }] }
    [(1, nvBk 1000 [], fun _ => [.create (nvO 0 4) (some { id := 0, strategy := 0, market := 1, sel := 1 }), .place (.byId 0) none false,
                                  .create (nvO 1 50) (some { id := 1, strategy := 0, market := 1, sel := 1 }), .place (.byId 1) none false]),
     (1, nvBk 1200 [], fun _ => []),
     (1, nvBk 1300 [], fun _ => [.batchBegin 0, .replace (.byId 0) (7/2) none false, .replace (.byId 1) (7/2) none false, .batchEnd]),
     (1, nvBk 1400 [(3, 20)], fun _ => [])]
example : (nvRun.queue.map fun p => (p.kind.name, p.orders)) = [("REPLACE", [0, 1])] ∧
    (nvRun.order! 0).status = some .executionComplete ∧ (nvRun.order! 1).status = some .replacing := by decide +kernel
example : (nvRun.queue.map fun p => (((nvRun.executePackage p).order! 1).status, (nvRun.executePackage p).orders.length)) =
    [(some .executionComplete, 3)] := by decide +kernel

/-! ### C12 for simulated execution, whole run: no order is ever stranded (`Lemmas/Strand.lean`) -/

open Flumine.World Flumine.OL Flumine.Settle Flumine.Inv Flumine.Fl Flumine.Strand in
/-- Take ANY history - any sequence of updates of any markets, in any interleaving, any scripted behaviour of any
    strategies (requests batched or not, forced or not, refused or accepted), packages executed after their latency
    with any simulated answers, matching, removals, completion loop, closes and re-opens - in which every request went
    through the market its order was created for (`foreign = 0`, as in C03).  Then every order that is PENDING,
    CANCELLING, UPDATING or REPLACING is listed by a package that waits in the handler queue, and executing that
    package leaves it executable or complete: no order is left in an in-flight status without the operation that
    will settle it.  (By C03 `one_operation_in_flight_whole_run` that package is the only one listing it.) -/
theorem no_order_stranded_whole_run (cfg : Config) (cl : List Client) (ss : List Strategy)
    (us : List (Nat × Book × (Nat → List Action)))
    (hloc : (runUpdates { cfg := cfg, clients := cl, strategies := ss } us).foreign = 0) (oid : Nat)
    (ho : HasOrder (runUpdates { cfg := cfg, clients := cl, strategies := ss } us) oid)
    (hf : ((runUpdates { cfg := cfg, clients := cl, strategies := ss } us).order! oid).status = some .pending ∨
          ((runUpdates { cfg := cfg, clients := cl, strategies := ss } us).order! oid).status = some .cancelling ∨
          ((runUpdates { cfg := cfg, clients := cl, strategies := ss } us).order! oid).status = some .updating ∨
          ((runUpdates { cfg := cfg, clients := cl, strategies := ss } us).order! oid).status = some .replacing) :
    ∃ p ∈ (runUpdates { cfg := cfg, clients := cl, strategies := ss } us).queue,
      oid ∈ (runUpdates { cfg := cfg, clients := cl, strategies := ss } us).packageOrders p ∧
      Settled (((runUpdates { cfg := cfg, clients := cl, strategies := ss } us).executePackage p).order! oid) := by
  obtain ⟨f, c⟩ := strand_reachable cfg cl ss us hloc
  generalize runUpdates { cfg := cfg, clients := cl, strategies := ss } us = w at f c ho hf
  have hin := c.cv oid ho hf
  have hp : pendIds w none = queueIds w := by unfold pendIds batchIds; simp
  rw [hp] at hin
  obtain ⟨p, hp1, hp2⟩ := mem_queueIds.mp hin
  have hpo : oid ∈ w.packageOrders p := by
    unfold packageOrders
    refine List.mem_filter.mpr ⟨hp2, ?_⟩
    simp only [ne_eq, decide_eq_true_eq]
    intro e
    rcases hf with h | h | h | h <;> (rw [e] at h; cases h)
  exact ⟨p, hp1, hpo, Settle.package_settles w p f.inv (fun x hx => (Ids.hasOrder_iff _ x).mpr (f.inv.queue p hp1 x hx)) oid hpo⟩

open Flumine.World Flumine.OL Flumine.Inv Flumine.Fl Flumine.Strand in
/-- the re-placement half of a simulated replace (`market.place_order(replacement, execute=False)` then
    `replacement.executable()`, or `execution_complete()` when the simulated exchange refuses it): the only order it
    creates is the replacement order, and that order ends EXECUTABLE (placed) or EXECUTION_COMPLETE (refused) - it is
    never left PENDING although it passes through that status -/
theorem replacement_order_is_settled (p : Package) (w : World) (o : Order) (a : Nat) (book : Book) (np : Option Rat) (sc : Rat) (failed : Nat)
    (ha : HasOrder w a) (hI : Inv w) (x : Nat) (hnew : ¬ HasOrder w x) (hx : HasOrder (replacePlace p w o a book np sc failed).1 x) :
    ((replacePlace p w o a book np sc failed).1.order! x).status = some .executable ∨
    ((replacePlace p w o a book np sc failed).1.order! x).status = some .executionComplete :=
  replacePlace_new p w o a book np sc failed ha hI x hnew hx

/-- non-vacuity: in `nvRun` (below: a replace package [0, 1] waits, order 1 is REPLACING) no request was foreign -/
example : nvRun.foreign = 0 := by decide +kernel

/-! ### non-vacuity -/

def cancelling : LOrder := { id := 0, status := some .cancelling, log := [.pending, .executable, .cancelling], betId := some 7 }
example : (cancelReport cancelling { status := .failure }).status = some .executable := by decide +kernel
example : (cancelReport cancelling { status := .success, sizeCancelled := 2 }).complete = true := by decide +kernel
example : Stuck cancelling := ⟨rfl, Or.inl rfl⟩

end Flumine.C12
