/-
  C03 (continued) — legal transitions for whole runs.  `Props/C03.lean` proves the guards, the handler outcomes, finality and
  one-operation-in-flight; this file (it imports the invariant layers that themselves import C03.lean) adds the clause
  "every status step is a legal step of the documented lifecycle" for every reachable state: `Lemmas/Legal.lean` proves, for
  every function of an update, that it extends the status log of every order by a legal path.
-/
import Flumine.Lemmas.Legal
namespace Flumine.C03W
open Flumine Flumine.World Flumine.OL Flumine.Legal

/-- the steps accepted here are exactly the documented lifecycle (`C03.legal`) and the two steps of a refused order that
    never left the framework: it may be submitted again, or refused again -/
theorem legal_step_spec (s : Option Status) (t : Status) :
    legal' s t = true ↔ (C03.legal s t = true ∨ (s = some .violation ∧ (t = .pending ∨ t = .violation))) := by
  unfold legal'
  cases s with
  | none => cases t <;> decide
  | some s' => cases s' <;> cases t <;> decide

/-- the table the driver answers from (`status.legal`, model file `Status.lean`) is this one -/
theorem legalStep_eq (s : Option Status) (t : Status) : Status.legalStep s t = legal' s t := by
  cases s with
  | none => cases t <;> decide
  | some s' => cases s' <;> cases t <;> decide

/-- `chain s l`: what it says, pair by pair -/
theorem chain_head {s : Option Status} {t : Status} {r : List Status} (h : chain s (t :: r) = true) : legal' s t = true := by
  simp only [chain, Bool.and_eq_true] at h; exact h.1

theorem chain_pairs {s : Option Status} {l : List Status} (h : chain s l = true) (pre : List Status) (a b : Status) (post : List Status)
    (hl : l = pre ++ a :: b :: post) : legal' (some a) b = true := by
  subst hl
  rw [chain_append] at h
  simp only [chain, Bool.and_eq_true] at h
  exact h.2.2.1

theorem lastOr_eq_getLast (s : Option Status) (l : List Status) : lastOr s l = (l.getLast?).or s := by
  induction l generalizing s with
  | nil => simp [lastOr]
  | cons t r ih =>
    rw [lastOr, ih]
    cases r with
    | nil => simp
    | cons u v =>
      rw [List.getLast?_cons_cons]
      cases h : (u :: v).getLast? with
      | none => simp at h
      | some x => simp

open Flumine.Inv in
/-- C03 legal transitions, whole-run: take ANY history - any sequence of updates of any markets, in any interleaving, with
    any scripted behaviour of any strategies (requests batched or not, forced or not, refused or accepted, on any order),
    packages executed after their latency, matching, removals, completion loop, closes and re-opens - in which every request
    went through the market its order was created for (`foreign = 0`, as in `one_operation_in_flight_whole_run`).  Then for
    every order that exists at the end: the first entry of its status log is a legal first status (PENDING, or VIOLATION for
    an order refused before it was sent, or EXECUTION_COMPLETE for a replacement order whose placement was refused), every
    further entry is a legal step from the entry before it, and the order's status is the last entry of its log (no status
    while the log is empty).  Every status change of the run went through `_update_status`, which appends to the log, so
    this covers every status change that ever happened. -/
theorem legal_transitions_whole_run (cfg : Config) (cl : List Client) (ss : List Strategy)
    (us : List (Nat × Book × (Nat → List Action)))
    (hloc : (runUpdates { cfg := cfg, clients := cl, strategies := ss } us).foreign = 0) (oid : Nat) :
    (∀ t rest, ((runUpdates { cfg := cfg, clients := cl, strategies := ss } us).order! oid).log = t :: rest → legal' none t = true) ∧
    (∀ pre a b post, ((runUpdates { cfg := cfg, clients := cl, strategies := ss } us).order! oid).log = pre ++ a :: b :: post →
      legal' (some a) b = true) ∧
    ((runUpdates { cfg := cfg, clients := cl, strategies := ss } us).order! oid).status =
      ((runUpdates { cfg := cfg, clients := cl, strategies := ss } us).order! oid).log.getLast? := by
  have h := legal_reachable cfg cl ss us hloc oid
  generalize (runUpdates { cfg := cfg, clients := cl, strategies := ss } us).order! oid = o at h
  obtain ⟨h1, h2⟩ := h
  refine ⟨fun t rest e => chain_head (e ▸ h1), fun pre a b post e => chain_pairs h1 pre a b post e, ?_⟩
  rw [h2, lastOr_eq_getLast]; simp

open Flumine.Inv in
/-- the same, as one boolean over the log (what the correspondence check evaluates on the real orders' `status_log`) -/
theorem legal_log_whole_run (cfg : Config) (cl : List Client) (ss : List Strategy)
    (us : List (Nat × Book × (Nat → List Action)))
    (hloc : (runUpdates { cfg := cfg, clients := cl, strategies := ss } us).foreign = 0) (oid : Nat) :
    chain none ((runUpdates { cfg := cfg, clients := cl, strategies := ss } us).order! oid).log = true :=
  (legal_reachable cfg cl ss us hloc oid).1

open Flumine.Inv in
/-- consequence: no order is ever EXPIRED in a simulation, and none goes back to "no status" -/
theorem never_expired_whole_run (cfg : Config) (cl : List Client) (ss : List Strategy)
    (us : List (Nat × Book × (Nat → List Action)))
    (hloc : (runUpdates { cfg := cfg, clients := cl, strategies := ss } us).foreign = 0) (oid : Nat) :
    ((runUpdates { cfg := cfg, clients := cl, strategies := ss } us).order! oid).status ≠ some .expired :=
  (legal_reachable cfg cl ss us hloc oid).not_expired

/-- the execution of ONE package in a state where its orders are distinct and each in flight or complete appends only legal
    steps to every order's log (no hypothesis on how the state was reached: late responses, orders completed meanwhile,
    every kind of package; the replacement orders a REPLACE package creates included) -/
theorem package_execution_is_legal (w : World) (p : Package) (hI : Inv.Inv w) (hnd : p.orders.Nodup)
    (hp : ∀ oid ∈ p.orders, HasOrder w oid ∧ Pre (w.order! oid)) (oid : Nat) :
    ∃ path, ((w.executePackage p).order! oid).log = (w.order! oid).log ++ path ∧ chain (w.order! oid).status path = true :=
  let ⟨path, h1, h2, _⟩ := (lx_executePackage w p hI hnd hp).ext oid
  ⟨path, h1, h2⟩

/-! ### non-vacuity -/

/-- the run of `C03.nvWorld` (an order placed and fully matched) satisfies the hypothesis and has a three-step log -/
example : C03.nvWorld.foreign = 0 ∧ (C03.nvWorld.order! 0).log = [.pending, .executable, .executionComplete] ∧
    chain none (C03.nvWorld.order! 0).log = true := by decide +kernel

/-- `chain` does reject illegal logs: an order that becomes EXECUTABLE without ever being PENDING, one that returns from
    EXECUTION_COMPLETE, one that is PENDING twice -/
example : chain none [.executable] = false ∧ chain none [.pending, .executable, .executionComplete, .executable] = false ∧
    chain none [.pending, .pending] = false ∧ chain none [.pending, .executable, .cancelling, .updating] = false := by decide

/-- why the hypothesis is there: in `C03.nvForeign` order 0 is placed a second time through another market while its first
    placement is in flight - flumine accepts it (PENDING -> PENDING), and the ghost counter is 1 -/
example : C03.nvForeign.foreign = 1 ∧ chain none (C03.nvForeign.order! 0).log = false := by decide +kernel

end Flumine.C03W
