/-
  C18 (companion) — the simulated execution handlers and the client's transaction control, in the world model:
  what each handler adds to the counters of the package's client, and that it adds nothing to anybody else's.
  Frame: Lemmas/Clients.lean (no per-order step of a handler writes the client table).
-/
import Flumine.Lemmas.Clients
import Flumine.Props.C18
namespace Flumine.C18H
open Flumine Flumine.World

/-- the MaxTransactionCount control of client `cid` -/
def cnt (w : World) (cid : Nat) : TxnCounter := (w.client! cid).counter

theorem cnt_congr (w1 w2 : World) (h : w1.clients = w2.clients) (cid : Nat) : cnt w1 cid = cnt w2 cid := by
  unfold cnt client! client?; rw [h]
theorem client?_congr (w1 w2 : World) (h : w1.clients = w2.clients) (cid : Nat) : w1.client? cid = w2.client? cid := by
  unfold client?; rw [h]

theorem add_zero_failed (k : TxnCounter) : k.add 0 true = k := rfl

theorem cnt_addTransaction (w : World) (cid n : Nat) (f : Bool) (h : (w.client? cid).isSome = true) :
    cnt (w.addTransaction cid n f) cid = (cnt w cid).add n f := C18.addTransaction_exact w cid n f h

theorem isSome_addTransaction (w : World) (cid n : Nat) (f : Bool) (h : (w.client? cid).isSome = true) :
    ((w.addTransaction cid n f).client? cid).isSome = true := by
  unfold addTransaction client! client? setClient at *
  cases hx : w.clients.find? (fun y => decide (y.id = cid)) with
  | none => rw [hx] at h; cases h
  | some x =>
    have hid : x.id = cid := by simpa using List.find?_some hx
    simp only [Option.getD_some]
    rw [C18.find_after_set w.clients cid { x with counter := x.counter.add n f } hid x hx]
    rfl

/-- C18.1, PLACE: `execute_place` adds to the client of the package exactly the number of orders of the package
    (`len(order_package)`: the orders not refused meanwhile) to the submitted-bets counters, total and hourly, and no failure -/
theorem executePlace_counts (w : World) (p : Package) (h : (w.client? p.client).isSome = true) :
    cnt (w.executePlace p) p.client =
      (cnt w p.client).add ((((w.packageOrders p).foldl (placeStep p) w).packageOrders p).length) false := by
  unfold executePlace
  simp only
  have hc := Clients.foldl_clients (placeStep p) (fun w oid => Clients.placeStep_clients p w oid) (w.packageOrders p) w
  rw [cnt_addTransaction _ _ _ _ (by rw [client?_congr _ _ hc]; exact h), cnt_congr _ _ hc]

/-- the failures a cancel / update / replace loop reports never exceed the instructions it looped over -/
theorem foldl_failed_le {α} (f : World × Nat → α → World × Nat) (hf : ∀ acc a, (f acc a).2 ≤ acc.2 + 1) (l : List α) (acc : World × Nat) :
    (l.foldl f acc).2 ≤ acc.2 + l.length := by
  induction l generalizing acc with
  | nil => simp
  | cons a as ih =>
    rw [List.foldl_cons, List.length_cons]
    have := ih (f acc a)
    have := hf acc a
    omega

theorem cancelStep_failed (p : Package) (acc : World × Nat) (oid : Nat) : (cancelStep p acc oid).2 ≤ acc.2 + 1 := by
  obtain ⟨w, failed⟩ := acc
  unfold cancelStep
  simp only
  repeat' split
  all_goals simp

theorem updateStep_failed (p : Package) (acc : World × Nat) (oid : Nat) : (updateStep p acc oid).2 ≤ acc.2 + 1 := by
  obtain ⟨w, failed⟩ := acc
  unfold updateStep
  simp only
  split <;> simp

theorem replacePlace_failed (p : Package) (w : World) (o : Order) (oid : Nat) (book : Book) (np : Option Rat) (sc : Rat) (failed : Nat) :
    (replacePlace p w o oid book np sc failed).2 = failed := by
  unfold replacePlace
  simp only
  split <;> rfl

theorem replaceStep_failed (p : Package) (acc : World × Nat) (pr : Nat × Option Rat) : (replaceStep p acc pr).2 ≤ acc.2 + 1 := by
  obtain ⟨w, failed⟩ := acc
  obtain ⟨oid, np⟩ := pr
  unfold replaceStep
  simp only
  split
  · simp
  · rw [replacePlace_failed]; simp

/-- C18.1, CANCEL: `execute_cancel` submits no bet; it adds exactly the failures its loop counted (at most one per
    instruction) to the failed-instruction counters of the package's client, total and hourly -/
theorem executeCancel_counts (w : World) (p : Package) (h : (w.client? p.client).isSome = true) :
    cnt (w.executeCancel p) p.client = (cnt w p.client).add ((w.packageOrders p).foldl (cancelStep p) (w, 0)).2 true ∧
    ((w.packageOrders p).foldl (cancelStep p) (w, 0)).2 ≤ (w.packageOrders p).length := by
  refine ⟨?_, by simpa using foldl_failed_le (cancelStep p) (cancelStep_failed p) (w.packageOrders p) (w, 0)⟩
  unfold executeCancel
  simp only
  have hc := Clients.foldl_pair_clients (cancelStep p) (fun acc oid => Clients.cancelStep_clients p acc oid) (w.packageOrders p) (w, 0)
  generalize (w.packageOrders p).foldl (cancelStep p) (w, 0) = r at hc
  obtain ⟨w1, failed⟩ := r
  simp only at hc ⊢
  split
  · rw [cnt_addTransaction _ _ _ _ (by rw [client?_congr _ _ hc]; exact h), cnt_congr _ _ hc]
  · rename_i hz
    have : failed = 0 := by simpa using hz
    subst this
    rw [add_zero_failed, cnt_congr _ _ hc]

/-- C18.1, UPDATE -/
theorem executeUpdate_counts (w : World) (p : Package) (h : (w.client? p.client).isSome = true) :
    cnt (w.executeUpdate p) p.client = (cnt w p.client).add ((w.packageOrders p).foldl (updateStep p) (w, 0)).2 true ∧
    ((w.packageOrders p).foldl (updateStep p) (w, 0)).2 ≤ (w.packageOrders p).length := by
  refine ⟨?_, by simpa using foldl_failed_le (updateStep p) (updateStep_failed p) (w.packageOrders p) (w, 0)⟩
  unfold executeUpdate
  simp only
  have hc := Clients.foldl_pair_clients (updateStep p) (fun acc oid => Clients.updateStep_clients p acc oid) (w.packageOrders p) (w, 0)
  generalize (w.packageOrders p).foldl (updateStep p) (w, 0) = r at hc
  obtain ⟨w1, failed⟩ := r
  simp only at hc ⊢
  split
  · rw [cnt_addTransaction _ _ _ _ (by rw [client?_congr _ _ hc]; exact h), cnt_congr _ _ hc]
  · rename_i hz
    have : failed = 0 := by simpa using hz
    subst this
    rw [add_zero_failed, cnt_congr _ _ hc]

/-- the instructions a replace package sends: its orders that have not completed since the request -/
def replaceLive (w : World) (p : Package) : List Nat :=
  (w.packageOrders p).filter fun oid => (w.order! oid).status ≠ some .executionComplete

/-- C18.1, REPLACE: every instruction sent is a submitted bet (also when its cancel half fails - the exchange counts the
    instruction), and every failed cancel half is a failed instruction on top; nothing else is added -/
theorem executeReplace_counts (w : World) (p : Package) (h : (w.client? p.client).isSome = true) :
    cnt (w.executeReplace p) p.client =
      ((cnt w p.client).add (replaceLive w p).length false).add
        (((replaceLive w p).map fun oid => (oid, (w.order! oid).ud.newPrice)).foldl (replaceStep p) (w, 0)).2 true ∧
    (((replaceLive w p).map fun oid => (oid, (w.order! oid).ud.newPrice)).foldl (replaceStep p) (w, 0)).2 ≤ (replaceLive w p).length := by
  refine ⟨?_, by simpa using foldl_failed_le (replaceStep p) (replaceStep_failed p) ((replaceLive w p).map fun oid => (oid, (w.order! oid).ud.newPrice)) (w, 0)⟩
  unfold executeReplace replaceLive
  simp only
  generalize hl : ((w.packageOrders p).filter fun oid => (w.order! oid).status ≠ some .executionComplete) = live
  generalize (live.map fun oid => (oid, (w.order! oid).ud.newPrice)) = zs
  have hc := Clients.foldl_pair_clients (replaceStep p) (fun acc pr => Clients.replaceStep_clients p acc pr) zs (w, 0)
  generalize zs.foldl (replaceStep p) (w, 0) = r at hc
  obtain ⟨w1, failed⟩ := r
  simp only at hc ⊢
  have h1 : (w1.client? p.client).isSome = true := by rw [client?_congr _ _ hc]; exact h
  split
  · rw [cnt_addTransaction _ _ _ _ (isSome_addTransaction _ _ _ _ h1), cnt_addTransaction _ _ _ _ h1, cnt_congr _ _ hc]
  · rename_i hz
    have : failed = 0 := by simpa using hz
    subst this
    rw [add_zero_failed, cnt_addTransaction _ _ _ _ h1, cnt_congr _ _ hc]

/-- whatever the package, the controls of the OTHER clients are exactly as they were (clients with different limits
    do not leak into each other through the handlers) -/
theorem executePackage_other_clients (w : World) (p : Package) (h : (w.client? p.client).isSome = true) (other : Nat) (hne : other ≠ p.client) :
    (w.executePackage p).client? other = w.client? other := by
  have two : ∀ (w1 : World) (hc : w1.clients = w.clients) (n : Nat) (f : Bool),
      (w1.addTransaction p.client n f).client? other = w.client? other := by
    intro w1 hc n f
    rw [C18.addTransaction_other w1 p.client other n f (by rw [client?_congr _ _ hc]; exact h) hne, client?_congr _ _ hc]
  unfold executePackage
  cases p.kind with
  | place =>
    simp only; unfold executePlace; simp only
    exact two _ (Clients.foldl_clients (placeStep p) (fun w oid => Clients.placeStep_clients p w oid) _ w) _ _
  | cancel =>
    simp only; unfold executeCancel; simp only
    have hc := Clients.foldl_pair_clients (cancelStep p) (fun acc oid => Clients.cancelStep_clients p acc oid) (w.packageOrders p) (w, 0)
    generalize (w.packageOrders p).foldl (cancelStep p) (w, 0) = r at hc
    obtain ⟨w1, failed⟩ := r
    simp only at hc ⊢
    split
    · exact two w1 hc _ _
    · exact client?_congr _ _ hc other
  | update =>
    simp only; unfold executeUpdate; simp only
    have hc := Clients.foldl_pair_clients (updateStep p) (fun acc oid => Clients.updateStep_clients p acc oid) (w.packageOrders p) (w, 0)
    generalize (w.packageOrders p).foldl (updateStep p) (w, 0) = r at hc
    obtain ⟨w1, failed⟩ := r
    simp only at hc ⊢
    split
    · exact two w1 hc _ _
    · exact client?_congr _ _ hc other
  | replace =>
    simp only; unfold executeReplace; simp only
    generalize (((w.packageOrders p).filter fun oid => (w.order! oid).status ≠ some .executionComplete).map fun oid => (oid, (w.order! oid).ud.newPrice)) = zs
    have hc := Clients.foldl_pair_clients (replaceStep p) (fun acc pr => Clients.replaceStep_clients p acc pr) zs (w, 0)
    generalize zs.foldl (replaceStep p) (w, 0) = r at hc
    obtain ⟨w1, failed⟩ := r
    simp only at hc ⊢
    have h1 : (w1.client? p.client).isSome = true := by rw [client?_congr _ _ hc]; exact h
    have e1 : (w1.addTransaction p.client ((w.packageOrders p).filter fun oid => (w.order! oid).status ≠ some .executionComplete).length false).client? other = w.client? other :=
      two w1 hc _ _
    split
    · rw [C18.addTransaction_other _ p.client other _ _ (isSome_addTransaction _ _ _ _ h1) hne]; exact e1
    · exact e1

end Flumine.C18H
