/-
  C18 — The transaction-limit control counts exactly and blocks when exceeded.
  Model: Txn.lean — TxnCounter.add (`add_transaction`), checkHour (`_check_hour` / `_set_next_hour`),
  counterSafe (`safe`); time is an integer millisecond clock, `hourKey` its clock hour.
-/
import Flumine.Txn
import Mathlib.Tactic.Linarith
import Mathlib.Data.List.Perm.Basic
namespace Flumine.C18
open Flumine Flumine.World

/-- what happens to a client's control: transactions are added, requests are validated at some time -/
inductive Ev
  | add (n : Nat) (failed : Bool)
  | validate (now : Time)

def step (k : TxnCounter) : Ev → TxnCounter
  | .add n f => k.add n f
  | .validate now => checkHour k now

def sumAdds (failed : Bool) : List Ev → Nat
  | [] => 0
  | .add n f :: rest => (if f = failed then n else 0) + sumAdds failed rest
  | .validate _ :: rest => sumAdds failed rest

theorem checkHour_totals (k : TxnCounter) (now : Time) :
    (checkHour k now).count = k.count ∧ (checkHour k now).failed = k.failed := by
  unfold checkHour
  cases k.nextHour with
  | none => refine ⟨?_, ?_⟩ <;> first | rfl | trivial
  | some h => simp only; split_ifs <;> refine ⟨?_, ?_⟩ <;> first | rfl | trivial

/-- C18.1 the total counters equal the sum of everything added since start-up, split by `failed`,
    whatever validations (hour checks) happened in between -/
theorem totals_exact (evs : List Ev) (k : TxnCounter) :
    (evs.foldl step k).count = k.count + sumAdds false evs ∧
    (evs.foldl step k).failed = k.failed + sumAdds true evs := by
  induction evs generalizing k with
  | nil => simp [sumAdds]
  | cons e rest ih =>
    simp only [List.foldl_cons]
    obtain ⟨h1, h2⟩ := ih (step k e)
    rw [h1, h2]
    cases e with
    | add n f =>
      cases f <;> simp [step, TxnCounter.add, sumAdds] <;> omega
    | validate now =>
      obtain ⟨a, b⟩ := checkHour_totals k now
      simp only [step, sumAdds, a, b]
      refine ⟨?_, ?_⟩ <;> first | rfl | trivial

/-- does this validation restart the hourly counters? (first validation, or the hour key of now + 1h changed) -/
def restarts (k : TxnCounter) (now : Time) : Bool :=
  match k.nextHour with
  | none => true
  | some h => decide (h ≠ hourKey now + 1)

theorem checkHour_restart (k : TxnCounter) (now : Time) (h : restarts k now = true) :
    (checkHour k now).curCount = 0 ∧ (checkHour k now).curFailed = 0 ∧ (checkHour k now).nextHour = some (hourKey now + 1) := by
  unfold checkHour restarts at *
  cases hk : k.nextHour with
  | none => refine ⟨?_, ?_, ?_⟩ <;> first | rfl | trivial
  | some x =>
    rw [hk] at h
    simp only [decide_eq_true_eq] at h
    simp only [h, ne_eq, not_false_eq_true, if_true]
    refine ⟨?_, ?_, ?_⟩ <;> first | rfl | trivial

theorem checkHour_same_hour (k : TxnCounter) (now : Time) (h : restarts k now = false) : checkHour k now = k := by
  unfold checkHour restarts at *
  cases hk : k.nextHour with
  | none => rw [hk] at h; simp at h
  | some x =>
    rw [hk] at h
    simp only [decide_eq_false_iff_not, ne_eq, not_not] at h
    simp [h]

/-- C18.2 the hourly counters: adds accumulate, a validation in the same clock hour leaves them, a
    validation in a new clock hour (or the very first one) restarts them from zero -/
theorem hourly_step (k : TxnCounter) (e : Ev) :
    (step k e).curCount + (step k e).curFailed =
      match e with
      | .add n _ => k.curCount + k.curFailed + n
      | .validate now => if restarts k now then 0 else k.curCount + k.curFailed := by
  cases e with
  | add n f => cases f <;> simp [step, TxnCounter.add] <;> omega
  | validate now =>
    simp only [step]
    by_cases h : restarts k now = true
    · obtain ⟨a, b, _⟩ := checkHour_restart k now h
      simp [h, a, b]
    · have h' : restarts k now = false := by simpa using h
      rw [checkHour_same_hour k now h']; simp [h']

/-- C18.2 between two restarts the hourly figure equals the quantity added since the last restart -/
theorem hourly_exact_since_restart (adds : List (Nat × Bool)) (k : TxnCounter) (now : Time) (h : restarts k now = true) :
    let k1 := (adds.map fun a => Ev.add a.1 a.2).foldl step (checkHour k now)
    k1.curCount + k1.curFailed = (adds.map (·.1)).sum := by
  intro k1
  obtain ⟨a, b, _⟩ := checkHour_restart k now h
  have gen : ∀ (l : List (Nat × Bool)) (k0 : TxnCounter),
      ((l.map fun a => Ev.add a.1 a.2).foldl step k0).curCount + ((l.map fun a => Ev.add a.1 a.2).foldl step k0).curFailed
        = k0.curCount + k0.curFailed + (l.map (·.1)).sum := by
    intro l
    induction l with
    | nil => intro k0; simp
    | cons x xs ih =>
      intro k0
      simp only [List.map_cons, List.foldl_cons, List.sum_cons]
      rw [ih]
      have := hourly_step k0 (.add x.1 x.2)
      simp only at this
      omega
  show ((adds.map fun a => Ev.add a.1 a.2).foldl step (checkHour k now)).curCount + _ = _
  rw [gen, a, b]; simp

/-- C18.3 executions finishing concurrently: increments commute, so any interleaving (permutation) of
    a multiset of add_transaction calls leaves the same counters -/
theorem add_comm (k : TxnCounter) (a b : Nat × Bool) : (k.add a.1 a.2).add b.1 b.2 = (k.add b.1 b.2).add a.1 a.2 := by
  obtain ⟨n, f⟩ := a; obtain ⟨m, g⟩ := b
  cases f <;> cases g <;> simp [TxnCounter.add] <;> omega

theorem order_independent (l1 l2 : List (Nat × Bool)) (h : l1.Perm l2) (k : TxnCounter) :
    l1.foldl (fun k a => k.add a.1 a.2) k = l2.foldl (fun k a => k.add a.1 a.2) k := by
  induction h generalizing k with
  | nil => rfl
  | cons x _ ih => simp only [List.foldl_cons]; exact ih _
  | swap x y l => simp only [List.foldl_cons]; rw [add_comm]
  | trans _ _ ih1 ih2 => rw [ih1, ih2]

/-- C18.4 once the hourly figure exceeds the limit the control is not safe: every non-forced request is
    refused (`validateControls` ends in `transactionCount`) as long as validations stay in the same clock hour -/
theorem blocks_when_exceeded (k : TxnCounter) (limit : Nat) (h : limit < k.curCount + k.curFailed) :
    counterSafe k (some limit) = false := by
  unfold counterSafe; simp; omega

theorem still_blocked_same_hour (k : TxnCounter) (limit : Nat) (now : Time) (h : limit < k.curCount + k.curFailed)
    (hs : restarts k now = false) : counterSafe (checkHour k now) (some limit) = false := by
  rw [checkHour_same_hour k now hs]; exact blocks_when_exceeded k limit h

/-- the first request in a new clock hour is evaluated on counters restarted from zero, hence accepted -/
theorem unblocked_new_hour (k : TxnCounter) (limit : Nat) (now : Time) (hs : restarts k now = true) :
    counterSafe (checkHour k now) (some limit) = true := by
  obtain ⟨a, b, _⟩ := checkHour_restart k now hs
  unfold counterSafe; simp [a, b]

/-- clients without a limit are never blocked -/
theorem no_limit_never_blocks (k : TxnCounter) : counterSafe k none = true := rfl

/-- clients do not affect each other: adding to one client's control only rewrites the record with
    that client's id; every other client's record (its counters and limit) is left as it was -/
theorem other_clients_untouched (w : World) (cid : Nat) (n : Nat) (f : Bool) :
    ∀ x ∈ w.clients, x.id ≠ (w.client! cid).id → x ∈ (w.addTransaction cid n f).clients := by
  intro x hx hne
  unfold addTransaction setClient
  simp only
  refine List.mem_map.mpr ⟨x, hx, ?_⟩
  rw [if_neg hne]

/-- the client records the framework holds: looking a client up after `client.add_transaction` -/
theorem find_after_set (l : List Client) (cid : Nat) (c' : Client) (hc : c'.id = cid) (x : Client)
    (hx : l.find? (fun y => decide (y.id = cid)) = some x) :
    (l.map fun y => if y.id = c'.id then c' else y).find? (fun y => decide (y.id = cid)) = some c' := by
  induction l with
  | nil => cases hx
  | cons a as ih =>
    rw [List.map_cons, List.find?_cons]
    by_cases ha : a.id = cid
    · have : a.id = c'.id := by rw [hc, ha]
      rw [if_pos this]; simp [hc]
    · have hne : ¬ a.id = c'.id := by rw [hc]; exact ha
      rw [if_neg hne]
      rw [List.find?_cons] at hx
      simp only [ha, decide_false] at hx ⊢
      exact ih hx

/-- C18.1 at the level of the framework: after an execution handler reports `n` submitted bets (or `n` failed
    instructions) for a client the framework knows, THAT client's control holds exactly the old counters plus `n` in the
    right pair of counters (total and hourly) - nothing is dropped, nothing is counted twice -/
theorem addTransaction_exact (w : World) (cid n : Nat) (f : Bool) (h : (w.client? cid).isSome = true) :
    ((w.addTransaction cid n f).client! cid).counter = (w.client! cid).counter.add n f := by
  unfold addTransaction client! client? setClient at *
  cases hx : w.clients.find? (fun y => decide (y.id = cid)) with
  | none => rw [hx] at h; cases h
  | some x =>
    have hid : x.id = cid := by simpa using List.find?_some hx
    simp only [Option.getD_some]
    rw [find_after_set w.clients cid { x with counter := x.counter.add n f } hid x hx]
    rfl

/-- ... and every OTHER client's control is exactly as it was (several clients with different limits) -/
theorem addTransaction_other (w : World) (cid other n : Nat) (f : Bool) (h : (w.client? cid).isSome = true) (hne : other ≠ cid) :
    (w.addTransaction cid n f).client? other = w.client? other := by
  unfold addTransaction client! client? setClient at *
  cases hx : w.clients.find? (fun y => decide (y.id = cid)) with
  | none => rw [hx] at h; cases h
  | some x =>
    have hid : x.id = cid := by simpa using List.find?_some hx
    simp only [Option.getD_some]
    generalize w.clients = l
    induction l with
    | nil => rfl
    | cons a as ih =>
      rw [List.map_cons, List.find?_cons, List.find?_cons]
      by_cases ha : a.id = cid
      · have h1 : a.id = x.id := by rw [hid, ha]
        have h2 : ¬ a.id = other := by rw [ha]; exact fun e => hne e.symm
        simp only [h1, if_true]
        have h3 : ¬ x.id = other := by rw [hid]; exact fun e => hne e.symm
        simp only [h3, decide_false]
        exact ih
      · have h1 : ¬ a.id = x.id := by rw [hid]; exact ha
        rw [if_neg h1]
        by_cases hb : a.id = other
        · simp [hb]
        · simp only [hb, decide_false]; exact ih

example : ((({ clients := [{ id := 0 }, { id := 1, txLimit := some 3 }] } : World).addTransaction 1 2 false).client! 1).counter
    = { count := 2, curCount := 2 } := by decide

example : counterSafe { curCount := 3, curFailed := 1 } (some 3) = false := by decide
example : counterSafe { curCount := 2, curFailed := 1 } (some 3) = true := by decide

end Flumine.C18
