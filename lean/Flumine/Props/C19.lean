/-
  C19 — Order references are unique, valid and round-trip.
  Model: Flumine.Ref (customerOrderRef, isValidSep / setSep, refHash / refId, Strategies.hashes,
  the reference-driven part of process_current_orders).
  Parameters (trusted base): the strategy hash is H lower-case hex characters (SHA-1 hexdigest
  prefix), the order id is the decimal numeral of `uuid1().time`, a natural number below 10^18
  (true until the year 4751) and distinct for distinct orders.
-/
import Flumine.Ref
namespace Flumine.C19
open Flumine Flumine.Ref

def hexChars : List Char := "0123456789abcdef".toList

/-! ### the accepted character set is the exchange's -/

/-- what the Betfair documentation allows in a customer reference -/
def exchangeAllows (c : Char) : Bool := c.isAlphanum || "-._+*:;~".toList.contains c

theorem validChars_sound : ∀ c ∈ validChars, exchangeAllows c = true := by decide +kernel

theorem validChars_complete_ascii : ∀ n : Fin 128, exchangeAllows (Char.ofNat n.val) = true → Char.ofNat n.val ∈ validChars := by
  decide +kernel

theorem hex_valid : ∀ c ∈ hexChars, c ∈ validChars := by decide +kernel

theorem digit_valid (c : Char) (h : c.isDigit = true) : c ∈ validChars := by
  have h' : 48 ≤ c.val ∧ c.val ≤ 57 := by
    simpa [Char.isDigit] using h
  have hn : c.toNat < 128 := by
    have := h'.2
    simp only [Char.toNat]
    have : c.val.toNat ≤ 57 := by exact UInt32.le_iff_toNat_le.mp this
    omega
  have hex : exchangeAllows c = true := by simp [exchangeAllows, Char.isAlphanum, h]
  have := validChars_complete_ascii ⟨c.toNat, hn⟩
  simp only [Char.ofNat_toNat] at this
  exact this hex

/-! ### C19.4 separator validation is exact -/

theorem sep_validation_exact (s : List Char) : isValidSep s = true ↔ ∃ c, s = [c] ∧ c ∈ validChars := by
  unfold isValidSep
  match s with
  | [] => simp
  | [c] => simp
  | _ :: _ :: _ => simp

theorem sep_valid_length (s : List Char) (h : isValidSep s = true) : s.length = 1 := by
  obtain ⟨c, rfl, _⟩ := (sep_validation_exact s).mp h; rfl

/-- the setter installs exactly the valid separators and leaves the old one otherwise -/
theorem setSep_spec (cur new : List Char) :
    (isValidSep new = true → setSep cur new = (new, true)) ∧ (isValidSep new = false → setSep cur new = (cur, false)) := by
  unfold setSep
  constructor <;> intro h <;> simp [h]

/-- invariant: whatever sequence of assignments is attempted, the separator stays valid -/
theorem sep_always_valid (cur : List Char) (h : isValidSep cur = true) (news : List (List Char)) :
    isValidSep (news.foldl (fun c n => (setSep c n).1) cur) = true := by
  induction news generalizing cur with
  | nil => exact h
  | cons n ns ih =>
    apply ih
    unfold setSep
    by_cases hv : isValidSep n = true
    · simp [hv]
    · simp [hv, h]

example : isValidSep Gen.orderSep.toList = true := by decide +kernel

/-! ### C19.1 / C19.2 length and characters -/

theorem orderId_length (n : Nat) (h : n < 10 ^ 18) : (orderId n).length ≤ 18 :=
  (Nat.length_toDigits_le_iff (by decide) (by decide)).mpr h

theorem orderId_digits (n : Nat) : ∀ c ∈ orderId n, c.isDigit = true :=
  fun _ hc => Nat.isDigit_of_mem_toDigits (by decide) (by decide) hc

theorem H_bound : H + 1 + 18 ≤ 32 := by decide

/-- the reference never exceeds the exchange's 32 characters, for every strategy name (the hash has
    H characters whatever the name) and every separator the setter accepts -/
theorem ref_length (hash sep : List Char) (n : Nat) (hh : hash.length = H) (hs : isValidSep sep = true) (hn : n < 10 ^ 18) :
    (customerOrderRef hash sep (orderId n)).length ≤ 32 := by
  unfold customerOrderRef
  have h1 := sep_valid_length sep hs
  have h2 := orderId_length n hn
  have h3 := H_bound
  simp only [List.length_append]
  omega

/-- every character of the reference is one the exchange accepts -/
theorem ref_charset (hash sep : List Char) (n : Nat) (hh : ∀ c ∈ hash, c ∈ hexChars) (hs : isValidSep sep = true) :
    ∀ c ∈ customerOrderRef hash sep (orderId n), c ∈ validChars ∧ exchangeAllows c = true := by
  intro c hc
  have hv : c ∈ validChars := by
    unfold customerOrderRef at hc
    simp only [List.mem_append] at hc
    rcases hc with (h | h) | h
    · exact hex_valid c (hh c h)
    · obtain ⟨d, rfl, hd⟩ := (sep_validation_exact sep).mp hs
      simp only [List.mem_singleton] at h
      exact h ▸ hd
    · exact digit_valid c (orderId_digits n c h)
  exact ⟨hv, validChars_sound c hv⟩

/-! ### C19.3 splitting a reference recovers the strategy hash and the order id -/

theorem split_roundtrip (hash sep id : List Char) (hh : hash.length = H) (hs : sep.length = 1) :
    refHash (customerOrderRef hash sep id) = hash ∧ refId (customerOrderRef hash sep id) = id := by
  unfold refHash refId customerOrderRef
  constructor
  · rw [List.append_assoc, List.take_append_of_le_length (by omega), ← hh, List.take_length]
  · have : H + 1 = (hash ++ sep).length := by simp [hh, hs]
    rw [this, List.drop_left]

/-- with a separator of another length (the setter never lets one in) the fixed-offset split is wrong:
    witness with the empty separator — the first digit of the id is lost -/
theorem empty_sep_breaks_split :
    refId (customerOrderRef "0123456789abc".toList [] (orderId 1234)) = orderId 234 := by decide +kernel

/-- every module that parses a reference carries the same hash length: `flumine/utils.py` (where references are built),
    `order/process.py` (order stream), `markets/blotter.py` (cleared orders) and `strategy/strategy.py` (the hash itself);
    the constants are regenerated from the source on every run, so this is re-checked against what the code says now -/
theorem hash_lengths_agree :
    Gen.blotterHashLength = H ∧ Gen.processHashLength = H ∧ Gen.strategyModHashLength = H := by decide

/-- the cleared-orders path (`Blotter.process_cleared_orders`, live only): `customer_order_ref[STRATEGY_NAME_HASH_LENGTH + 1:]`
    with the blotter module's constant recovers the order id, whatever single-character separator the order was created with -/
theorem cleared_order_ref_recovers_id (hash sep id : List Char) (hh : hash.length = H) (hs : sep.length = 1) :
    (customerOrderRef hash sep id).drop (Gen.blotterHashLength + 1) = id := by
  rw [hash_lengths_agree.1]
  exact (split_roundtrip hash sep id hh hs).2

/-- ... so a cleared order is attached to exactly the order of that market that carries the id the reference was built from -/
theorem cleared_attaches_to_its_order (i : Inst) (market : Nat) (hash sep id : List Char) (hh : hash.length = H) (hs : sep.length = 1) :
    processCleared i market (customerOrderRef hash sep id) = getOrder i market id := by
  unfold processCleared
  rw [cleared_order_ref_recovers_id hash sep id hh hs]

/-! ### the bet-id step after the lookup by reference: an update is never attributed to another bet's order -/

/-- whichever order the update goes to, it is the order found by reference only if that order has no bet id yet or carries the
    update's bet id, and otherwise an order that carries the update's bet id: never an order of another bet -/
theorem update_never_misattributed (byRefBet : Option Nat) (bet : Nat) (known : List Nat) :
    (pickByBet byRefBet bet known = some none → byRefBet = none ∨ byRefBet = some bet) ∧
    (∀ b, pickByBet byRefBet bet known = some (some b) → b = bet ∧ bet ∈ known) := by
  unfold pickByBet
  cases byRefBet with
  | none => exact ⟨fun _ => Or.inl rfl, fun b h => (by cases h)⟩
  | some r =>
    by_cases e : r = bet
    · subst e
      simp
    · simp only [ne_eq, e, not_false_eq_true, if_true]
      by_cases hk : known.contains bet = true
      · simp only [hk, if_true]
        refine ⟨fun h => (by cases h), fun b h => ?_⟩
        cases h
        exact ⟨rfl, List.contains_iff_mem.mp hk⟩
      · simp only [hk, Bool.false_eq_true, if_false]
        exact ⟨fun h => (by cases h), fun b h => (by cases h)⟩

/-- known finding F20 in the model: the update of a bet that replaced another one (known reference, other bet id) is skipped as
    long as no local order carries its bet id - and being skipped changes nothing, so it is skipped at every later snapshot too -/
theorem replaced_bet_unknown_is_skipped (b1 bet : Nat) (known : List Nat) (hne : b1 ≠ bet) (hk : bet ∉ known) :
    pickByBet (some b1) bet known = none := by
  unfold pickByBet
  simp [hne, hk]

example : pickByBet (some 501) 502 [501] = none ∧ pickByBet (some 501) 502 [501, 502] = some (some 502) ∧
    pickByBet (some 501) 501 [501] = some none ∧ pickByBet none 7 [] = some none := by decide

/-- splitting at the default separator instead (the round-6 seeded change C19-m7) loses every order created with another
    separator: the reference holds no `-`, so the "last part" is the whole reference -/
example : ("0123456789abc.1234".toList.splitOn '-').getLast? = some "0123456789abc.1234".toList := by decide +kernel

/-! ### uniqueness -/

theorem orderId_injective (n m : Nat) (h : orderId n = orderId m) : n = m := by
  have := congrArg (fun l => Nat.ofDigitChars 10 l 0) h
  simpa [orderId, Nat.ofDigitChars_ten_toDigits] using this

/-- distinct orders (distinct uuid1 times) carry distinct references, whatever their strategies and separators -/
theorem refs_unique (h1 h2 s1 s2 : List Char) (n m : Nat) (hh1 : h1.length = H) (hh2 : h2.length = H)
    (hs1 : s1.length = 1) (hs2 : s2.length = 1) (hne : n ≠ m) :
    customerOrderRef h1 s1 (orderId n) ≠ customerOrderRef h2 s2 (orderId m) := by
  intro e
  have a := (split_roundtrip h1 s1 (orderId n) hh1 hs1).2
  have b := (split_roundtrip h2 s2 (orderId m) hh2 hs2).2
  rw [e, b] at a
  exact hne (orderId_injective n m a.symm)

/-! ### C19.5 attribution by a receiving instance -/

theorem hashesGet_spec (ss : List Strat) (s : Strat) (hmem : s ∈ ss)
    (hd : ∀ a ∈ ss, ∀ b ∈ ss, a.hash = b.hash → a = b) : hashesGet ss s.hash = some s.idx := by
  unfold hashesGet
  cases hf : ss.reverse.find? (fun t => t.hash = s.hash) with
  | none =>
    have := List.find?_eq_none.mp hf s (by simpa using hmem)
    simp at this
  | some t =>
    have hp := List.find?_some hf
    have hm : t ∈ ss := by simpa using List.mem_of_find?_eq_some hf
    simp only [decide_eq_true_eq] at hp
    have := hd t hm s hmem hp
    simp [this]

theorem hashesGet_none (ss : List Strat) (h : List Char) (hn : ∀ s ∈ ss, s.hash ≠ h) : hashesGet ss h = none := by
  unfold hashesGet
  have : ss.reverse.find? (fun t => t.hash = h) = none := by
    apply List.find?_eq_none.mpr
    intro s hs
    simpa using hn s (by simpa using hs)
  simp [this]

/-- whatever the receiving instance resolves a reference to carries exactly the id the reference was
    built with, in the market of the update: an update is never attributed to another order -/
theorem resolved_id_exact (i : Inst) (market : Nat) (hash sep id : List Char) (hh : hash.length = H) (hs : sep.length = 1) :
    match (processCurrent i market (customerOrderRef hash sep id)).2 with
    | .existing o => o.id = id ∧ o.market = market ∧ o ∈ i.orders
    | .created o => o.id = id ∧ o.market = market
    | .dropped => True := by
  unfold processCurrent
  have hid := (split_roundtrip hash sep id hh hs).2
  simp only [hid]
  cases hg : getOrder i market id with
  | some o =>
    simp only
    unfold getOrder at hg
    have hp := List.find?_some hg
    simp only [decide_eq_true_eq] at hp
    exact ⟨hp.2, hp.1, List.mem_of_find?_eq_some hg⟩
  | none =>
    simp only
    cases hashesGet i.strategies (refHash (customerOrderRef hash sep id)) with
    | none => trivial
    | some s => exact ⟨rfl, rfl⟩

/-- an order unknown to the instance is created under the strategy that produced the reference,
    provided that strategy is registered and registered hashes are pairwise distinct -/
theorem attribution_created (i : Inst) (market : Nat) (s : Strat) (sep id : List Char)
    (hmem : s ∈ i.strategies) (hd : ∀ a ∈ i.strategies, ∀ b ∈ i.strategies, a.hash = b.hash → a = b)
    (hh : s.hash.length = H) (hs : sep.length = 1) (hun : getOrder i market id = none) :
    (processCurrent i market (customerOrderRef s.hash sep id)).2 = .created { market := market, id := id, strat := s.idx } := by
  unfold processCurrent
  have hsp := split_roundtrip s.hash sep id hh hs
  simp only [hsp.1, hsp.2, hun, hashesGet_spec i.strategies s hmem hd]

/-- a reference of a strategy that is not registered is dropped, never given to another strategy -/
theorem unknown_strategy_dropped (i : Inst) (market : Nat) (hash sep id : List Char)
    (hh : hash.length = H) (hs : sep.length = 1) (hun : getOrder i market id = none)
    (hn : ∀ s ∈ i.strategies, s.hash ≠ hash) :
    (processCurrent i market (customerOrderRef hash sep id)).2 = .dropped ∧
    (processCurrent i market (customerOrderRef hash sep id)).1 = i := by
  unfold processCurrent
  have hsp := split_roundtrip hash sep id hh hs
  simp only [hsp.1, hsp.2, hun, hashesGet_none i.strategies hash hn, and_self]

/-- once created (or known) the order is found again by every later update with the same reference -/
theorem second_update_finds_it (i : Inst) (market : Nat) (ref : List Char) (o : KnownOrder)
    (h : (processCurrent i market ref).2 = .created o) :
    (processCurrent (processCurrent i market ref).1 market ref).2 = .existing o := by
  unfold processCurrent at h ⊢
  cases hg : getOrder i market (refId ref) with
  | some x => simp [hg] at h
  | none =>
    simp only [hg] at h ⊢
    cases hh : hashesGet i.strategies (refHash ref) with
    | none => simp [hh] at h
    | some s =>
      simp only [hh, Resolved.created.injEq] at h ⊢
      subst h
      have : getOrder { i with orders := i.orders ++ [{ market := market, id := refId ref, strat := s }] } market (refId ref)
          = some { market := market, id := refId ref, strat := s } := by
        unfold getOrder at hg ⊢
        simp only [List.find?_append, hg, Option.none_or]
        simp
      simp only [this]

/-- the order an order-stream update created is the one a later cleared order with the same reference is attached to -/
theorem cleared_after_update_finds_it (i : Inst) (market : Nat) (ref : List Char) (o : KnownOrder)
    (h : (processCurrent i market ref).2 = .created o) :
    processCleared (processCurrent i market ref).1 market ref = some o := by
  unfold processCleared
  rw [hash_lengths_agree.1]
  change getOrder (processCurrent i market ref).1 market (refId ref) = some o
  have h2 := second_update_finds_it i market ref o h
  generalize (processCurrent i market ref).1 = j at h2 ⊢
  cases hg : getOrder j market (refId ref) with
  | some x =>
    have : (processCurrent j market ref).2 = .existing x := by
      unfold processCurrent; simp only [hg]
    rw [h2] at this
    cases this; rfl
  | none =>
    exfalso
    have : (processCurrent j market ref).2 ≠ .existing o := by
      unfold processCurrent; simp only [hg]
      cases hashesGet j.strategies (refHash ref) <;> simp
    exact this h2

/-- registering a further strategy takes effect for the next update (the table is not cached) -/
theorem added_strategy_is_seen (i : Inst) (h : List Char)
    (hn : ∀ s ∈ i.strategies, s.hash ≠ h) : hashesGet (addStrategy i h).strategies h = some i.strategies.length := by
  unfold hashesGet addStrategy
  simp

example : run [.add "0123456789abc".toList, .update 1 (customerOrderRef "0123456789abc".toList ['-'] (orderId 42)),
               .update 1 (customerOrderRef "0123456789abc".toList ['-'] (orderId 42)),
               .update 1 (customerOrderRef "fffffffffffff".toList ['-'] (orderId 43)),
               .add "fffffffffffff".toList,
               .update 1 (customerOrderRef "fffffffffffff".toList ['-'] (orderId 43))]
    = [.resolved (.created ⟨1, orderId 42, 0⟩), .resolved (.existing ⟨1, orderId 42, 0⟩), .resolved .dropped,
       .resolved (.created ⟨1, orderId 43, 1⟩)] := by decide +kernel

/-- cleared orders: attached to the order created with a non-default separator; nothing for an order the instance never saw -/
example : run [.add "0123456789abc".toList, .update 1 (customerOrderRef "0123456789abc".toList ['.'] (orderId 42)),
               .cleared 1 (customerOrderRef "0123456789abc".toList ['.'] (orderId 42)),
               .cleared 1 (customerOrderRef "0123456789abc".toList ['.'] (orderId 43))]
    = [.resolved (.created ⟨1, orderId 42, 0⟩), .attached (some ⟨1, orderId 42, 0⟩), .attached none] := by decide +kernel

end Flumine.C19
