/-
  C09 — Runner removal voids bets on the runner and reduces the others once.
  Model: Mw.lean (`removalOnOrder` = loop body of `_process_runner_removal`, `reductionFactor`,
  `detectRemovals` = the per-market de-duplication of `SimulatedMiddleware.__call__`).
-/
import Flumine.Mw
import Flumine.Props.C04
import Flumine.Lemmas.Round
import Flumine.Lemmas.Cents
import Mathlib.Tactic.Linarith
import Flumine.Lemmas.Removed
namespace Flumine.C09
open Flumine Flumine.World Flumine.SimOrder

abbrev Key := Nat × Rat × Option Rat

/-! ### C09.1 void -/

/-- C09.1 (limit orders) — see `C04.removal_void_total`: whatever the buckets were (matched, partly
    cancelled, lapsed; any status), after the removal nothing is matched, nothing remains, the whole
    size is voided. -/
theorem void_total_limit (w : World) (m : Market) (rsel : Nat) (rhc : Rat) (raf : Option Rat) (o : Order)
    (hk : o.sim.kind = .limit) (hon : o.market = m.id ∧ o.sel = rsel ∧ o.hc = rhc) :
    (w.removalOnOrder m rsel rhc raf o).sim.sizeMatched = 0 ∧ (w.removalOnOrder m rsel rhc raf o).sim.matched = [] ∧
    (w.removalOnOrder m rsel rhc raf o).sim.sizeVoided = o.sim.size ∧
    (w.removalOnOrder m rsel rhc raf o).sim.sizeRemaining = 0 := by
  obtain ⟨a, b, _, _, e, f⟩ := C04.removal_void_total w m rsel rhc raf o hk hon
  exact ⟨a, b, e, f⟩

/-- C09.1 (starting-price orders) the liability is voided, nothing is matched, and the order is
    reported EXECUTION_COMPLETE by its simulated status, so the simulation loop completes it at the
    same update (no starting price will ever come for a non runner). -/
theorem void_total_sp (w : World) (m : Market) (rsel : Nat) (rhc : Rat) (raf : Option Rat) (o : Order)
    (hk : o.sim.kind ≠ .limit) (hon : o.market = m.id ∧ o.sel = rsel ∧ o.hc = rhc) :
    (w.removalOnOrder m rsel rhc raf o).sim.sizeMatched = 0 ∧ (w.removalOnOrder m rsel rhc raf o).sim.matched = [] ∧
    (w.removalOnOrder m rsel rhc raf o).sim.sizeVoided = o.sim.liability ∧
    (w.removalOnOrder m rsel rhc raf o).sim.simStatus = .executionComplete := by
  have e : w.removalOnOrder m rsel rhc raf o =
      { o with sim := { o.sim with sizeMatched := 0, avgPrice := 0, matched := [], sizeVoided := o.sim.liability,
                                   sizeCancelled := 0, sizeLapsed := 0, bspReconciled := true } } := by
    unfold World.removalOnOrder
    cases hkk : o.sim.kind <;> simp_all
  rw [e]
  refine ⟨rfl, rfl, rfl, ?_⟩
  unfold simStatus takeSp
  cases hkk : o.sim.kind <;> simp_all

/-! ### C09.2 price reduction of matched fills on the other runners -/

/-- the reduced price is `max(round2(p (1 - af/100)), 1.01)` … -/
theorem reduction_formula (p af : Rat) :
    reductionFactor p af = ratMax (round2 (p * (1 - af / 100))) (101 / 100) := rfl

/-- … hence never below 1.01 -/
theorem reduction_floor (p af : Rat) : (101 : Rat) / 100 ≤ reductionFactor p af := by
  unfold reductionFactor ratMax; split_ifs <;> linarith

/-- an order that is not on the removed runner and is not a market-on-close lay -/
def Other (m : Market) (rsel : Nat) (rhc : Rat) (o : Order) : Prop :=
  ¬ (o.market = m.id ∧ o.sel = rsel ∧ o.hc = rhc) ∧ ¬ (o.sim.kind = .marketOnClose ∧ o.sim.side = .lay)

/-- C09.2 with a factor at or above the win-market threshold every matched fragment keeps its
    publish time and size and has its price reduced; the average is recomputed from the fragments -/
theorem reduction_applied (w : World) (m : Market) (rsel : Nat) (rhc : Rat) (af : Rat) (o : Order)
    (ho : Other m rsel rhc o) (haf : (5 : Rat) / 2 ≤ af) :
    (w.removalOnOrder m rsel rhc (some af) o).sim.matched =
      o.sim.matched.map (fun f => { f with price := reductionFactor f.price af }) ∧
    (w.removalOnOrder m rsel rhc (some af) o).sim.sizeMatched = o.sim.sizeMatched := by
  unfold World.removalOnOrder
  have h0 : af ≠ 0 := by intro e; rw [e] at haf; norm_num at haf
  have hth : Gen.winMinimumAdjustmentFactor ≤ af := by
    have : Gen.winMinimumAdjustmentFactor = 5 / 2 := by decide +kernel
    rw [this]; exact haf
  simp [ho.1, ho.2, h0, hth]

/-- C09.2 no factor, a zero factor or a factor below the threshold: nothing changes -/
theorem reduction_skipped (w : World) (m : Market) (rsel : Nat) (rhc : Rat) (raf : Option Rat) (o : Order)
    (ho : Other m rsel rhc o) (hsmall : ∀ af, raf = some af → af = 0 ∨ af < 5 / 2) :
    w.removalOnOrder m rsel rhc raf o = o := by
  unfold World.removalOnOrder
  cases raf with
  | none => simp [ho.1, ho.2]
  | some af =>
    have hth : Gen.winMinimumAdjustmentFactor = 5 / 2 := by decide +kernel
    rcases hsmall af rfl with h | h
    · simp [ho.1, ho.2, h]
    · have : ¬ Gen.winMinimumAdjustmentFactor ≤ af := by rw [hth]; exact not_le.mpr h
      simp [ho.1, ho.2, this]

/-! ### C09.3 market-on-close lay liabilities -/

theorem moc_lay_win (w : World) (m : Market) (rsel : Nat) (rhc : Rat) (af : Rat) (o : Order) (book : Book)
    (hb : m.book = some book) (hw : book.marketType = "WIN")
    (hno : ¬ (o.market = m.id ∧ o.sel = rsel ∧ o.hc = rhc)) (hm : o.sim.kind = .marketOnClose ∧ o.sim.side = .lay) :
    (w.removalOnOrder m rsel rhc (some af) o).sim.liability =
      o.sim.liability * (1 - af / (100 - ((runnerOf book o.sel o.hc).bind (·.af)).getD 0)) := by
  unfold World.removalOnOrder
  simp only [hno, if_false, hm, and_self, if_true, hb, Option.getD_some, hw]
  split_ifs <;> rfl

theorem moc_lay_place (w : World) (m : Market) (rsel : Nat) (rhc : Rat) (af : Rat) (o : Order) (book : Book)
    (hb : m.book = some book) (hw : book.marketType = "PLACE" ∨ book.marketType = "OTHER_PLACE")
    (hno : ¬ (o.market = m.id ∧ o.sel = rsel ∧ o.hc = rhc)) (hm : o.sim.kind = .marketOnClose ∧ o.sim.side = .lay) :
    (w.removalOnOrder m rsel rhc (some af) o).sim.liability = o.sim.liability * ((100 - af) * (1 / 100)) := by
  unfold World.removalOnOrder
  have hnw : book.marketType ≠ "WIN" := by
    rcases hw with h | h <;> rw [h] <;> decide
  simp only [hno, if_false, hm, and_self, if_true, hb, Option.getD_some, hnw, hw]
  split_ifs <;> rfl

/-! ### C09.4 each removal is applied exactly once per market -/

def stepDetect (acc : List Key × List Key) (r : Runner) : List Key × List Key :=
  if r.status = .removed then
    if acc.1.contains (r.sel, r.hc, r.af) then acc
    else (acc.1 ++ [(r.sel, r.hc, r.af)], acc.2 ++ [(r.sel, r.hc, r.af)])
  else acc

theorem detect_eq (runners : List Runner) (known : List Key) :
    detectRemovals runners known = runners.foldl stepDetect (known, []) := rfl

theorem foldl_detect_inv (runners : List Runner) (acc : List Key × List Key) (known : List Key)
    (h1 : acc.1 = known ++ acc.2) (h2 : acc.2.Nodup) (h3 : ∀ k ∈ acc.2, k ∉ known) :
    (runners.foldl stepDetect acc).1 = known ++ (runners.foldl stepDetect acc).2 ∧
    (runners.foldl stepDetect acc).2.Nodup ∧ (∀ k ∈ (runners.foldl stepDetect acc).2, k ∉ known) ∧
    (∀ r ∈ runners, r.status = .removed → (r.sel, r.hc, r.af) ∈ (runners.foldl stepDetect acc).1) ∧
    (∀ k ∈ acc.1, k ∈ (runners.foldl stepDetect acc).1) := by
  induction runners generalizing acc with
  | nil => exact ⟨h1, h2, h3, by simp, fun k hk => hk⟩
  | cons r rest ih =>
    simp only [List.foldl_cons]
    have key : (stepDetect acc r).1 = known ++ (stepDetect acc r).2 ∧ (stepDetect acc r).2.Nodup ∧
        (∀ k ∈ (stepDetect acc r).2, k ∉ known) ∧
        (r.status = .removed → (r.sel, r.hc, r.af) ∈ (stepDetect acc r).1) ∧ (∀ k ∈ acc.1, k ∈ (stepDetect acc r).1) := by
      unfold stepDetect
      by_cases hr : r.status = .removed
      · rw [if_pos hr]
        by_cases hc : acc.1.contains (r.sel, r.hc, r.af) = true
        · rw [if_pos hc]
          exact ⟨h1, h2, h3, fun _ => List.contains_iff_mem.mp hc, fun k hk => hk⟩
        · rw [if_neg hc]
          have hnot : (r.sel, r.hc, r.af) ∉ acc.1 := fun hm => hc (List.contains_iff_mem.mpr hm)
          refine ⟨by simp [h1, List.append_assoc], ?_, ?_, fun _ => by simp, fun k hk => by simp [hk]⟩
          · refine List.nodup_append.mpr ⟨h2, by simp, ?_⟩
            intro a ha b hb
            simp at hb; subst hb
            intro e; subst e
            exact hnot (by rw [h1]; exact List.mem_append_right _ ha)
          · intro k hk
            rcases List.mem_append.mp hk with hk | hk
            · exact h3 k hk
            · simp at hk; subst hk
              intro hkn; exact hnot (by rw [h1]; exact List.mem_append_left _ hkn)
      · rw [if_neg hr]
        exact ⟨h1, h2, h3, fun h => absurd h hr, fun k hk => hk⟩
    obtain ⟨k1, k2, k3, k4, k5⟩ := key
    obtain ⟨i1, i2, i3, i4, i5⟩ := ih (stepDetect acc r) k1 k2 k3
    refine ⟨i1, i2, i3, ?_, fun k hk => i5 k (k5 k hk)⟩
    intro x hx hxs
    rcases List.mem_cons.mp hx with rfl | hx
    · exact i5 _ (k4 hxs)
    · exact i4 x hx hxs

/-- C09.4a the removals detected in a book are exactly the REMOVED runners not yet in the market's
    list: each new one appears once (no duplicates), none was known before, and afterwards every
    removed runner of the book is in the list -/
theorem detect_spec (runners : List Runner) (known : List Key) :
    (detectRemovals runners known).1 = known ++ (detectRemovals runners known).2 ∧
    (detectRemovals runners known).2.Nodup ∧
    (∀ k ∈ (detectRemovals runners known).2, k ∉ known) ∧
    (∀ r ∈ runners, r.status = .removed → (r.sel, r.hc, r.af) ∈ (detectRemovals runners known).1) := by
  rw [detect_eq]
  obtain ⟨a, b, c, d, _⟩ := foldl_detect_inv runners (known, []) known (by simp) List.nodup_nil (by simp)
  exact ⟨a, b, c, d⟩

theorem foldl_detect_noop (runners : List Runner) (known : List Key)
    (h : ∀ r ∈ runners, r.status = .removed → (r.sel, r.hc, r.af) ∈ known) :
    runners.foldl stepDetect (known, []) = (known, []) := by
  induction runners with
  | nil => rfl
  | cons r rest ih =>
    simp only [List.foldl_cons]
    have : stepDetect (known, []) r = (known, []) := by
      unfold stepDetect
      by_cases hr : r.status = .removed
      · rw [if_pos hr]
        have := h r (by simp) hr
        rw [if_pos (List.contains_iff_mem.mpr this)]
      · rw [if_neg hr]
    rw [this]
    exact ih (fun x hx => h x (List.mem_cons_of_mem _ hx))

/-- C09.4b **exactly once per market**: presenting the same book again (or any later book whose
    removed runners carry the same factors — the stated assumption) to the market's list detects
    nothing new, so `_process_runner_removal` is not called a second time.  The list is the market's
    own (`Market.removals`), so another market of the run starts from its own, empty list. -/
theorem detect_idempotent (runners : List Runner) (known : List Key) :
    detectRemovals runners (detectRemovals runners known).1 = ((detectRemovals runners known).1, []) := by
  rw [detect_eq runners (detectRemovals runners known).1]
  exact foldl_detect_noop runners _ (detect_spec runners known).2.2.2

/-- a second market (empty list) does detect the same runner and factor again -/
example :
    (detectRemovals [{ sel := 7, status := .removed, af := some 20 }] []).2 = [(7, 0, some 20)] ∧
    (detectRemovals [{ sel := 7, status := .removed, af := some 20 }] [(7, 0, some 20)]).2 = [] := by
  decide +kernel


/-! ### C09.4 for whole runs: every market's list of applied removals, and "once" (`Lemmas/Removed.lean` over `Lemmas/Mrem.lean`) -/

open Flumine.Removed Flumine.Inv in
/-- C09 whole-run: take ANY run - any sequence of updates of any markets in any interleaving, any scripted behaviour of any
    strategies.  The markets' own lists of applied runner removals at the end are exactly what this specification computes from
    the updates alone: a closing update changes nothing; any other update makes its market known and appends to THAT market's
    list the REMOVED runners (selection, handicap, adjustment factor) of the book that are not in it yet.  No request, package,
    matching pass, callback or update of another market touches a market's list. -/
theorem removal_lists_whole_run (cfg : Config) (cl : List Client) (ss : List Strategy) (us : List (Nat × Book × (Nat → List Action))) :
    (runUpdates { cfg := cfg, clients := cl, strategies := ss } us).mrem = us.foldl specRem [] :=
  runUpdates_mrem { cfg := cfg, clients := cl, strategies := ss } us

open Flumine.Removed in
/-- the removals an update hands to `_process_runner_removal` are the newly detected ones - by `detect_spec` each once and none
    of them in the market's list before -/
theorem removals_processed_are_new (w : World) (mid : Nat) :
    (w.mwUpdateAnalytics mid).2 = (detectRemovals ((w.market! mid).book.getD {}).runners (w.market! mid).removals).2 := rfl

open Flumine.Removed in
theorem specRem_nodup (K : List (Nat × List Key)) (u : Nat × Book × (Nat → List Action)) (h : ∀ e ∈ K, e.2.Nodup) :
    ∀ e ∈ specRem K u, e.2.Nodup := by
  unfold specRem
  split
  · exact h
  · simp only
    have hK' : ∀ e ∈ (if u.1 ∈ K.map (·.1) then K else K ++ [(u.1, [])]), e.2.Nodup := by
      split
      · exact h
      · intro e he
        rcases List.mem_append.mp he with he | he
        · exact h e he
        · simp only [List.mem_singleton] at he; subst he; exact List.nodup_nil
    generalize (if u.1 ∈ K.map (·.1) then K else K ++ [(u.1, [])]) = K' at hK'
    have hlk : (lookupRem K' u.1).Nodup := by
      unfold lookupRem
      cases hf : K'.find? (fun e => decide (e.1 = u.1)) with
      | none => exact List.nodup_nil
      | some x => exact hK' x (List.mem_of_find?_eq_some hf)
    intro e he
    obtain ⟨x, hx, rfl⟩ := List.mem_map.mp he
    split
    · simp only
      obtain ⟨d1, d2, d3, _⟩ := detect_spec u.2.1.runners (lookupRem K' u.1)
      rw [d1]
      refine List.nodup_append.mpr ⟨hlk, d2, ?_⟩
      intro a ha b hb e
      exact d3 b hb (e ▸ ha)
    · exact hK' x hx

open Flumine.Removed Flumine.Inv in
/-- C09 "once", whole-run: in every state reachable by any run, no market's list of applied removals holds a (selection,
    handicap, factor) twice - and since an update only processes what is not in the list yet (`removals_processed_are_new`,
    `detect_spec`), no removal is ever applied twice to the orders of a market, however often and in whatever books it is
    reported, while another market of the run applies it for itself -/
theorem removals_applied_once_whole_run (cfg : Config) (cl : List Client) (ss : List Strategy) (us : List (Nat × Book × (Nat → List Action))) :
    ∀ e ∈ (runUpdates { cfg := cfg, clients := cl, strategies := ss } us).mrem, e.2.Nodup := by
  rw [removal_lists_whole_run]
  suffices ∀ (K : List (Nat × List Key)), (∀ e ∈ K, e.2.Nodup) → ∀ e ∈ us.foldl specRem K, e.2.Nodup from this [] (by simp)
  induction us with
  | nil => intro K h; exact h
  | cons u rest ih => intro K h; rw [List.foldl_cons]; exact ih _ (specRem_nodup K u h)

/-- non-vacuity: runner 7 is reported REMOVED in two books of market 1 and in one of market 2: applied once in each -/
def nvRemBook (pt : Int) : Book := { pt := pt, activeRunners := 1, runners := [{ sel := 1 }, { sel := 7, status := .removed, af := some 20 }] }
example : (Inv.runUpdates {} [(1, nvRemBook 1000, fun _ => []), (1, nvRemBook 2000, fun _ => []), (2, nvRemBook 2500, fun _ => [])]).mrem =
    [(1, [(7, 0, some 20)]), (2, [(7, 0, some 20)])] := by decide +kernel

end Flumine.C09
