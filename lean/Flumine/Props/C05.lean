/-
  C05 — Fills never breach the order's limit; fill-or-kill is all-or-nothing.
  Statements and proofs only; the model is SimOrder.lean (`place`, `placeLimit`,
  `processPriceMatched`, `processPriceMatchedVwap`).
-/
import Flumine.SimOrder
import Flumine.Lemmas.Round
import Flumine.Lemmas.Cents
import Mathlib.Tactic.Linarith
import Mathlib.Tactic.SplitIfs
namespace Flumine.C05
open Flumine Flumine.SimOrder

/-- a price satisfies the limit of the side -/
def limitOk (side : Side) (limit p : Rat) : Prop :=
  match side with
  | .back => limit ≤ p
  | .lay => p ≤ limit

@[simp] theorem updateMatched_matched (o : SimOrder) (f : Frag) : (o.updateMatched f).matched = o.matched ++ [f] := rfl
@[simp] theorem updateMatched_side (o : SimOrder) (f : Frag) : (o.updateMatched f).side = o.side := rfl

theorem crosses_limitOk (side : Side) (price p : Rat) (h : crosses side price p = true) : limitOk side price p := by
  cases side <;> simpa [crosses, limitOk] using h

/-! ### C05.1 / C05.3 the crossing match -/

/-- What `_process_price_matched` appends: one fragment per level of a *prefix* of the book side,
    each at that level's price, each of (pre-rounding) size `t ≤` the level's size, the takes summing
    to at most the requested size; every price satisfies the limit. -/
structure Takes (side : Side) (pt : Int) (price : Rat) (avail : List Level) (rem : Rat) (new : List Frag) : Prop where
  ex : ∃ (k : Nat) (ts : List Rat), ts.length = k ∧ k ≤ avail.length ∧
        new = List.zipWith (fun (lv : Level) (t : Rat) => (⟨pt, lv.price, round2 t⟩ : Frag)) (avail.take k) ts ∧
        (∀ i (h1 : i < ts.length) (h2 : i < avail.length), 0 ≤ ts[i] ∧ ts[i] ≤ avail[i].size) ∧
        sumRat ts ≤ rem
  ok : ∀ f ∈ new, limitOk side price f.price

theorem processPriceMatched_spec (pt : Int) (price : Rat) (avail : List Level) (rem : Rat) (o : SimOrder)
    (hrem : 0 ≤ rem) (hsz : ∀ lv ∈ avail, 0 ≤ lv.size) :
    ∃ new, (processPriceMatched pt price rem avail o).matched = o.matched ++ new ∧
      (processPriceMatched pt price rem avail o).side = o.side ∧
      (processPriceMatched pt price rem avail o).sizeCancelled = o.sizeCancelled ∧
      (processPriceMatched pt price rem avail o).sizeLapsed = o.sizeLapsed ∧
      (processPriceMatched pt price rem avail o).sizeVoided = o.sizeVoided ∧
      (processPriceMatched pt price rem avail o).size = o.size ∧
      (processPriceMatched pt price rem avail o).kind = o.kind ∧
      Takes o.side pt price avail rem new := by
  induction avail generalizing rem o with
  | nil =>
    refine ⟨[], by simp [processPriceMatched], rfl, rfl, rfl, rfl, rfl, rfl, ⟨⟨0, [], rfl, by simp, by simp, by simp, by simpa [sumRat] using hrem⟩, by simp⟩⟩
  | cons lv rest ih =>
    unfold processPriceMatched
    by_cases h0 : rem = 0
    · rw [if_pos h0]
      exact ⟨[], by simp, rfl, rfl, rfl, rfl, rfl, rfl, ⟨⟨0, [], rfl, by simp, by simp, by simp, by simp [sumRat, h0]⟩, by simp⟩⟩
    · rw [if_neg h0]
      by_cases hc : crosses o.side price lv.price = true
      · rw [if_pos hc]
        have hlv : 0 ≤ lv.size := hsz lv (by simp)
        have hfacts : 0 ≤ ratMax (rem - lv.size) 0 ∧
            0 ≤ (if ratMax (rem - lv.size) 0 = 0 then rem else lv.size) ∧
            (if ratMax (rem - lv.size) 0 = 0 then rem else lv.size) ≤ lv.size ∧
            (if ratMax (rem - lv.size) 0 = 0 then rem else lv.size) + ratMax (rem - lv.size) 0 ≤ rem := by
          by_cases hlt : rem - lv.size < 0
          · have e : ratMax (rem - lv.size) 0 = 0 := by simp [ratMax, hlt]
            rw [e]; simp only [if_true]
            refine ⟨le_refl _, hrem, by linarith, by linarith⟩
          · have hge : 0 ≤ rem - lv.size := not_lt.mp hlt
            by_cases hz : rem - lv.size = 0
            · have e : ratMax (rem - lv.size) 0 = 0 := by
                unfold ratMax; split_ifs <;> linarith
              rw [e]; simp only [if_true]
              refine ⟨le_refl _, hrem, by linarith, by linarith⟩
            · have hpos : 0 < rem - lv.size := lt_of_le_of_ne hge (Ne.symm hz)
              have e : ratMax (rem - lv.size) 0 = rem - lv.size := by
                unfold ratMax; split_ifs <;> linarith
              rw [e]; simp only [hz, if_false]
              refine ⟨hge, hlv, le_refl _, by linarith⟩
        obtain ⟨hrem'0, hsm1, hsm2, hsm3⟩ := hfacts
        obtain ⟨new, e1, e2, e3, e4, e5, e6, e7, tk⟩ :=
          ih (ratMax (rem - lv.size) 0)
            (o.updateMatched ⟨pt, lv.price, round2 (if ratMax (rem - lv.size) 0 = 0 then rem else lv.size)⟩)
            hrem'0 (fun l hl => hsz l (List.mem_cons_of_mem _ hl))
        refine ⟨⟨pt, lv.price, round2 (if ratMax (rem - lv.size) 0 = 0 then rem else lv.size)⟩ :: new, ?_, ?_, ?_, ?_, ?_, ?_, ?_, ?_⟩
        · rw [e1]; simp
        · rw [e2]; rfl
        · rw [e3]; rfl
        · rw [e4]; rfl
        · rw [e5]; rfl
        · rw [e6]; rfl
        · rw [e7]; rfl
        · obtain ⟨⟨k, ts, hk, hkl, hnew, hts, hsum⟩, hok⟩ := tk
          refine ⟨⟨k + 1, (if ratMax (rem - lv.size) 0 = 0 then rem else lv.size) :: ts, by simp [hk], by simpa using hkl, ?_, ?_, ?_⟩, ?_⟩
          · rw [hnew]; simp
          · intro i h1 h2
            cases i with
            | zero => exact ⟨hsm1, hsm2⟩
            | succ j =>
              simp only [List.getElem_cons_succ]
              exact hts j (by simpa using h1) (by simpa using h2)
          · simp only [sumRat]; linarith
          · intro f hf
            rcases List.mem_cons.mp hf with rfl | hf
            · exact crosses_limitOk _ _ _ hc
            · have := hok f hf
              simpa using this
      · rw [if_neg hc]
        exact ⟨[], by simp, rfl, rfl, rfl, rfl, rfl, rfl, ⟨⟨0, [], rfl, by simp, by simp, by simp, by simpa [sumRat] using hrem⟩, by simp⟩⟩

/-- C05.1 every fragment created by the crossing match of a (non fill-or-kill) limit order is at or
    better than the limit: at or above it for BACK, at or below it for LAY. -/
theorem fill_within_limit (pt : Int) (price : Rat) (avail : List Level) (size : Rat) (o : SimOrder)
    (hs : 0 ≤ size) (hsz : ∀ lv ∈ avail, 0 ≤ lv.size) (hfresh : o.matched = []) :
    ∀ f ∈ (processPriceMatched pt price size avail o).matched, limitOk o.side price f.price := by
  obtain ⟨new, e1, _, _, _, _, _, _, tk⟩ := processPriceMatched_spec pt price avail size o hs hsz
  intro f hf
  rw [e1, hfresh] at hf
  exact tk.ok f (by simpa using hf)

/-- C05.3 an order never takes more from a price level than was available there, uses each level at
    most once (a prefix of the ladder, in order), and never more in total than its size. -/
theorem level_not_overdrawn (pt : Int) (price : Rat) (avail : List Level) (size : Rat) (o : SimOrder)
    (hs : 0 ≤ size) (hsz : ∀ lv ∈ avail, 0 ≤ lv.size) (hfresh : o.matched = []) :
    ∃ (k : Nat) (ts : List Rat), ts.length = k ∧ k ≤ avail.length ∧
      (processPriceMatched pt price size avail o).matched =
        List.zipWith (fun (lv : Level) (t : Rat) => (⟨pt, lv.price, round2 t⟩ : Frag)) (avail.take k) ts ∧
      (∀ i (h1 : i < ts.length) (h2 : i < avail.length), 0 ≤ ts[i] ∧ ts[i] ≤ avail[i].size) ∧
      sumRat ts ≤ size := by
  obtain ⟨new, e1, _, _, _, _, _, _, tk⟩ := processPriceMatched_spec pt price avail size o hs hsz
  obtain ⟨k, ts, h1, h2, h3, h4, h5⟩ := tk.ex
  exact ⟨k, ts, h1, h2, by rw [e1, hfresh, h3]; simp, h4, h5⟩

/-! ### C05.2 fill-or-kill: the volume-weighted average satisfies the limit -/

/-- the fragment `_process_price_matched(_vwap)` builds for a level -/
def fragOf (pt : Int) (rem : Rat) (lv : Level) : Frag :=
  ⟨pt, lv.price, round2 (if ratMax (rem - lv.size) 0 = 0 then rem else lv.size)⟩

def avgOk (side : Side) (price avg : Rat) : Bool :=
  match side with
  | .back => decide (price ≤ avg)
  | .lay => decide (avg ≤ price)

theorem vwapLoop_nil (pt : Int) (price rem : Rat) (o : SimOrder) : vwapLoop pt price rem [] o = o := rfl

theorem vwapLoop_cons (pt : Int) (price rem : Rat) (lv : Level) (rest : List Level) (o : SimOrder) :
    vwapLoop pt price rem (lv :: rest) o =
      if rem = 0 then o
      else if avgOk o.side price (wap (o.matched ++ [fragOf pt rem lv])).2 = true then
        vwapLoop pt price (ratMax (rem - lv.size) 0) rest (o.updateMatched (fragOf pt rem lv))
      else o := by
  rfl

theorem processPriceMatched_cons (pt : Int) (price rem : Rat) (lv : Level) (rest : List Level) (o : SimOrder) :
    processPriceMatched pt price rem (lv :: rest) o =
      if rem = 0 then o
      else if crosses o.side price lv.price = true then
        processPriceMatched pt price (ratMax (rem - lv.size) 0) rest (o.updateMatched (fragOf pt rem lv))
      else o := rfl

theorem avgOk_limitOk (side : Side) (price avg : Rat) (h : avgOk side price avg = true) : limitOk side price avg := by
  cases side <;> simpa [avgOk, limitOk] using h

/-- invariant of the VWAP walk: the side never changes, and either nothing was appended or the
    reported average price (recomputed by `wap` at every accepted level) satisfies the limit -/
theorem vwapLoop_avg (pt : Int) (price : Rat) (avail : List Level) (rem : Rat) (o : SimOrder)
    (h : o.matched = [] ∨ limitOk o.side price o.avgPrice) :
    (vwapLoop pt price rem avail o).side = o.side ∧
    ((vwapLoop pt price rem avail o).matched = [] ∨
      limitOk o.side price (vwapLoop pt price rem avail o).avgPrice) := by
  induction avail generalizing rem o with
  | nil => rw [vwapLoop_nil]; exact ⟨rfl, h⟩
  | cons lv rest ih =>
    rw [vwapLoop_cons]
    by_cases h0 : rem = 0
    · rw [if_pos h0]; exact ⟨rfl, h⟩
    · rw [if_neg h0]
      by_cases hok : avgOk o.side price (wap (o.matched ++ [fragOf pt rem lv])).2 = true
      · rw [if_pos hok]
        have hl : limitOk (o.updateMatched (fragOf pt rem lv)).side price (o.updateMatched (fragOf pt rem lv)).avgPrice :=
          avgOk_limitOk _ _ _ hok
        obtain ⟨a, b⟩ := ih (ratMax (rem - lv.size) 0) (o.updateMatched (fragOf pt rem lv)) (Or.inr hl)
        exact ⟨by rw [a]; rfl, by simpa using b⟩
      · rw [if_neg hok]; exact ⟨rfl, h⟩

/-- C05.2 for a fill-or-kill order priced through the best price: either nothing is matched, or the
    **reported** average price of its fills satisfies the limit (the reported average is the exact
    volume-weighted average rounded to 2dp, see `wap_avg_close`). -/
theorem fok_vwap_within_limit (pt : Int) (price size : Rat) (avail : List Level) (minFill : Rat) (o : SimOrder)
    (hfresh : o.matched = []) :
    (processPriceMatchedVwap pt price size avail minFill o).matched = [] ∨
      limitOk o.side price (processPriceMatchedVwap pt price size avail minFill o).avgPrice := by
  unfold processPriceMatchedVwap
  by_cases hm : (vwapLoop pt price size avail o).sizeMatched < minFill
  · simp only [hm, if_true]; left; trivial
  · simp only [hm, if_false]
    exact (vwapLoop_avg pt price avail size o (Or.inl hfresh)).2

/-- the reported average is within half a penny of the exact volume-weighted average -/
theorem wap_avg_close (m : List Frag)
    (hb : sumRat (m.map fun f => f.size) ≠ 0) (ha : sumRat (m.map fun f => f.price * f.size) ≠ 0) (hm : m ≠ []) :
    absR ((wap m).2 - sumRat (m.map fun f => f.price * f.size) / sumRat (m.map fun f => f.size)) ≤ 1 / 200 := by
  unfold wap
  have : m.isEmpty = false := by cases m <;> simp_all
  simp only [this, hb, ha, or_self, if_false]
  exact round2_err _

/-! ### C05.4 fill-or-kill is all-or-nothing -/

/-- cancelling the remainder leaves nothing remaining -/
theorem cancel_remaining_zero (o : SimOrder) (hk : o.kind = .limit) :
    ({ o with sizeCancelled := o.sizeCancelled + o.sizeRemaining } : SimOrder).sizeRemaining = 0 := by
  unfold sizeRemaining
  simp only [hk]
  have e : o.size - o.sizeMatched - (o.sizeCancelled + round2 (o.size - o.sizeMatched - o.sizeCancelled - o.sizeLapsed - o.sizeVoided)) - o.sizeLapsed - o.sizeVoided
      = (o.size - o.sizeMatched - o.sizeCancelled - o.sizeLapsed - o.sizeVoided) - round2 (o.size - o.sizeMatched - o.sizeCancelled - o.sizeLapsed - o.sizeVoided) := by
    ring
  rw [e]; exact round2_residual _

theorem lapse_remaining_zero (o : SimOrder) (hk : o.kind = .limit) :
    ({ o with sizeLapsed := o.sizeLapsed + o.sizeRemaining } : SimOrder).sizeRemaining = 0 := by
  unfold sizeRemaining
  simp only [hk]
  have e : o.size - o.sizeMatched - o.sizeCancelled - (o.sizeLapsed + round2 (o.size - o.sizeMatched - o.sizeCancelled - o.sizeLapsed - o.sizeVoided)) - o.sizeVoided
      = (o.size - o.sizeMatched - o.sizeCancelled - o.sizeLapsed - o.sizeVoided) - round2 (o.size - o.sizeMatched - o.sizeCancelled - o.sizeLapsed - o.sizeVoided) := by
    ring
  rw [e]; exact round2_residual _

/-- C05.4a the min-fill roll-back: after `_process_price_matched_vwap` a fill-or-kill order has
    matched nothing or at least its minimum fill size. -/
theorem vwap_all_or_nothing (pt : Int) (price size : Rat) (avail : List Level) (minFill : Rat) (o : SimOrder) :
    ((processPriceMatchedVwap pt price size avail minFill o).sizeMatched = 0 ∧
      (processPriceMatchedVwap pt price size avail minFill o).matched = []) ∨
    minFill ≤ (processPriceMatchedVwap pt price size avail minFill o).sizeMatched := by
  unfold processPriceMatchedVwap
  by_cases hm : (vwapLoop pt price size avail o).sizeMatched < minFill
  · simp only [hm, if_true]; left; exact ⟨trivial, trivial⟩
  · simp only [hm, if_false]; right; exact not_lt.mp hm

theorem processPriceMatched_kind (pt : Int) (price : Rat) (avail : List Level) (rem : Rat) (o : SimOrder) :
    (processPriceMatched pt price rem avail o).kind = o.kind := by
  induction avail generalizing rem o with
  | nil => rfl
  | cons lv rest ih =>
    rw [processPriceMatched_cons]
    split_ifs
    · rfl
    · rw [ih]; rfl
    · rfl

theorem vwapLoop_kind (pt : Int) (price : Rat) (avail : List Level) (rem : Rat) (o : SimOrder) :
    (vwapLoop pt price rem avail o).kind = o.kind := by
  induction avail generalizing rem o with
  | nil => rfl
  | cons lv rest ih =>
    rw [vwapLoop_cons]
    split_ifs
    · rfl
    · rw [ih]; rfl
    · rfl

theorem processPriceMatchedVwap_kind (pt : Int) (price size : Rat) (avail : List Level) (mf : Rat) (o : SimOrder) :
    (processPriceMatchedVwap pt price size avail mf o).kind = o.kind := by
  unfold processPriceMatchedVwap
  by_cases hm : (vwapLoop pt price size avail o).sizeMatched < mf
  · simp only [hm, if_true]; exact vwapLoop_kind _ _ _ _ _
  · simp only [hm, if_false]; exact vwapLoop_kind _ _ _ _ _

theorem respond_after_cancel (o1 : SimOrder) (betId : Nat) (h1 : o1.kind = .limit) :
    (createPlaceResponse { o1 with sizeCancelled := o1.sizeCancelled + o1.sizeRemaining } false (some betId)).1.sizeRemaining = 0 ∧
    (createPlaceResponse { o1 with sizeCancelled := o1.sizeCancelled + o1.sizeRemaining } false (some betId)).2.orderStatus = .executionComplete ∧
    (createPlaceResponse { o1 with sizeCancelled := o1.sizeCancelled + o1.sizeRemaining } false (some betId)).2.status = .success := by
  have hz := cancel_remaining_zero o1 h1
  unfold createPlaceResponse
  simp only [Bool.false_eq_true, false_and, if_false, hz, if_true]
  trivial

/-- C05.4b in every fill-or-kill branch of `place` that reaches the exchange (SUCCESS) the unfilled
    part is cancelled at once: nothing remains and the order is reported EXECUTION_COMPLETE, so it
    never rests in the market.  (The other outcomes are the FAILURE responses.) -/
theorem fok_never_rests (o : SimOrder) (bpe : Bool) (pt : Int) (runner : RunnerView)
    (minFillInstr : Option Rat) (betId : Nat) (hk : o.kind = .limit) :
    (placeLimit o bpe false pt runner true minFillInstr betId).2.status = .success →
      (placeLimit o bpe false pt runner true minFillInstr betId).1.sizeRemaining = 0 ∧
      (placeLimit o bpe false pt runner true minFillInstr betId).2.orderStatus = .executionComplete := by
  unfold placeLimit
  simp only [true_and, if_true]
  split_ifs with c1 c2 c3 c4 c5
  · intro h; simp [fail, createPlaceResponse] at h
  · intro h; simp [fail, createPlaceResponse] at h
  · intro _; exact ⟨(respond_after_cancel o betId hk).1, (respond_after_cancel o betId hk).2.1⟩
  · intro _
    refine ⟨(respond_after_cancel _ betId ?_).1, (respond_after_cancel _ betId ?_).2.1⟩ <;>
      exact (processPriceMatched_kind _ _ _ _ _).trans hk
  · intro _; exact ⟨(respond_after_cancel o betId hk).1, (respond_after_cancel o betId hk).2.1⟩
  · intro _
    refine ⟨(respond_after_cancel _ betId ?_).1, (respond_after_cancel _ betId ?_).2.1⟩ <;>
      exact (processPriceMatchedVwap_kind _ _ _ _ _ _).trans hk

/-! ### C05.5 best-price execution off -/

/-- C05.5 with best-price execution disabled, an order priced through the best available price
    (so that it would be price-improved) fails: nothing is matched and everything lapses. -/
theorem bpe_off_lapses (o : SimOrder) (pt : Int) (runner : RunnerView) (fok : Bool)
    (minFillInstr : Option Rat) (betId : Nat) (hk : o.kind = .limit)
    (hmf : ¬ (fok = true ∧ o.size < minFillOf o.size minFillInstr))
    (hthrough : isThrough o.side o.price (bestFor o.side runner) = true) :
    (placeLimit o false false pt runner fok minFillInstr betId).2.status = .failure ∧
    (placeLimit o false false pt runner fok minFillInstr betId).1.matched = o.matched ∧
    (placeLimit o false false pt runner fok minFillInstr betId).1.sizeRemaining = 0 ∧
    (placeLimit o false false pt runner fok minFillInstr betId).1.sizeLapsed = o.sizeLapsed + o.sizeRemaining ∧
    (placeLimit o false false pt runner fok minFillInstr betId).2.errorCode = some "BET_LAPSED_PRICE_IMPROVEMENT_TOO_LARGE" := by
  unfold placeLimit
  simp only [hmf, if_false, Bool.not_false, Bool.true_and, hthrough, if_true]
  have hz := lapse_remaining_zero o hk
  unfold fail createPlaceResponse
  simp only [Bool.false_eq_true, false_and, if_false]
  exact ⟨by trivial, by trivial, hz, by trivial, by trivial⟩

/-! ### non-vacuity: concrete books and orders meeting the hypotheses -/

def book3 : List Level := [⟨5/2, 4⟩, ⟨2, 3⟩, ⟨3/2, 100⟩]
def backOrder : SimOrder := { side := .back, kind := .limit, price := 2, size := 10 }

example : (processPriceMatched 1000 2 10 book3 backOrder).matched = [⟨1000, 5/2, 4⟩, ⟨1000, 2, 3⟩] := by
  decide +kernel
example : ((placeLimit { backOrder with price := 9/4 } true false 1000 { atb := book3 } true (some 8) 1).1.matched = [] ∧
           (placeLimit { backOrder with price := 9/4 } true false 1000 { atb := book3 } true (some 8) 1).1.sizeRemaining = 0) := by
  decide +kernel
example : ((placeLimit { backOrder with price := 9/4 } true false 1000 { atb := book3 } true (some 5) 1).1.sizeMatched = 7) := by
  decide +kernel
example : (placeLimit { backOrder with price := 3/2 } false false 1000 { atb := book3 } false none 1).2.status = .failure := by
  decide +kernel

end Flumine.C05
