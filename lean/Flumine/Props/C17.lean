/-
  C17 — Price helpers and order validation agree with the exchange's ladders.
  Statements and proofs only; the model is in Ladder.lean / Validation.lean.
-/
import Flumine.Ladder
import Flumine.Lemmas.LadderFacts
import Mathlib.Tactic.Ring
import Flumine.Validation
import Mathlib.Tactic.Linarith
import Mathlib.Tactic.NormNum
import Mathlib.Tactic.SplitIfs
namespace Flumine.C17
open Flumine

theorem roundHalfUp_lo (y : Rat) : (roundHalfUp y : Rat) ≤ y + 1/2 := by
  unfold roundHalfUp; exact Rat.floor_le _

theorem roundHalfUp_hi (y : Rat) : y - 1/2 < (roundHalfUp y : Rat) := by
  unfold roundHalfUp
  have h := Rat.lt_floor_add_one (y + 1/2)
  push_cast at h
  linarith

/-- `roundHalfUp y` is a nearest integer to `y` -/
theorem roundHalfUp_nearest (y : Rat) (k : Int) :
    absR ((roundHalfUp y : Rat) - y) ≤ absR ((k : Rat) - y) := by
  have h1 := roundHalfUp_lo y
  have h2 := roundHalfUp_hi y
  rcases lt_trichotomy k (roundHalfUp y) with h | h | h
  · have : (k : Rat) + 1 ≤ (roundHalfUp y : Rat) := by exact_mod_cast h
    unfold absR; split_ifs <;> linarith
  · subst h; exact le_refl _
  · have : (roundHalfUp y : Rat) + 1 ≤ (k : Rat) := by exact_mod_cast h
    unfold absR; split_ifs <;> linarith

theorem roundHalfUp_bounds (y : Rat) (a b : Int) (ha : (a : Rat) ≤ y) (hb : y ≤ (b : Rat)) :
    a ≤ roundHalfUp y ∧ roundHalfUp y ≤ b := by
  constructor
  · unfold roundHalfUp; rw [Rat.le_floor_iff]; linarith
  · have : roundHalfUp y < b + 1 := by
      unfold roundHalfUp; rw [Rat.floor_lt_iff]; push_cast; linarith
    omega


theorem absR_mul_pos (d s : Rat) (hs : 0 < s) : absR (d * s) = absR d * s := by
  by_cases hd : d < 0
  · have : d * s < 0 := mul_neg_of_neg_of_pos hd hs
    simp [absR, hd, this]
  · have h0 : 0 ≤ d := not_lt.mp hd
    have : ¬ d * s < 0 := not_lt.mpr (mul_nonneg h0 (le_of_lt hs))
    simp [absR, hd, this]

theorem absR_le_of_scaled (d e s : Rat) (hs : 0 < s) (h : absR (d * s) ≤ absR (e * s)) :
    absR d ≤ absR e := by
  rw [absR_mul_pos d s hs, absR_mul_pos e s hs] at h
  exact le_of_mul_le_mul_right h hs

/-- the continuous part, once per band -/
theorem band_case (x s : Rat) (a b : Int) (hband : (a, b, s) ∈ bands) (hs : 0 < s)
    (ha : (a : Rat) ≤ x * s) (hb : x * s ≤ (b : Rat)) :
    (roundHalfUp (x * s) : Rat) / s ∈ prices ∧
    ∀ t ∈ prices, absR ((roundHalfUp (x * s) : Rat) / s - x) ≤ absR (t - x) := by
  obtain ⟨hma, hmb⟩ := roundHalfUp_bounds (x * s) a b ha hb
  have hsne : s ≠ 0 := ne_of_gt hs
  constructor
  · have h1 := gridInLadder_true
    unfold gridInLadder at h1
    rw [List.all_eq_true] at h1
    have h2 := h1 (a, b, s) hband
    simp only [List.all_eq_true, List.mem_range] at h2
    have h3 := h2 (roundHalfUp (x * s) - a).toNat (by omega)
    have : a + ((roundHalfUp (x * s) - a).toNat : Int) = roundHalfUp (x * s) := by omega
    rw [this] at h3
    simpa using h3
  · intro t ht
    have h1 := ticksOnGrid_true
    unfold ticksOnGrid at h1
    rw [List.all_eq_true] at h1
    have h2 := h1 (a, b, s) hband
    simp only [List.all_eq_true] at h2
    have h3 := h2 t ht
    simp only [Bool.or_eq_true, decide_eq_true_eq, beq_iff_eq] at h3
    apply absR_le_of_scaled _ _ s hs
    have e1 : ((roundHalfUp (x * s) : Rat) / s - x) * s = (roundHalfUp (x * s) : Rat) - x * s := by
      rw [sub_mul, div_mul_cancel₀ _ hsne]
    have e2 : (t - x) * s = t * s - x * s := by ring
    rw [e1, e2]
    rcases h3 with (h3 | h3) | h3
    · -- tick at or below the band
      have hn := roundHalfUp_nearest (x * s) a
      have : absR ((a : Rat) - x * s) ≤ absR (t * s - x * s) := by
        unfold absR; split_ifs <;> linarith
      exact le_trans hn this
    · have hn := roundHalfUp_nearest (x * s) b
      have : absR ((b : Rat) - x * s) ≤ absR (t * s - x * s) := by
        unfold absR; split_ifs <;> linarith
      exact le_trans hn this
    · have hk : t * s = ((t * s).num : Rat) := by
        have := Rat.num_div_den (t * s)
        rw [h3] at this
        simpa using this.symm
      rw [hk]
      exact roundHalfUp_nearest (x * s) (t * s).num

theorem findStep_cutoffs (x : Rat) :
    findStep x Gen.cutoffs 1 =
      if x < 2 then 100 else if x < 3 then 50 else if x < 4 then 20 else if x < 6 then 10
      else if x < 10 then 5 else if x < 20 then 2 else if x < 30 then 1 else if x < 50 then 1/2
      else if x < 100 then 1/5 else if x < 1000 then 1/10 else 1/10 := by
  rfl

theorem band_of (x : Rat) (h0 : (101 : Rat) / 100 < x) (h1 : x ≤ 1000) :
    ∃ (a b : Int) (s : Rat), (a, b, s) ∈ bands ∧ 0 < s ∧ findStep x Gen.cutoffs 1 = s ∧
      (a : Rat) ≤ x * s ∧ x * s ≤ (b : Rat) := by
  rw [findStep_cutoffs]
  split_ifs with c1 c2 c3 c4 c5 c6 c7 c8 c9 c10
  · exact ⟨101, 200, 100, by decide +kernel, by norm_num, rfl, by push_cast; linarith, by push_cast; linarith⟩
  · exact ⟨100, 150, 50, by decide +kernel, by norm_num, rfl, by push_cast; linarith, by push_cast; linarith⟩
  · exact ⟨60, 80, 20, by decide +kernel, by norm_num, rfl, by push_cast; linarith, by push_cast; linarith⟩
  · exact ⟨40, 60, 10, by decide +kernel, by norm_num, rfl, by push_cast; linarith, by push_cast; linarith⟩
  · exact ⟨30, 50, 5, by decide +kernel, by norm_num, rfl, by push_cast; linarith, by push_cast; linarith⟩
  · exact ⟨20, 40, 2, by decide +kernel, by norm_num, rfl, by push_cast; linarith, by push_cast; linarith⟩
  · exact ⟨20, 30, 1, by decide +kernel, by norm_num, rfl, by push_cast; linarith, by push_cast; linarith⟩
  · exact ⟨15, 25, 1/2, by decide +kernel, by norm_num, rfl, by push_cast; linarith, by push_cast; linarith⟩
  · exact ⟨10, 20, 1/5, by decide +kernel, by norm_num, rfl, by push_cast; linarith, by push_cast; linarith⟩
  · exact ⟨10, 100, 1/10, by decide +kernel, by norm_num, rfl, by push_cast; linarith, by push_cast; linarith⟩
  · exact ⟨10, 100, 1/10, by decide +kernel, by norm_num, rfl, by push_cast; linarith, by push_cast; linarith⟩

/-- C17.2 for **every** rational input: the result of `get_nearest_price` is a tick of the ladder
    and no tick is strictly closer to the input. -/
theorem nearest_is_tick_and_closest (x : Rat) :
    nearestPrice x ∈ prices ∧ ∀ t ∈ prices, absR (nearestPrice x - x) ≤ absR (t - x) := by
  unfold nearestPrice
  have hmin := ticks_ge_min
  have hmax := ticks_le_max
  rw [List.all_eq_true] at hmin hmax
  simp only [decide_eq_true_eq] at hmin hmax
  by_cases h0 : x ≤ Gen.minPrice
  · rw [if_pos h0]
    refine ⟨by decide +kernel, ?_⟩
    intro t ht
    have := hmin t ht
    unfold absR; split_ifs <;> linarith
  · rw [if_neg h0]
    by_cases h1 : Gen.maxPrice < x
    · rw [if_pos h1]
      refine ⟨by decide +kernel, ?_⟩
      intro t ht
      have := hmax t ht
      unfold absR; split_ifs <;> linarith
    · rw [if_neg h1]
      have h0' : (101 : Rat) / 100 < x := by
        have := not_le.mp h0; simpa [Gen.minPrice] using this
      have h1' : x ≤ 1000 := by
        have := not_lt.mp h1; simpa [Gen.maxPrice] using this
      obtain ⟨a, b, s, hb, hs, he, hl, hu⟩ := band_of x h0' h1'
      rw [he]
      exact band_case x s a b hb hs hl hu


theorem absR_zero_iff (a : Rat) : absR a ≤ 0 → a = 0 := by
  unfold absR; split_ifs <;> intro h <;> linarith

/-- C17.2 idempotence: a tick rounds to itself -/
theorem nearest_idempotent (t : Rat) (ht : t ∈ prices) : nearestPrice t = t := by
  have h := (nearest_is_tick_and_closest t).2 t ht
  have : absR (t - t) = 0 := by simp [absR]
  rw [this] at h
  have := absR_zero_iff _ h
  linarith

/-- C17.2 clamping at both ends -/
theorem nearest_clamps_low (x : Rat) (h : x ≤ 101 / 100) : nearestPrice x = 101 / 100 := by
  unfold nearestPrice
  have : x ≤ Gen.minPrice := by simpa [Gen.minPrice] using h
  rw [if_pos this]; rfl

theorem nearest_clamps_high (x : Rat) (h : 1000 < x) : nearestPrice x = 1000 := by
  unfold nearestPrice
  have h1 : ¬ x ≤ Gen.minPrice := by
    have : Gen.minPrice < x := by
      have : (101 : Rat) / 100 < x := by linarith
      simpa [Gen.minPrice] using this
    exact not_le.mpr this
  have h2 : Gen.maxPrice < x := by simpa [Gen.maxPrice] using h
  rw [if_neg h1, if_pos h2]; rfl

example : nearestPrice (1507 / 1000) = 151 / 100 := by decide +kernel
example : nearestPrice (2.01) = 2.02 := by decide +kernel   -- half-way rounds up (ROUND_HALF_UP)

/-! ### C17.3 ticks away -/

theorem indexOf?_getElem (l : List Rat) (hl : l.Nodup) (k i : Nat) (hi : i < l.length) :
    indexOf? l[i] l k = some (k + i) := by
  induction l generalizing k i with
  | nil => simp at hi
  | cons y ys ih =>
    cases i with
    | zero => simp [indexOf?]
    | succ j =>
      have hj : j < ys.length := by simpa using hi
      have hne : ys[j] ≠ y := by
        intro h
        have hmem : ys[j] ∈ ys := List.getElem_mem hj
        rw [h] at hmem
        exact (List.nodup_cons.mp hl).1 hmem
      simp only [List.getElem_cons_succ, indexOf?, if_neg hne]
      rw [ih (List.nodup_cons.mp hl).2 (k + 1) j hj]
      congr 1; omega

theorem indexOf?_none (l : List Rat) (x : Rat) (k : Nat) (h : x ∉ l) : indexOf? x l k = none := by
  induction l generalizing k with
  | nil => rfl
  | cons y ys ih =>
    have h1 : x ≠ y := fun e => h (by simp [e])
    have h2 : x ∉ ys := fun e => h (by simp [e])
    simp [indexOf?, h1, ih (k + 1) h2]


theorem prices_nodup : prices.Nodup :=
  prices_strictly_increasing.imp (fun h => ne_of_lt h)

/-- C17.3 moving `n` ticks from the tick with index `i` lands on index `i + n`, clamped to the
    first tick below and to 1000 above.  (With `prices_strictly_increasing` the index *is* the
    tick count.) -/
theorem ticks_away_exact (i : Nat) (hi : i < prices.length) (n : Int) :
    ticksAway prices[i] n =
      if (i : Int) + n < 0 then some (101 / 100)
      else match prices[((i : Int) + n).toNat]? with
        | some p => some p
        | none => some 1000 := by
  unfold ticksAway
  rw [indexOf?_getElem prices prices_nodup 0 i hi]
  simp only [Nat.zero_add]
  rfl

/-- a price that is not a tick raises (ValueError in the code) -/
theorem ticks_away_off_ladder (x : Rat) (n : Int) (h : x ∉ prices) : ticksAway x n = none := by
  unfold ticksAway
  rw [indexOf?_none prices x 0 h]

example : ticksAway 2 5 = some (21 / 10) := by decide +kernel
example : ticksAway 2 (-500) = some (101 / 100) := by decide +kernel
example : ticksAway 990 7 = some 1000 := by decide +kernel


/-! ### C17.5 order validation is exact (an `iff`: a loosened *or* a tightened check breaks it) -/

def minLimitOk (c : ClientParams) (p s : Rat) : Prop :=
  c.minBetValidation = false ∨ c.minBetSize ≤ s ∨ c.minBetPayout ≤ p * s

def minSpOk (c : ClientParams) (side : Side) (l : Rat) : Prop :=
  c.minBetValidation = false ∨
    (match side with | .back => c.minBetSize ≤ l | .lay => c.minBspLiability ≤ l)

/-- The property, declaratively: price on the ladder of the market, size / liability positive with
    at most two decimals, and the account's minimum stake / payout / SP-liability rules met. -/
def Accept (c : ClientParams) : VOrder → Prop
  | .limit _ price size target ladder =>
      ∃ p s, price = some p ∧ pyOr size target = some s ∧ 0 < s ∧ twoDp s = true ∧
        onLadder ladder p = true ∧ minLimitOk c p s
  | .limitOnClose side liab price ladder =>
      ∃ p l, price = some p ∧ liab = some l ∧ onLadder ladder p = true ∧ 0 < l ∧ twoDp l = true ∧
        minSpOk c side l
  | .marketOnClose side liab =>
      ∃ l, liab = some l ∧ 0 < l ∧ twoDp l = true ∧ minSpOk c side l
  | .betdaqLimit _ price size =>
      ∃ p s, price = some p ∧ size = some s ∧ 0 < s ∧ twoDp s = true ∧ betdaqPrices.contains p = true

theorem validateSize_none (x : Option Rat) :
    validateSize x = none ↔ ∃ v, x = some v ∧ 0 < v ∧ twoDp v = true := by
  cases x with
  | none => simp [validateSize]
  | some v =>
    simp only [validateSize]
    split_ifs with h1 h2 <;> simp_all [not_le]

theorem validateLiability_none (x : Option Rat) :
    validateLiability x = none ↔ ∃ v, x = some v ∧ 0 < v ∧ twoDp v = true := by
  cases x with
  | none => simp [validateLiability]
  | some v =>
    simp only [validateLiability]
    split_ifs with h1 h2 <;> simp_all [not_le]

theorem validateBetfairPrice_none (p : Option Rat) (l : LadderDef) :
    validateBetfairPrice p l = none ↔ ∃ v, p = some v ∧ onLadder l v = true := by
  cases p with
  | none => simp [validateBetfairPrice]
  | some v =>
    simp only [validateBetfairPrice]
    split_ifs with h
    · simp [h]
    · cases l <;> simp [h]

theorem validateMinLimit_none (c : ClientParams) (p s : Rat) :
    validateMinLimit c p s = none ↔ minLimitOk c p s := by
  unfold validateMinLimit minLimitOk
  cases hb : c.minBetValidation <;> simp
  by_cases h1 : s < c.minBetSize <;> by_cases h2 : p * s < c.minBetPayout <;>
    simp [h1, h2, not_lt.mp]


theorem validateMinSp_none (c : ClientParams) (side : Side) (l : Rat) :
    validateMinSp c side l = none ↔ minSpOk c side l := by
  unfold validateMinSp minSpOk
  cases hb : c.minBetValidation <;> cases side <;> simp

theorem firstErr_none (a : Option String) (b : Unit → Option String) :
    firstErr a b = none ↔ a = none ∧ b () = none := by
  cases a <;> simp [firstErr]

/-- C17.5 `OrderValidation` lets an order through **exactly** when the declarative condition holds. -/
theorem validation_exact (c : ClientParams) (o : VOrder) : validateOrder c o = none ↔ Accept c o := by
  cases o with
  | limit side price size target ladder =>
    simp only [validateOrder, Accept, firstErr_none, validateSize_none, validateBetfairPrice_none]
    constructor
    · rintro ⟨⟨s, hs, hpos, h2⟩, ⟨p, hp, hl⟩, h3⟩
      rw [hp, hs] at h3
      exact ⟨p, s, hp, hs, hpos, h2, hl, (validateMinLimit_none c p s).mp h3⟩
    · rintro ⟨p, s, hp, hs, hpos, h2, hl, hm⟩
      refine ⟨⟨s, hs, hpos, h2⟩, ⟨p, hp, hl⟩, ?_⟩
      rw [hp, hs]
      exact (validateMinLimit_none c p s).mpr hm
  | limitOnClose side liab price ladder =>
    simp only [validateOrder, Accept, firstErr_none, validateLiability_none, validateBetfairPrice_none]
    constructor
    · rintro ⟨⟨p, hp, hl⟩, ⟨l, hs, hpos, h2⟩, h3⟩
      rw [hs] at h3
      exact ⟨p, l, hp, hs, hl, hpos, h2, (validateMinSp_none c side l).mp h3⟩
    · rintro ⟨p, l, hp, hs, hl, hpos, h2, hm⟩
      refine ⟨⟨p, hp, hl⟩, ⟨l, hs, hpos, h2⟩, ?_⟩
      rw [hs]
      exact (validateMinSp_none c side l).mpr hm
  | marketOnClose side liab =>
    simp only [validateOrder, Accept, firstErr_none, validateLiability_none]
    constructor
    · rintro ⟨⟨l, hs, hpos, h2⟩, h3⟩
      rw [hs] at h3
      exact ⟨l, hs, hpos, h2, (validateMinSp_none c side l).mp h3⟩
    · rintro ⟨l, hs, hpos, h2, hm⟩
      refine ⟨⟨l, hs, hpos, h2⟩, ?_⟩
      rw [hs]
      exact (validateMinSp_none c side l).mpr hm
  | betdaqLimit side price size =>
    simp only [validateOrder, Accept, firstErr_none, validateSize_none]
    constructor
    · rintro ⟨⟨s, hs, hpos, h2⟩, h3⟩
      cases price with
      | none => simp at h3
      | some p =>
        refine ⟨p, s, rfl, hs, hpos, h2, ?_⟩
        by_contra hc
        simp at h3
        exact hc (List.contains_iff_mem.mpr h3)
    · rintro ⟨p, s, hp, hs, hpos, h2, hl⟩
      refine ⟨⟨s, hs, hpos, h2⟩, ?_⟩
      rw [hp]; simp
      exact List.contains_iff_mem.mp hl

/-- non-vacuity: a concrete order that is accepted, and one that is refused -/
def gbp : ClientParams := ⟨true, 1, 10, 10⟩
example : validateOrder gbp (.limit .back (some 2) (some 1) none .classic) = none := by decide +kernel
example : validateOrder gbp (.limit .back (some (201/100)) (some 1) none .classic) ≠ none := by decide +kernel
example : validateOrder gbp (.limit .lay (some 100) (some (1/10)) none .classic) = none := by decide +kernel
example : validateOrder gbp (.limit .lay (some 2) (some (1/10)) none .classic) ≠ none := by decide +kernel

/-! ### finest ladder and line ladders -/

theorem finest_runtime_ok : Gen.finestIsAllHundredths = true ∧ Gen.finestLen = 99900 := by decide +kernel

end Flumine.C17
