/-
  C16 — Reported exposure equals the true worst case.  Statements and proofs only.
-/
import Flumine.Exposure
import Flumine.Lemmas.Round
import Mathlib.Tactic.Linarith
import Mathlib.Tactic.Ring
namespace Flumine.C16
open Flumine

/-! ### Specification: each open bet fills completely at its limit price or not at all -/

/-- profit if the selection wins when the open BACK bets `sb` and open LAY bets `sl` fill -/
def winOutcome (b : Buckets) (sb sl : List (Rat × Rat)) : Rat :=
  sumRisk b.mb - sumRisk b.ml + sumRisk sb - sumRisk sl + b.mocWin

/-- profit if the selection loses when `sb` / `sl` fill -/
def loseOutcome (b : Buckets) (sb sl : List (Rat × Rat)) : Rat :=
  sumStake b.ml - sumStake b.mb - sumStake sb + sumStake sl + b.mocLose

/-- exact (unrounded) figures the code aims at -/
def exactWin (b : Buckets) : Rat := sumRisk b.mb - sumRisk b.ml - sumRisk b.ul + b.mocWin
def exactLose (b : Buckets) : Rat := sumStake b.ml - sumStake b.mb - sumStake b.ub + b.mocLose

/-- open bets have a price of at least 1 and a non-negative size -/
def OpenOk (l : List (Rat × Rat)) : Prop := ∀ ps ∈ l, 1 ≤ ps.1 ∧ 0 ≤ ps.2

theorem sumRisk_cons (p s : Rat) (l : List (Rat × Rat)) : sumRisk ((p, s) :: l) = (p - 1) * s + sumRisk l := rfl
theorem sumStake_cons (p s : Rat) (l : List (Rat × Rat)) : sumStake ((p, s) :: l) = s + sumStake l := rfl

theorem sums_sublist (l S : List (Rat × Rat)) (h : S.Sublist l) (ok : OpenOk l) :
    0 ≤ sumRisk S ∧ sumRisk S ≤ sumRisk l ∧ 0 ≤ sumStake S ∧ sumStake S ≤ sumStake l := by
  induction h with
  | slnil => simp [sumRisk, sumStake, sumRat]
  | cons a h ih =>
    obtain ⟨p, s⟩ := a
    have hok : OpenOk _ := fun x hx => ok x (List.mem_cons_of_mem _ hx)
    have ha := ok (p, s) (by simp)
    obtain ⟨i1, i2, i3, i4⟩ := ih hok
    have : 0 ≤ (p - 1) * s := mul_nonneg (by linarith [ha.1]) ha.2
    refine ⟨i1, ?_, i3, ?_⟩
    · rw [sumRisk_cons]; linarith
    · rw [sumStake_cons]; linarith [ha.2]
  | cons_cons a h ih =>
    obtain ⟨p, s⟩ := a
    have hok : OpenOk _ := fun x hx => ok x (List.mem_cons_of_mem _ hx)
    have ha := ok (p, s) (by simp)
    obtain ⟨i1, i2, i3, i4⟩ := ih hok
    have : 0 ≤ (p - 1) * s := mul_nonneg (by linarith [ha.1]) ha.2
    refine ⟨?_, ?_, ?_, ?_⟩ <;> simp only [sumRisk_cons, sumStake_cons] <;> linarith [ha.2]

/-- C16.1a no combination of fills does worse than the exact figures -/
theorem exact_is_lower_bound (b : Buckets) (sb sl : List (Rat × Rat))
    (hb : sb.Sublist b.ub) (hl : sl.Sublist b.ul) (okb : OpenOk b.ub) (okl : OpenOk b.ul) :
    exactWin b ≤ winOutcome b sb sl ∧ exactLose b ≤ loseOutcome b sb sl := by
  obtain ⟨b1, b2, b3, b4⟩ := sums_sublist b.ub sb hb okb
  obtain ⟨l1, l2, l3, l4⟩ := sums_sublist b.ul sl hl okl
  unfold exactWin winOutcome exactLose loseOutcome
  constructor <;> linarith

/-- C16.1b and the exact figures are attained (all lays fill for "win", all backs for "lose") -/
theorem exact_attained (b : Buckets) :
    winOutcome b [] b.ul = exactWin b ∧ loseOutcome b b.ub [] = exactLose b := by
  unfold exactWin winOutcome exactLose loseOutcome
  simp [sumRisk, sumStake, sumRat]

theorem calcMatched_close (mb ml : List (Rat × Rat)) :
    absR ((calcMatched mb ml).1 - (matchedExact mb ml).1) ≤ 1 / 200 ∧
    absR ((calcMatched mb ml).2 - (matchedExact mb ml).2) ≤ 1 / 200 := by
  unfold calcMatched
  split_ifs with h
  · simp only [Bool.and_eq_true, List.isEmpty_iff] at h
    obtain ⟨h1, h2⟩ := h
    subst h1; subst h2
    simp [matchedExact, sumRisk, sumStake, sumRat, absR]
  · exact ⟨round2_err _, round2_err _⟩

theorem calcUnmatched_close (ub ul : List (Rat × Rat)) :
    absR ((calcUnmatched ub ul).1 - (unmatchedExact ub ul).1) ≤ 1 / 200 ∧
    absR ((calcUnmatched ub ul).2 - (unmatchedExact ub ul).2) ≤ 1 / 200 := by
  unfold calcUnmatched
  split_ifs with h
  · simp only [Bool.and_eq_true, List.isEmpty_iff] at h
    obtain ⟨h1, h2⟩ := h
    subst h1; subst h2
    simp [unmatchedExact, sumRisk, sumStake, sumRat, absR]
  · exact ⟨round2_err _, round2_err _⟩

/-- C16.1c the reported figures are within one penny of the exact worst case (the code rounds the
    matched and the unmatched part to 2dp separately: two half-pennies per side). -/
theorem reported_close (b : Buckets) :
    absR ((exposuresOf b).worstWin - exactWin b) ≤ 1 / 100 ∧
    absR ((exposuresOf b).worstLose - exactLose b) ≤ 1 / 100 := by
  obtain ⟨m1, m2⟩ := calcMatched_close b.mb b.ml
  obtain ⟨u1, u2⟩ := calcUnmatched_close b.ub b.ul
  rw [absR_le_iff] at m1 m2 u1 u2
  simp only [exposuresOf, exactWin, exactLose, absR_le_iff]
  simp only [matchedExact, unmatchedExact] at m1 m2 u1 u2
  refine ⟨⟨?_, ?_⟩, ⟨?_, ?_⟩⟩ <;> linarith [m1.1, m1.2, m2.1, m2.2, u1.1, u1.2, u2.1, u2.2]

/-- C16.1 for every position: `get_exposures` reports, up to 0.01, the worst case over every
    combination of open orders filling (each fully or not at all, at its limit price). -/
theorem get_exposures_eq_worst (orders : List XOrder) (sel : Nat) (excl : Option Nat) (new : Option XOrder) :
    let b := buckets (orders.filter (·.sel = sel)) excl new
    let e := getExposures orders sel excl new
    (OpenOk b.ub → OpenOk b.ul →
      ∀ sb sl, sb.Sublist b.ub → sl.Sublist b.ul →
        e.worstWin - 1 / 100 ≤ winOutcome b sb sl ∧ e.worstLose - 1 / 100 ≤ loseOutcome b sb sl) ∧
    (winOutcome b [] b.ul ≤ e.worstWin + 1 / 100 ∧ loseOutcome b b.ub [] ≤ e.worstLose + 1 / 100) := by
  intro b e
  have hc := reported_close b
  have he : e = exposuresOf b := rfl
  rw [absR_le_iff, absR_le_iff] at hc
  obtain ⟨⟨c1, c2⟩, ⟨c3, c4⟩⟩ := hc
  constructor
  · intro okb okl sb sl hb hl
    obtain ⟨l1, l2⟩ := exact_is_lower_bound b sb sl hb hl okb okl
    rw [he]; constructor <;> linarith
  · obtain ⟨a1, a2⟩ := exact_attained b
    rw [he, a1, a2]; constructor <;> linarith

/-- C16.2 selection exposure is max(0, -min(win, lose)) of the reported figures -/
theorem selection_exposure_eq (orders : List XOrder) (sel : Nat) :
    selectionExposure orders sel =
      ratMax (-(ratMin (getExposures orders sel).worstWin (getExposures orders sel).worstLose)) 0 := rfl

/-! ### C16.4 status filter -/

/-- PENDING / VIOLATION / EXPIRED (the regenerated `PENDING_STATUS`) contribute nothing -/
theorem pending_contributes_nothing (excl : Option Nat) (b : Buckets) (o : XOrder)
    (h : isPendingStatus o.status = true) : addOrder excl b o = b := by
  unfold addOrder
  split_ifs <;> rfl

theorem pending_status_list : Gen.blotterPendingStatus = [.pending, .violation, .expired] := by decide

/-- every other status (and an order not yet placed) is counted: a matched BACK limit order lands in `mb` -/
theorem counted_matched_back (b : Buckets) (o : XOrder) (h : isPendingStatus o.status = false)
    (hk : o.kind = .limit) (hs : o.side = .back) (hm : o.sizeMatched ≠ 0) (hc : o.complete = true)
    (hl : o.lineRange = false) :
    addOrder none b o = { b with mb := b.mb ++ [(o.avgPrice, o.sizeMatched)] } := by
  unfold addOrder
  simp [h, hk, hs, hm, hc, hl]

theorem foldl_addOrder_filter (excl : Option Nat) (os : List XOrder) (b : Buckets) :
    os.foldl (addOrder excl) b =
      (os.filter (fun o => !isPendingStatus o.status)).foldl (addOrder excl) b := by
  induction os generalizing b with
  | nil => rfl
  | cons o os ih =>
    by_cases h : isPendingStatus o.status = true
    · simp [List.filter, h, pending_contributes_nothing excl b o h, ih]
    · have h' : isPendingStatus o.status = false := by simpa using h
      simp [List.filter, h', ih]

/-- C16.4 dropping the refused / unacknowledged orders from the book changes no figure -/
theorem status_filter (orders : List XOrder) (sel : Nat) :
    getExposures orders sel = getExposures (orders.filter (fun o => !isPendingStatus o.status)) sel := by
  unfold getExposures buckets
  simp only [Option.toList, List.append_nil]
  rw [foldl_addOrder_filter]
  congr 2
  simp only [List.filter_filter]
  congr 1
  funext o
  exact Bool.and_comm _ _

/-! ### C16.5 exclusion and new order -/

theorem excluded_contributes_nothing (b : Buckets) (o : XOrder) : addOrder (some o.id) b o = b := by
  unfold addOrder; simp

theorem addOrder_excl_irrelevant (e : Nat) (b : Buckets) (o : XOrder) (h : o.id ≠ e) :
    addOrder (some e) b o = addOrder none b o := by
  unfold addOrder
  have : ¬ (some e = some o.id) := by
    intro hh; exact h (Option.some.inj hh).symm
  simp [this]

theorem foldl_excl (e : Nat) (os : List XOrder) (b : Buckets) :
    os.foldl (addOrder (some e)) b = (os.filter (fun o => o.id ≠ e)).foldl (addOrder none) b := by
  induction os generalizing b with
  | nil => rfl
  | cons o os ih =>
    by_cases h : o.id = e
    · subst h
      simp [List.filter, excluded_contributes_nothing, ih]
    · simp [List.filter, h, addOrder_excl_irrelevant e b o h, ih]

/-- C16.5 (partial: the new order is a different order from the excluded one) an excluded order is
    handled exactly as if it had been removed from the book, and the prospective order exactly as if
    it had been added as a fresh resting order, whatever status it carries -/
theorem exclusion_new_order_partial (orders : List XOrder) (e : Nat) (n : XOrder) (h : n.id ≠ e) :
    buckets orders (some e) (some n) = buckets (orders.filter (fun o => o.id ≠ e)) none (some n) := by
  unfold buckets addNew
  simp only
  have h1 : ¬ (some e = some n.id) := fun hh => h (Option.some.inj hh).symm
  rw [if_neg h1, if_neg (by simp), foldl_excl, List.filter_filter, List.filter_filter]
  congr 3
  funext o
  exact Bool.and_comm _ _

theorem new_order_counted_in_full (b : Buckets) (n : XOrder) :
    addNew none b n = addOrder none b { n with status := none, complete := false } := by
  unfold addNew; simp

/-- the prospective order never appears twice: an instance of it already in the book is left out -/
theorem new_order_not_double_counted (orders : List XOrder) (excl : Option Nat) (n : XOrder) :
    buckets orders excl (some n) = buckets (orders.filter fun o => o.id ≠ n.id) excl (some n) := by
  unfold buckets
  simp only [List.filter_filter, Bool.and_self]

def wOrder : XOrder :=
  { id := 7, sel := 0, side := .lay, kind := .limit, lineRange := false, price := some 3,
    status := some .executable, complete := false, sizeMatched := 0, avgPrice := 0,
    sizeRemaining := 10, liability := 0 }

/-- the full statement fails on the code as it stands (known finding F1b): when the same order is
    passed as exclusion and as new order (what StrategyExposure does for REPLACE) it is dropped, not
    counted once -/
theorem exclusion_is_new_order_witness :
    (getExposures [wOrder] 0 (some 7) (some wOrder)).worstWin = 0 ∧
    (getExposures [wOrder] 0 none none).worstWin = -20 := by decide +kernel

/-- a refused order that is placed again (status VIOLATION, `complete`) is counted like a fresh one (fix of F18) -/
theorem refused_order_retried_is_counted :
    (getExposures [] 0 none (some { wOrder with status := some .violation, complete := true })).worstWin = -20 := by decide +kernel

/-- non-vacuity of the worst-case theorem's hypotheses -/
example : OpenOk (buckets [wOrder] none none).ul := by
  intro ps hps
  have : (buckets [wOrder] none none).ul = [(3, 10)] := by decide +kernel
  rw [this] at hps
  simp at hps
  subst hps
  constructor <;> norm_num

end Flumine.C16
