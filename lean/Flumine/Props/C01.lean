/-
  C01 — Exposure limits bound every order that reaches the exchange.
  Model: Controls.strategyExposure (StrategyExposure._validate), Exposure.getExposures /
  marketExposure, Txn.validateControls / txnPlace.
-/
import Flumine.Txn
import Flumine.Props.C16
import Mathlib.Tactic.Linarith
import Mathlib.Tactic.Ring
namespace Flumine.C01
open Flumine Flumine.World Flumine.C16

/-! ### C01.1 the decision: an order passes iff all three worst-case figures stay within their limits -/

/-- the selection figure the control compares: current worst case on the order's losing side -/
def curExp (orders : List XOrder) (o : COrder) (excl : Option Nat) : Rat :=
  match o.x.side with
  | .back => -(getExposures orders o.x.sel excl).worstLose
  | .lay => -(getExposures orders o.x.sel excl).worstWin

def within (lim : Option Rat) (x : Rat) : Prop := ∀ m, lim = some m → x ≤ m

instance (lim : Option Rat) (x : Rat) : Decidable (within lim x) := by
  unfold within
  cases lim with
  | none => exact isTrue (by intro m h; cases h)
  | some l => exact if h : x ≤ l then isTrue (by intro m hm; cases hm; exact h) else isFalse (fun hh => h (hh l rfl))

/-- a NEW order (that passed `strategy.validate_order`) is accepted iff, counting it in full,
    (1) its own worst-case loss ≤ max_order_exposure, (2) the strategy's worst case on the selection
    plus the order ≤ max_selection_exposure, (3) the worst case over the market with the order
    ≤ max_market_exposure — each only when configured -/
theorem place_accept_iff (lim : StratLimits) (orders : List XOrder) (ar wn : Nat) (o : COrder) (oe : Rat)
    (hoe : orderExposure o = .ok oe) :
    strategyExposure lim orders ar wn o .place true = .ok () ↔
      within lim.maxOrder oe ∧ within lim.maxSel (curExp orders o none + oe) ∧
      within lim.maxMarket (-(marketExposure orders ar wn none (some o.x))) := by
  unfold strategyExposure within curExp
  cases hmo : lim.maxOrder with
  | none =>
    cases hms : lim.maxSel with
    | none =>
      cases hmm : lim.maxMarket with
      | none => simp [hmo, hms, hmm, bind, Except.bind, pure, Except.pure]
      | some c =>
        simp only [hmo, hms, hmm, bind, Except.bind, pure, Except.pure, throw, throwThe, MonadExceptOf.throw]
        by_cases h : c < -(marketExposure orders ar wn none (some o.x))
        · simp [h, not_le.mpr h]
        · simp [h, not_lt.mp h]
    | some b =>
      cases hmm : lim.maxMarket with
      | none =>
        simp only [hmo, hms, hmm, hoe, bind, Except.bind, pure, Except.pure, throw, throwThe, MonadExceptOf.throw]
        cases o.x.side <;> simp <;> constructor <;> intro h <;> first | exact not_lt.mp (by simpa using h) | (simpa using not_lt.mpr h)
      | some c =>
        simp only [hmo, hms, hmm, hoe, bind, Except.bind, pure, Except.pure, throw, throwThe, MonadExceptOf.throw]
        cases o.x.side <;> simp <;> (split_ifs <;> simp_all <;> first | linarith | (constructor <;> linarith))
  | some a =>
    cases hms : lim.maxSel with
    | none =>
      cases hmm : lim.maxMarket with
      | none =>
        simp only [hmo, hms, hmm, hoe, bind, Except.bind, pure, Except.pure, throw, throwThe, MonadExceptOf.throw]
        simp
      | some c =>
        simp only [hmo, hms, hmm, hoe, bind, Except.bind, pure, Except.pure, throw, throwThe, MonadExceptOf.throw]
        simp; split_ifs <;> simp_all <;> first | linarith | (constructor <;> linarith)
    | some b =>
      cases hmm : lim.maxMarket with
      | none =>
        simp only [hmo, hms, hmm, hoe, bind, Except.bind, pure, Except.pure, throw, throwThe, MonadExceptOf.throw]
        cases o.x.side <;> simp <;> (split_ifs <;> simp_all <;> first | linarith | (constructor <;> linarith))
      | some c =>
        simp only [hmo, hms, hmm, hoe, bind, Except.bind, pure, Except.pure, throw, throwThe, MonadExceptOf.throw]
        cases o.x.side <;> simp <;> (split_ifs <;> simp_all <;> first | linarith | (refine ⟨?_, ?_, ?_⟩ <;> linarith) | (constructor <;> linarith))


/-- requests that cannot add exposure are not subject to the limits -/
theorem cancel_update_pass (lim : StratLimits) (orders : List XOrder) (ar wn : Nat) (o : COrder) (hb : o.betdaq = false) :
    strategyExposure lim orders ar wn o .cancel true = .ok () ∧ strategyExposure lim orders ar wn o .update true = .ok () := by
  unfold strategyExposure
  simp [hb, pure, Except.pure, bind, Except.bind]

/-- an order refused by `strategy.validate_order` (trade / live-trade limits, C10) never passes -/
theorem place_refused_when_not_validated (lim : StratLimits) (orders : List XOrder) (ar wn : Nat) (o : COrder) :
    strategyExposure lim orders ar wn o .place false = .error .validateOrder := by
  unfold strategyExposure
  simp [bind, Except.bind, throw, throwThe, MonadExceptOf.throw]

/-! ### C01.2 what an order contributes to the exact worst case, and how it evolves -/

/-- an order that the exposure calculation counts (acknowledged, not excluded) -/
def Counted (o : XOrder) : Prop := isPendingStatus o.status = false

/-- contribution to the profit if the selection wins -/
def cWin (o : XOrder) : Rat :=
  match o.kind with
  | .limit =>
    let ap : Rat := if o.lineRange then 2 else o.avgPrice
    let pr : Rat := if o.lineRange then 2 else o.price.getD 0
    match o.side with
    | .back => (ap - 1) * o.sizeMatched
    | .lay => -((ap - 1) * o.sizeMatched) - (if o.complete then 0 else (if pr = 0 then 0 else (pr - 1) * o.sizeRemaining))
  | _ => match o.side with | .back => 0 | .lay => -o.liability

/-- contribution to the profit if the selection loses -/
def cLose (o : XOrder) : Rat :=
  match o.kind with
  | .limit =>
    match o.side with
    | .back => -o.sizeMatched - (if o.complete then 0 else (if (if o.lineRange then (2 : Rat) else o.price.getD 0) = 0 then 0 else o.sizeRemaining))
    | .lay => o.sizeMatched
  | _ => match o.side with | .back => -o.liability | .lay => 0

theorem sumRisk_append (l : List (Rat × Rat)) (p s : Rat) : sumRisk (l ++ [(p, s)]) = sumRisk l + (p - 1) * s := by
  induction l with
  | nil => simp [sumRisk, sumRat]
  | cons x xs ih =>
    obtain ⟨a, b⟩ := x
    simp only [List.cons_append, sumRisk_cons, ih]; ring

theorem sumStake_append (l : List (Rat × Rat)) (p s : Rat) : sumStake (l ++ [(p, s)]) = sumStake l + s := by
  induction l with
  | nil => simp [sumStake, sumRat]
  | cons x xs ih =>
    obtain ⟨a, b⟩ := x
    simp only [List.cons_append, sumStake_cons, ih]; ring

/-- one loop iteration of get_exposures adds exactly the order's contributions to the exact figures
    (a limit order needs a price: LIMIT orders always carry one) -/
theorem addOrder_exact (b : Buckets) (o : XOrder) (hc : Counted o) (hp : o.kind = .limit → o.lineRange = false → o.price.isSome) :
    exactWin (addOrder none b o) = exactWin b + cWin o ∧ exactLose (addOrder none b o) = exactLose b + cLose o := by
  unfold addOrder Counted at *
  simp only [reduceCtorEq, if_false, hc, Bool.false_eq_true]
  cases hk : o.kind with
  | limit =>
    simp only [cWin, cLose, hk]
    cases hl : o.lineRange with
    | true =>
      simp only [if_true]
      cases o.side <;> cases hcp : o.complete <;> by_cases h0 : o.sizeMatched = 0 <;> by_cases hr : o.sizeRemaining = 0 <;>
        simp [exactWin, exactLose, h0, hr, sumRisk_append, sumStake_append] <;> (try constructor) <;> (first | trivial | ring | skip)
    | false =>
      have hps := hp hk hl
      obtain ⟨pr, hpr⟩ := Option.isSome_iff_exists.mp hps
      simp only [Bool.false_eq_true, if_false, hpr, Option.getD_some]
      cases o.side <;> cases hcp : o.complete <;> by_cases h0 : o.sizeMatched = 0 <;> by_cases hr : o.sizeRemaining = 0 <;>
        by_cases hz : pr = 0 <;>
        simp [exactWin, exactLose, h0, hr, hz, sumRisk_append, sumStake_append] <;> (try constructor) <;> (first | trivial | ring | skip)
  | limitOnClose =>
    simp only [cWin, cLose, hk]
    cases o.side <;> simp [exactWin, exactLose] <;> (try constructor) <;> (first | trivial | ring | skip)
  | marketOnClose =>
    simp only [cWin, cLose, hk]
    cases o.side <;> simp [exactWin, exactLose] <;> (try constructor) <;> (first | trivial | ring | skip)

def HasPrice (o : XOrder) : Prop := o.kind = .limit → o.lineRange = false → o.price.isSome

/-- the exact worst-case figures of a position are the sums of its orders' contributions -/
theorem foldl_exact (os : List XOrder) (b : Buckets) (h : ∀ o ∈ os, Counted o ∧ HasPrice o) :
    exactWin (os.foldl (addOrder none) b) = exactWin b + sumRat (os.map cWin) ∧
    exactLose (os.foldl (addOrder none) b) = exactLose b + sumRat (os.map cLose) := by
  induction os generalizing b with
  | nil => simp [sumRat]
  | cons o os ih =>
    have ho := h o (List.mem_cons_self)
    obtain ⟨a1, a2⟩ := addOrder_exact b o ho.1 ho.2
    obtain ⟨i1, i2⟩ := ih (addOrder none b o) (fun x hx => h x (List.mem_cons_of_mem _ hx))
    simp only [List.foldl_cons, List.map_cons, sumRat, i1, i2, a1, a2]
    constructor <;> ring

/-- how an order at the exchange can change after it was accepted: it is filled (in part) at its
    limit price or better, or (part of) what remains is cancelled / lapses, or it completes -/
structure Evolves (o o' : XOrder) : Prop where
  same : o'.id = o.id ∧ o'.sel = o.sel ∧ o'.side = o.side ∧ o'.kind = o.kind ∧ o'.lineRange = o.lineRange ∧ o'.price = o.price ∧ o'.liability = o.liability
  counted : Counted o'
  limit : o.kind = .limit
  open_ : o.complete = false
  price_ok : 1 ≤ (if o.lineRange then (2 : Rat) else o.price.getD 0)
  more_matched : o.sizeMatched ≤ o'.sizeMatched
  rem_nonneg : 0 ≤ o'.sizeRemaining
  /-- nothing appears from nowhere: matched + remaining never grows -/
  conserve : o'.sizeMatched + o'.sizeRemaining ≤ o.sizeMatched + o.sizeRemaining
  /-- the new fills are at the limit price or better: the matched risk (avg - 1) x matched moves by the
      fills' own risk, which for a back is at least, for a lay at most, (limit - 1) x filled -/
  fills_better :
    match o.side with
    | .back => (if o.lineRange then (2 : Rat) else o.avgPrice) * o.sizeMatched - o.sizeMatched +
                 ((if o.lineRange then (2 : Rat) else o.price.getD 0) - 1) * (o'.sizeMatched - o.sizeMatched)
               ≤ (if o.lineRange then (2 : Rat) else o'.avgPrice) * o'.sizeMatched - o'.sizeMatched
    | .lay => (if o.lineRange then (2 : Rat) else o'.avgPrice) * o'.sizeMatched - o'.sizeMatched
               ≤ (if o.lineRange then (2 : Rat) else o.avgPrice) * o.sizeMatched - o.sizeMatched +
                 ((if o.lineRange then (2 : Rat) else o.price.getD 0) - 1) * (o'.sizeMatched - o.sizeMatched)

/-- C01.2 no later fill, cancellation, lapse or completion makes either outcome worse -/
theorem evolves_monotone (o o' : XOrder) (h : Evolves o o') : cWin o ≤ cWin o' ∧ cLose o ≤ cLose o' := by
  obtain ⟨⟨_, _, hside, hkind, hlr, hprice, _⟩, _, hlim, hopen, hpk, hmm, hrn, hcons, hfb⟩ := h
  unfold cWin cLose
  rw [hkind, hlim, hside, hlr, hprice]
  simp only [hopen, Bool.false_eq_true, if_false]
  generalize hP : (if o.lineRange then (2 : Rat) else o.price.getD 0) = P at hpk hfb
  have hPne : P ≠ 0 := by intro e; rw [e] at hpk; linarith
  cases hs : o.side with
  | back =>
    rw [hs] at hfb
    simp only at hfb
    simp only [hPne, if_false]
    constructor
    · -- win: matched risk grows by at least (P-1)·f ≥ 0
      have : 0 ≤ (P - 1) * (o'.sizeMatched - o.sizeMatched) := mul_nonneg (by linarith) (by linarith)
      nlinarith [hfb]
    · -- lose: -(matched + remaining) can only rise
      by_cases hc' : o'.complete = true
      · simp only [hc', if_true]; linarith
      · simp only [hc', Bool.false_eq_true, if_false]; linarith
  | lay =>
    rw [hs] at hfb
    simp only at hfb
    simp only [hPne, if_false]
    constructor
    · by_cases hc' : o'.complete = true
      · simp only [hc', if_true]
        have h1 : 0 ≤ (P - 1) * o.sizeRemaining - (P - 1) * (o'.sizeMatched - o.sizeMatched) := by
          have : o'.sizeMatched - o.sizeMatched ≤ o.sizeRemaining := by linarith
          have := mul_le_mul_of_nonneg_left this (by linarith : (0 : Rat) ≤ P - 1)
          linarith
        nlinarith [hfb, h1]
      · simp only [hc', Bool.false_eq_true, if_false]
        have h1 : (P - 1) * o'.sizeRemaining ≤ (P - 1) * o.sizeRemaining - (P - 1) * (o'.sizeMatched - o.sizeMatched) := by
          have : o'.sizeRemaining ≤ o.sizeRemaining - (o'.sizeMatched - o.sizeMatched) := by linarith
          have := mul_le_mul_of_nonneg_left this (by linarith : (0 : Rat) ≤ P - 1)
          linarith
        nlinarith [hfb, h1]
    · linarith

/-- the same for a whole position: orders evolve (or stay as they are) independently -/
theorem position_monotone (os os' : List XOrder) (h : List.Forall₂ (fun o o' => o' = o ∨ Evolves o o') os os') :
    sumRat (os.map cWin) ≤ sumRat (os'.map cWin) ∧ sumRat (os.map cLose) ≤ sumRat (os'.map cLose) := by
  induction h with
  | nil => simp [sumRat]
  | cons hx _ ih =>
    simp only [List.map_cons, sumRat]
    rcases hx with e | e
    · subst e; constructor <;> linarith [ih.1, ih.2]
    · have := evolves_monotone _ _ e
      constructor <;> linarith [ih.1, ih.2, this.1, this.2]


/-! ### C01.3 acceptance keeps the position within the limit; by induction, so does every history -/

/-- both outcomes of the selection are within the limit (one penny of slack: the control compares
    figures rounded to 2dp) -/
def Safe (m : Rat) (os : List XOrder) : Prop :=
  -(sumRat (os.map cWin)) ≤ m + 1 / 100 ∧ -(sumRat (os.map cLose)) ≤ m + 1 / 100

def Good (os : List XOrder) : Prop := ∀ o ∈ os, Counted o ∧ HasPrice o

theorem exact_empty : exactWin ({} : Buckets) = 0 ∧ exactLose ({} : Buckets) = 0 := by
  simp [exactWin, exactLose, sumRisk, sumStake, sumRat]

/-- the figures the control reads for a position of counted orders are within a penny of the sums of contributions -/
theorem reported_vs_contributions (os : List XOrder) (h : Good os) :
    -(sumRat (os.map cWin)) ≤ -(exposuresOf (os.foldl (addOrder none) {})).worstWin + 1 / 100 ∧
    -(sumRat (os.map cLose)) ≤ -(exposuresOf (os.foldl (addOrder none) {})).worstLose + 1 / 100 := by
  obtain ⟨f1, f2⟩ := foldl_exact os {} h
  obtain ⟨r1, r2⟩ := reported_close (os.foldl (addOrder none) {})
  rw [absR_le_iff] at r1 r2
  rw [exact_empty.1, zero_add] at f1
  rw [exact_empty.2, zero_add] at f2
  constructor <;> linarith [r1.1, r1.2, r2.1, r2.2]

/-- the acknowledged form of a new BACK limit order: nothing matched, everything remaining -/
def AckBack (o : XOrder) (price size : Rat) : Prop :=
  o.kind = .limit ∧ o.side = .back ∧ o.lineRange = false ∧ o.price = some price ∧ price ≠ 0 ∧ o.complete = false ∧
  o.sizeMatched = 0 ∧ o.sizeRemaining = size ∧ Counted o

def AckLay (o : XOrder) (price size : Rat) : Prop :=
  o.kind = .limit ∧ o.side = .lay ∧ o.lineRange = false ∧ o.price = some price ∧ price ≠ 0 ∧ o.complete = false ∧
  o.sizeMatched = 0 ∧ o.sizeRemaining = size ∧ Counted o

theorem sumRat_append (l : List Rat) (x : Rat) : sumRat (l ++ [x]) = sumRat l + x := by
  induction l with
  | nil => simp [sumRat]
  | cons y ys ih => simp only [List.cons_append, sumRat, ih]; ring

/-- a BACK accepted against the selection limit (current worst case on the losing side, as reported,
    plus the stake ≤ limit) leaves the position safe -/
theorem accept_back_safe (m : Rat) (os : List XOrder) (o : XOrder) (price size : Rat) (hs : Safe m os) (hg : Good os)
    (ha : AckBack o price size)
    (hacc : -(exposuresOf (os.foldl (addOrder none) {})).worstLose + size ≤ m) : Safe m (os ++ [o]) := by
  obtain ⟨hk, hsd, hl, hp, hp0, hcp, hm0, hr, _⟩ := ha
  have hw : cWin o = 0 := by simp [cWin, hk, hsd, hl, hm0]
  have hlose : cLose o = -size := by simp [cLose, hk, hsd, hl, hp, hp0, hcp, hm0, hr]
  obtain ⟨_, r2⟩ := reported_vs_contributions os hg
  unfold Safe
  rw [List.map_append, List.map_append, List.map_singleton, List.map_singleton, sumRat_append, sumRat_append, hw, hlose]
  exact ⟨by linarith [hs.1], by linarith⟩

theorem accept_lay_safe (m : Rat) (os : List XOrder) (o : XOrder) (price size : Rat) (hs : Safe m os) (hg : Good os)
    (ha : AckLay o price size)
    (hacc : -(exposuresOf (os.foldl (addOrder none) {})).worstWin + (price - 1) * size ≤ m) : Safe m (os ++ [o]) := by
  obtain ⟨hk, hsd, hl, hp, hp0, hcp, hm0, hr, _⟩ := ha
  have hw : cWin o = -((price - 1) * size) := by simp [cWin, hk, hsd, hl, hp, hp0, hcp, hm0, hr]
  have hlose : cLose o = 0 := by simp [cLose, hk, hsd, hm0]
  obtain ⟨r1, _⟩ := reported_vs_contributions os hg
  unfold Safe
  rw [List.map_append, List.map_append, List.map_singleton, List.map_singleton, sumRat_append, sumRat_append, hw, hlose]
  exact ⟨by linarith, by linarith [hs.2]⟩

/-- the positions a strategy can reach on one selection when every order is acknowledged before the
    next decision is taken: accepted BACK / LAY limit orders, and any evolution of the orders at the
    exchange (fills at the limit price or better, cancellations, lapses, completion) -/
inductive Reach (m : Rat) : List XOrder → Prop
  | empty : Reach m []
  | back (os : List XOrder) (o : XOrder) (price size : Rat) : Reach m os → AckBack o price size →
      -(exposuresOf (os.foldl (addOrder none) {})).worstLose + size ≤ m → Reach m (os ++ [o])
  | lay (os : List XOrder) (o : XOrder) (price size : Rat) : Reach m os → AckLay o price size →
      -(exposuresOf (os.foldl (addOrder none) {})).worstWin + (price - 1) * size ≤ m → Reach m (os ++ [o])
  | evolve (os os' : List XOrder) : Reach m os → List.Forall₂ (fun o o' => o' = o ∨ Evolves o o') os os' → Reach m os'

theorem good_evolve (os os' : List XOrder) (hg : Good os) (h : List.Forall₂ (fun o o' => o' = o ∨ Evolves o o') os os') : Good os' := by
  induction h with
  | nil => intro o ho; cases ho
  | @cons a b l1 l2 hx _ ih =>
    intro o ho
    rcases List.mem_cons.mp ho with e | e
    · subst e
      rcases hx with e | e
      · subst e; exact hg _ List.mem_cons_self
      · have hb := hg a List.mem_cons_self
        refine ⟨e.counted, ?_⟩
        intro hk hl
        obtain ⟨_, _, _, hkind, hlr, hprice, _⟩ := e.same
        rw [hprice]; exact hb.2 (by rw [← hkind]; exact hk) (by rw [← hlr]; exact hl)
    · exact ih (fun x hx => hg x (List.mem_cons_of_mem _ hx)) o e

/-- C01 (selection limit, limit orders, acknowledgement discipline): in every reachable position both
    outcomes stay within the configured limit (plus the one-penny rounding slack) -/
theorem reach_safe (m : Rat) (hm : 0 ≤ m) (os : List XOrder) (h : Reach m os) : Safe m os ∧ Good os := by
  induction h with
  | empty => exact ⟨by unfold Safe; simp only [List.map_nil, sumRat, neg_zero]; constructor <;> linarith, by intro o ho; cases ho⟩
  | back os o price size _ ha hacc ih =>
    refine ⟨accept_back_safe m os o price size ih.1 ih.2 ha hacc, ?_⟩
    intro x hx
    rcases List.mem_append.mp hx with e | e
    · exact ih.2 x e
    · simp only [List.mem_singleton] at e; subst e
      exact ⟨ha.2.2.2.2.2.2.2.2, fun _ _ => by rw [ha.2.2.2.1]; rfl⟩
  | lay os o price size _ ha hacc ih =>
    refine ⟨accept_lay_safe m os o price size ih.1 ih.2 ha hacc, ?_⟩
    intro x hx
    rcases List.mem_append.mp hx with e | e
    · exact ih.2 x e
    · simp only [List.mem_singleton] at e; subst e
      exact ⟨ha.2.2.2.2.2.2.2.2, fun _ _ => by rw [ha.2.2.2.1]; rfl⟩
  | evolve os os' _ hev ih =>
    obtain ⟨m1, m2⟩ := position_monotone os os' hev
    exact ⟨⟨by linarith [ih.1.1], by linarith [ih.1.2]⟩, good_evolve os os' ih.2 hev⟩

/-- and the exact worst case over every combination of open orders filling (C16.1) is that sum: the
    strategy can never lose more than the limit plus a penny on the selection -/
theorem reach_worst_case (m : Rat) (hm : 0 ≤ m) (os : List XOrder) (h : Reach m os) :
    -(exactWin (os.foldl (addOrder none) {})) ≤ m + 1 / 100 ∧ -(exactLose (os.foldl (addOrder none) {})) ≤ m + 1 / 100 := by
  obtain ⟨hs, hg⟩ := reach_safe m hm os h
  obtain ⟨f1, f2⟩ := foldl_exact os {} hg
  rw [f1, f2, exact_empty.1, exact_empty.2, zero_add, zero_add]
  exact hs

/-! ### known finding F1: a price replacement is validated with the old price -/

/-- a LAY of 10 at 1.5 rests at the exchange (liability 5, limit 10); the strategy asks to replace its
    price by 1000 (liability 9990).  StrategyExposure sees the order with its current price: accepted. -/
def restingLay : COrder :=
  { x := { id := 0, sel := 1, side := .lay, kind := .limit, lineRange := false, price := some (3/2), status := some .executable,
           complete := false, sizeMatched := 0, avgPrice := 0, sizeRemaining := 10, liability := 0 },
    size := some 10, target := none, betdaq := false, ladder := .classicOrFinest }

theorem replace_checked_at_old_price_witness :
    strategyExposure ⟨some 10, some 100, none⟩ [restingLay.x] 2 1 restingLay .replace true = .ok () := by decide +kernel

/-! ### tie to the transaction: nothing is queued for the exchange unless the controls passed -/

theorem place_queued_only_if_controls_pass (w : World) (t : Txn) (oid : Nat) (v : Option Int)
    (h : (w.txnPlace t oid v true false).2.2 = .accepted) :
    ((w.modifyOrder oid fun o => { o with client := some t.client }).validateControls oid t.client .place).2 = none := by
  unfold txnPlace at h
  simp only [Bool.not_false, Bool.and_true, if_true] at h
  generalize (w.modifyOrder oid fun o => { o with client := some t.client }).validateControls oid t.client .place = vr at h ⊢
  obtain ⟨w1, r⟩ := vr
  cases r with
  | none => rfl
  | some r => simp at h

/-- a refused new order is marked as a violation and nothing is filed for it -/
theorem refused_place_files_nothing (w : World) (t : Txn) (oid : Nat) (v : Option Int) (r : Refusal)
    (h : (w.txnPlace t oid v true false).2.2 = .refused r) : (w.txnPlace t oid v true false).2.1 = t := by
  unfold txnPlace at h ⊢
  simp only [Bool.not_false, Bool.and_true, if_true] at h ⊢
  generalize (w.modifyOrder oid fun o => { o with client := some t.client }).validateControls oid t.client .place = vr at h ⊢
  obtain ⟨w1, r'⟩ := vr
  cases r' with
  | some r' => rfl
  | none =>
    simp only at h ⊢
    split_ifs at h ⊢ <;> simp_all

/-! ### non-vacuity -/

def ackBack (id : Nat) (p s : Rat) : XOrder :=
  { id := id, sel := 1, side := .back, kind := .limit, lineRange := false, price := some p, status := some .executable,
    complete := false, sizeMatched := 0, avgPrice := 0, sizeRemaining := s, liability := 0 }

example : AckBack (ackBack 0 3 4) 3 4 := by
  refine ⟨rfl, rfl, rfl, rfl, by norm_num, rfl, rfl, rfl, ?_⟩; unfold Counted; decide

example : Reach 10 [ackBack 0 3 4] :=
  Reach.back [] (ackBack 0 3 4) 3 4 Reach.empty (by refine ⟨rfl, rfl, rfl, rfl, by norm_num, rfl, rfl, rfl, ?_⟩; unfold Counted; decide) (by decide +kernel)

end Flumine.C01
