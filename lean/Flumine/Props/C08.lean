/-
  C08 — Settlement: simulated profit follows the exchange's rules.
  Model: SimLoop.simProfit (`SimulatedOrder.profit`), marketCleared (`Market.cleared`), wap.
-/
import Flumine.SimLoop
import Flumine.Props.C04
import Flumine.Lemmas.Round
import Flumine.Lemmas.Cents
import Mathlib.Tactic.Linarith
import Mathlib.Tactic.Ring
import Mathlib.Tactic.FieldSimp
namespace Flumine.C08
open Flumine Flumine.World Flumine.SimOrder

/-! ### rounding is odd -/

theorem floor_neg_of_int (y : Rat) (h : y = (y.floor : Rat)) : (-y).floor = -y.floor := by
  have : -y = ((-y.floor : Int) : Rat) := by push_cast; linarith
  rw [this]; exact Rat.floor_intCast _

theorem floor_neg_of_nonint (y : Rat) (h : (y.floor : Rat) < y) : (-y).floor = -y.floor - 1 := by
  have h2 := Rat.lt_floor_add_one y
  push_cast at h2
  have a : (-y.floor - 1 : Int) ≤ (-y).floor := by rw [Rat.le_floor_iff]; push_cast; linarith
  have b : (-y).floor < -y.floor := by rw [Rat.floor_lt_iff]; push_cast; linarith
  omega

/-- round-half-even is an odd function -/
theorem roundHalfEven_neg (y : Rat) : roundHalfEven (-y) = -roundHalfEven y := by
  have h1 := Rat.floor_le y
  have h2 := Rat.lt_floor_add_one y
  push_cast at h2
  by_cases hint : y = (y.floor : Rat)
  · have hf := floor_neg_of_int y hint
    unfold roundHalfEven
    simp only [hf]
    have e1 : -y - ((-y.floor : Int) : Rat) = 0 := by push_cast; linarith
    have e2 : y - (y.floor : Rat) = 0 := by linarith
    rw [e1, e2]
    norm_num
  · have hlt : (y.floor : Rat) < y := lt_of_le_of_ne h1 (Ne.symm hint)
    have hf := floor_neg_of_nonint y hlt
    unfold roundHalfEven
    simp only [hf]
    have e1 : -y - ((-y.floor - 1 : Int) : Rat) = 1 - (y - (y.floor : Rat)) := by push_cast; ring
    rw [e1]
    split_ifs with a b c d e f g <;> first | omega | (exfalso; linarith)

theorem round2_neg (x : Rat) : round2 (-x) = -round2 x := by
  unfold round2
  have : -x * 100 = -(x * 100) := by ring
  rw [this, roundHalfEven_neg]; push_cast; ring

/-! ### C08.2 a back and a lay with identical fills have exactly opposite profit -/

def flip (o : Order) : Order := { o with sim := { o.sim with side := (match o.sim.side with | .back => .lay | .lay => .back) } }

@[simp] theorem deadHeatCount_with_sim (o : Order) (s : SimOrder) : deadHeatCount { o with sim := s } = deadHeatCount o := rfl

theorem back_lay_opposite (o : Order) (hb : o.sim.side = .back)
    (hline : ¬ (o.sim.kind = .limit ∧ o.ladder = .lineRange)) : simProfit (flip o) = - simProfit o := by
  have hc : deadHeatCount (flip o) = deadHeatCount o := rfl
  unfold simProfit
  rw [hc]
  generalize deadHeatCount o = n
  simp only [flip, hb]
  by_cases hew : o.marketType = some "EACH_WAY"
  · simp only [hew, if_true]
    cases o.runnerStatus with
    | none => simp
    | some r =>
      cases r <;> simp <;> first | rfl | (rw [← round2_neg]; congr 1; ring)
  · simp only [hew, if_false, hline]
    cases o.runnerStatus with
    | none => simp
    | some r =>
      cases r <;> simp
      rw [← round2_neg]

/-! ### C08.3 nothing matched / removed / no result: zero -/

theorem removed_or_unsettled_zero (o : Order) (hline : ¬ (o.sim.kind = .limit ∧ o.ladder = .lineRange))
    (h : o.runnerStatus = some .removed ∨ o.runnerStatus = none ∨ o.runnerStatus = some .active ∨ o.runnerStatus = some .hidden) :
    simProfit o = 0 := by
  unfold simProfit
  rcases h with h | h | h | h <;> rw [h] <;> simp [hline] <;> split_ifs <;> rfl

theorem unmatched_zero (o : Order) (h0 : o.sim.sizeMatched = 0) (hline : ¬ (o.sim.kind = .limit ∧ o.ladder = .lineRange))
    (hew : o.marketType ≠ some "EACH_WAY") : simProfit o = 0 := by
  unfold simProfit
  simp only [hew, if_false, hline, h0]
  cases o.runnerStatus with
  | none => rfl
  | some r => cases r <;> simp [round2_zero] <;> split_ifs <;> simp [round2_zero]

/-! ### C08.1 profit against the per-fill payouts -/

def stake (m : List Frag) : Rat := sumRat (m.map fun f => f.size)
def weighted (m : List Frag) : Rat := sumRat (m.map fun f => f.price * f.size)

/-- what the exchange pays a backer on the individual fills when the runner wins (no dead heat) -/
def payoutWin (m : List Frag) : Rat := sumRat (m.map fun f => f.size * (f.price - 1))

theorem payoutWin_eq (m : List Frag) : payoutWin m = weighted m - stake m := by
  unfold payoutWin weighted stake
  induction m with
  | nil => simp [sumRat]
  | cons f fs ih => simp only [List.map_cons, sumRat, ih]; ring

/-- C08.1 a winning back without dead heat: the profit the simulator reports (computed from the 2dp
    average price, then rounded) is within 0.005 x matched size + 0.005 of the sum of the per-fill
    payouts stake x (price - 1); it is exact up to the final rounding when all fills share a price.
    (`sizeMatched = stake`, `avgPrice = round2 (weighted/stake)` is what `wap` maintains, C04.wap_size.) -/
theorem win_profit_close (o : Order) (m : List Frag) (hm : o.sim.matched = m)
    (hs : o.sim.sizeMatched = stake m) (hpos : 0 < stake m) (havg : o.sim.avgPrice = round2 (weighted m / stake m))
    (hw : o.runnerStatus = some .winner) (hside : o.sim.side = .back) (hdh : o.deadHeat = none ∨ o.deadHeat = some 1)
    (hew : o.marketType ≠ some "EACH_WAY") (hline : ¬ (o.sim.kind = .limit ∧ o.ladder = .lineRange)) :
    absR (simProfit o - payoutWin m) ≤ (1 / 200) * stake m + 1 / 200 := by
  have hn : deadHeatCount o = 1 := by
    unfold deadHeatCount
    rcases hdh with h | h <;> rw [h] <;> simp
  have hp : simProfit o = round2 (stake m * (round2 (weighted m / stake m) - 1)) := by
    unfold simProfit
    simp only [hew, if_false, hline, hw, hn, hside, hs, havg]
    norm_num
    rw [if_neg (by decide)]
  rw [hp, payoutWin_eq]
  have h1 := round2_err (stake m * (round2 (weighted m / stake m) - 1))
  have h2 := round2_err (weighted m / stake m)
  rw [absR_le_iff] at h1 h2 ⊢
  have hne : stake m ≠ 0 := ne_of_gt hpos
  have e : weighted m - stake m = stake m * (weighted m / stake m - 1) := by field_simp
  rw [e]
  have key1 : stake m * (round2 (weighted m / stake m) - 1) - stake m * (weighted m / stake m - 1)
      = stake m * (round2 (weighted m / stake m) - weighted m / stake m) := by ring
  have hb1 : stake m * (round2 (weighted m / stake m) - weighted m / stake m) ≤ stake m * (1 / 200) :=
    mul_le_mul_of_nonneg_left h2.2 (le_of_lt hpos)
  have hb2 : stake m * (-(1 / 200)) ≤ stake m * (round2 (weighted m / stake m) - weighted m / stake m) :=
    mul_le_mul_of_nonneg_left h2.1 (le_of_lt hpos)
  constructor <;> linarith [h1.1, h1.2]

/-- a losing back loses exactly the matched stake, a losing lay wins it (no rounding involved) -/
theorem lose_exact (o : Order) (hl : o.runnerStatus = some .loser) (hew : o.marketType ≠ some "EACH_WAY")
    (hline : ¬ (o.sim.kind = .limit ∧ o.ladder = .lineRange)) :
    simProfit o = (match o.sim.side with | .back => -o.sim.sizeMatched | .lay => o.sim.sizeMatched) := by
  unfold simProfit
  simp only [hew, if_false, hline, hl]
  cases o.sim.side <;> simp

/-- the dead-heat rule of a one-winner market with n dead-heating winners, on the average price:
    (s/n)(p - 1) - s(n - 1)/n -/
theorem dead_heat_formula (o : Order) (n : Nat) (hn : 2 ≤ n) (hw : o.runnerStatus = some .winner) (hside : o.sim.side = .back)
    (hdh : o.deadHeat = some n) (hew : o.marketType ≠ some "EACH_WAY") (hline : ¬ (o.sim.kind = .limit ∧ o.ladder = .lineRange)) :
    simProfit o = round2 ((o.sim.sizeMatched / n) * (o.sim.avgPrice - 1) - o.sim.sizeMatched * ((n : Rat) - 1) / n) := by
  unfold simProfit
  have h0 : n ≠ 0 := by omega
  have hc : deadHeatCount o = n := by unfold deadHeatCount; rw [hdh]; simp [h0]
  simp only [hew, if_false, hline, hw, hc, hside]
  by_cases h2 : n = 2
  · subst h2; norm_num
    rw [if_neg (by decide)]
  · have : n > 2 := by omega
    simp [h2, this]


/-! ### C08.4 the market-level cleared summary -/

/-- the matched orders of one client in a market's blotter -/
def clientMatched (w : World) (mid cid : Nat) : List Order :=
  ((w.market! mid).blotter.map w.order!).filter fun o => o.blotterClient = some cid ∧ 0 < o.sim.sizeMatched

/-- profit in the summary = (2dp) sum of the profits of exactly that client's matched orders; bet count = their number -/
theorem cleared_profit_is_sum (w : World) (mid cid : Nat) :
    (w.marketCleared mid cid).1 = round2 (sumRat ((clientMatched w mid cid).map simProfit)) ∧
    (w.marketCleared mid cid).2.2 = (clientMatched w mid cid).length := ⟨rfl, rfl⟩

/-- commission is charged on the net profit at the client's rate, and never on a net loss -/
theorem commission_only_on_net_win (w : World) (mid cid : Nat) (hc : 0 ≤ (w.client! cid).commission) :
    0 ≤ (w.marketCleared mid cid).2.1 ∧
    ((w.marketCleared mid cid).1 ≤ 0 → (w.marketCleared mid cid).2.1 = 0) ∧
    (0 < (w.marketCleared mid cid).1 → (w.marketCleared mid cid).2.1 = round2 ((w.marketCleared mid cid).1 * (w.client! cid).commission)) := by
  unfold marketCleared
  simp only
  generalize round2 (sumRat _) = p
  have hmax0 : ∀ x : Rat, 0 ≤ ratMax x 0 := by
    intro x; unfold ratMax; split
    · exact le_refl _
    · rename_i h; exact not_lt.mp h
  have hmaxneg : ∀ x : Rat, x ≤ 0 → ratMax x 0 = 0 := by
    intro x hx; unfold ratMax; split
    · rfl
    · rename_i h; exact le_antisymm hx (not_lt.mp h)
  have hmaxpos : ∀ x : Rat, 0 ≤ x → ratMax x 0 = x := by
    intro x hx; unfold ratMax; split
    · rename_i h; exact absurd hx (not_le.mpr h)
    · rfl
  refine ⟨?_, ?_, ?_⟩
  · exact round2_nonneg (hmax0 _)
  · intro hp
    rw [hmaxneg _ (mul_nonpos_of_nonpos_of_nonneg hp hc)]; exact round2_zero
  · intro hp
    rw [hmaxpos _ (mul_nonneg (le_of_lt hp) hc)]

/-! ### line markets -/

/-- even-money settlement of a line order on its (average) line: above / below / equal -/
theorem line_settlement (o : Order) (lr : Rat) (hk : o.sim.kind = .limit) (hl : o.ladder = .lineRange)
    (hew : o.marketType ≠ some "EACH_WAY") (hr : o.lineResult = some lr) (hc : IsCents o.sim.sizeMatched) :
    simProfit o =
      (if o.sim.avgPrice = lr then 0
       else if (o.sim.side = .back ∧ lr < o.sim.avgPrice) ∨ (o.sim.side = .lay ∧ o.sim.avgPrice < lr) then o.sim.sizeMatched
       else -o.sim.sizeMatched) := by
  unfold simProfit
  simp only [hew, if_false, hk, hl, and_self, if_true, hr]
  have : round2 (o.sim.sizeMatched * (2 - 1)) = o.sim.sizeMatched := by
    rw [show o.sim.sizeMatched * (2 - 1) = o.sim.sizeMatched by ring]; exact round2_of_isCents hc
  rw [this]

/-- with the stake returned on equality (fix c11f0ea) a back and a lay on the same line with the same
    2dp size are exactly opposite on line markets too -/
theorem line_back_lay_opposite (o : Order) (hb : o.sim.side = .back) (hk : o.sim.kind = .limit) (hl : o.ladder = .lineRange)
    (hew : o.marketType ≠ some "EACH_WAY") (hc : IsCents o.sim.sizeMatched) : simProfit (flip o) = - simProfit o := by
  cases hr : o.lineResult with
  | none =>
    unfold simProfit flip
    simp [hew, hk, hl, hr]
  | some lr =>
    have h1 := line_settlement o lr hk hl hew hr hc
    have h2 := line_settlement (flip o) lr (by simpa [flip] using hk) (by simpa [flip] using hl) (by simpa [flip] using hew)
      (by simpa [flip] using hr) (by simpa [flip] using hc)
    rw [h1, h2]
    simp only [flip, hb]
    by_cases e : o.sim.avgPrice = lr
    · simp [e]
    · rcases lt_or_gt_of_ne e with l | g
      · have : ¬ lr < o.sim.avgPrice := not_lt.mpr (le_of_lt l)
        simp [e, l, this]
      · have : ¬ o.sim.avgPrice < lr := not_lt.mpr (le_of_lt g)
        simp [e, g, this]

def lineOrder (side : Side) (line result : Rat) : Order :=
  { id := 0, trade := 0, strategy := 0, market := 0, sel := 0, ladder := .lineRange,
    sim := { side := side, kind := .limit, price := line, size := 10, sizeMatched := 10, avgPrice := line },
    lineResult := some result }

example : simProfit (lineOrder .back (5/2) (5/2)) = 0 ∧ simProfit (lineOrder .lay (5/2) (5/2)) = 0 ∧
    simProfit (lineOrder .back (5/2) 2) = 10 ∧ simProfit (lineOrder .lay (5/2) 2) = -10 := by decide +kernel

/-- known finding F8b: fills struck at different lines are settled on their average line, not per
    fill: a lay of 5 at line 1.5 and 5 at line 3.5 with result 3 is settled as 10 at line 2.5 (+10);
    fill by fill the exchange pays +5 - 5 = 0 -/
theorem line_average_witness :
    simProfit { lineOrder .lay (5/2) 3 with sim := { (lineOrder .lay (5/2) 3).sim with matched := [⟨0, 3/2, 5⟩, ⟨0, 7/2, 5⟩] } } = 10 := by
  decide +kernel

end Flumine.C08
