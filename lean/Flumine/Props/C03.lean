/-
  C03 — Order lifecycle: one operation in flight, legal transitions, finality.
  Model: World.orderCancel / orderUpdate / orderReplace (BetfairOrder guards), orderUpdateStatus and the
  status primitives, the per-order bodies of the simulated response handlers (SimExec.placeStep,
  cancelStep, updateStep) and the completion loop step (processSimulatedOrders).
-/
import Flumine.SimLoop
import Flumine.Lemmas.OrderLemmas
import Flumine.Lemmas.WorldLemmas
import Flumine.Lemmas.Final
import Flumine.Lemmas.Flight
import Flumine.Betdaq
import Mathlib.Tactic.Linarith
namespace Flumine.C03
open Flumine Flumine.World Flumine.OL Flumine.SimOrder

/-! ### the documented lifecycle -/

/-- pending → executable | complete; executable → cancelling | updating | replacing | complete;
    cancelling / updating / replacing → executable | complete; complete is final (a repeated
    completion report is not a return to life); a refused new order goes straight to violation -/
def legal : Option Status → Status → Bool
  | none, .pending => true
  | none, .violation => true
  | none, .executionComplete => true     -- a replacement order whose re-placement is refused (fix f690683)
  | some .pending, .executable => true
  | some .pending, .executionComplete => true
  | some .executable, .cancelling => true
  | some .executable, .updating => true
  | some .executable, .replacing => true
  | some .executable, .executionComplete => true
  | some .cancelling, .executable => true
  | some .cancelling, .executionComplete => true
  | some .updating, .executable => true
  | some .updating, .executionComplete => true
  | some .replacing, .executable => true
  | some .replacing, .executionComplete => true
  | some .executionComplete, .executionComplete => true
  | _, _ => false

def inFlight (s : Option Status) : Bool :=
  s = some .pending || s = some .cancelling || s = some .updating || s = some .replacing

theorem complete_iff_status (s : Status) :
    statusComplete s = true ↔ s = .executionComplete ∨ s = .expired ∨ s = .violation := by
  cases s <;> decide

/-- no legal step leaves a complete status for a live one -/
theorem legal_final (s t : Status) (hs : statusComplete s = true) (hl : legal (some s) t = true) : statusComplete t = true := by
  cases s <;> cases t <;> revert hs hl <;> decide

/-! ### C03.1 guards: a cancel / update / replace is accepted only on an executable order with a bet id and a compatible type -/

def isOk {ε α} : Except ε α → Bool | .ok _ => true | .error _ => false

theorem cancel_accepted_iff (w : World) (oid : Nat) (red : Option Rat) :
    isOk (w.orderCancel oid red) = true ↔
      (w.order! oid).betId.isSome = true ∧ (w.order! oid).sim.kind = .limit ∧ (w.order! oid).status = some .executable ∧
      reductionTooLarge (w.order! oid) red = false := by
  unfold orderCancel
  simp only
  cases hb : (w.order! oid).betId with
  | none => simp [isOk]
  | some b =>
    simp only [Option.isNone_some, Bool.false_eq_true, if_false, Option.isSome_some, true_and]
    by_cases hk : (w.order! oid).sim.kind = .limit
    · simp only [hk, if_true, true_and]
      by_cases h1 : reductionTooLarge (w.order! oid) red = true
      · rw [if_pos h1]
        constructor
        · intro h; cases h
        · intro h; rw [h1] at h; cases h.2
      · rw [if_neg h1]
        by_cases h2 : (w.order! oid).status = some .executable
        · rw [if_neg (not_not.mpr h2)]
          exact ⟨fun _ => ⟨h2, by simpa using h1⟩, fun _ => rfl⟩
        · rw [if_pos h2]
          constructor
          · intro h; cases h
          · intro h; exact absurd h.1 h2
    · simp [hk, isOk]

theorem update_accepted_iff (w : World) (oid : Nat) (pers : String) :
    isOk (w.orderUpdate oid pers) = true ↔
      (w.order! oid).betId.isSome = true ∧ (w.order! oid).sim.kind = .limit ∧ (w.order! oid).status = some .executable ∧
      (w.order! oid).sim.persistence ≠ pers := by
  unfold orderUpdate
  simp only
  cases hb : (w.order! oid).betId with
  | none => simp [isOk]
  | some b =>
    simp only [Option.isNone_some, Bool.false_eq_true, if_false, Option.isSome_some, true_and]
    by_cases hk : (w.order! oid).sim.kind = .limit
    · simp only [hk, if_true, true_and]
      by_cases h1 : (w.order! oid).sim.persistence = pers
      · rw [if_pos h1]
        constructor
        · intro h; cases h
        · intro h; exact absurd h1 h.2
      · rw [if_neg h1]
        by_cases h2 : (w.order! oid).status = some .executable
        · rw [if_neg (not_not.mpr h2)]
          exact ⟨fun _ => ⟨h2, h1⟩, fun _ => rfl⟩
        · rw [if_pos h2]
          constructor
          · intro h; cases h
          · intro h; exact absurd h.1 h2
    · simp [hk, isOk]

theorem replace_accepted_iff (w : World) (oid : Nat) (price : Rat) :
    isOk (w.orderReplace oid price) = true ↔
      (w.order! oid).betId.isSome = true ∧ ((w.order! oid).sim.kind = .limit ∨ (w.order! oid).sim.kind = .limitOnClose) ∧
      (w.order! oid).status = some .executable ∧ (w.order! oid).sim.price ≠ price := by
  unfold orderReplace
  simp only
  cases hb : (w.order! oid).betId with
  | none => simp [isOk]
  | some b =>
    simp only [Option.isNone_some, Bool.false_eq_true, if_false, Option.isSome_some, true_and]
    by_cases hk : (w.order! oid).sim.kind = .limit ∨ (w.order! oid).sim.kind = .limitOnClose
    · simp only [hk, if_true, true_and]
      by_cases h1 : (w.order! oid).sim.price = price
      · rw [if_pos h1]
        constructor
        · intro h; cases h
        · intro h; exact absurd h1 h.2
      · rw [if_neg h1]
        by_cases h2 : (w.order! oid).status = some .executable
        · rw [if_neg (not_not.mpr h2)]
          exact ⟨fun _ => ⟨h2, h1⟩, fun _ => rfl⟩
        · rw [if_pos h2]
          constructor
          · intro h; cases h
          · intro h; exact absurd h.1 h2
    · simp [hk, isOk]

/-- while anything is in flight (or the order is complete, refused or never placed) every request is
    rejected; a rejection is an `Except.error`: it carries no world, nothing was changed -/
theorem rejected_unless_executable (w : World) (oid : Nat) (h : (w.order! oid).status ≠ some .executable) :
    (∀ red, isOk (w.orderCancel oid red) = false) ∧ (∀ pers, isOk (w.orderUpdate oid pers) = false) ∧
    (∀ price, isOk (w.orderReplace oid price) = false) := by
  refine ⟨fun red => ?_, fun pers => ?_, fun price => ?_⟩
  · cases hr : isOk (w.orderCancel oid red) with
    | false => rfl
    | true => exact absurd ((cancel_accepted_iff w oid red).mp hr).2.2.1 h
  · cases hr : isOk (w.orderUpdate oid pers) with
    | false => rfl
    | true => exact absurd ((update_accepted_iff w oid pers).mp hr).2.2.1 h
  · cases hr : isOk (w.orderReplace oid price) with
    | false => rfl
    | true => exact absurd ((replace_accepted_iff w oid price).mp hr).2.2.1 h

/-! ### C03.2 an accepted request puts exactly one operation in flight -/

theorem set_then_status (w : World) (oid : Nat) (o1 : Order) (s : Status) (ho : HasOrder w oid) (hid : o1.id = oid) :
    ((w.setOrder o1).orderUpdateStatus oid s).order! oid = stamped o1 w.clock s := by
  have ho1 : HasOrder (w.setOrder o1) oid := hasOrder_setOrder w o1 oid ho
  rw [orderUpdateStatus_self _ oid s ho1]
  have := order!_setOrder_self w o1 (by rw [hid]; exact ho)
  rw [hid] at this
  rw [this]; rfl

theorem cancel_effect (w w' : World) (oid : Nat) (red : Option Rat) (ho : HasOrder w oid)
    (h : w.orderCancel oid red = .ok w') :
    (w'.order! oid).status = some .cancelling ∧ (w'.order! oid).log = (w.order! oid).log ++ [.cancelling] ∧
    (w'.order! oid).sim = (w.order! oid).sim ∧ (w'.order! oid).betId = (w.order! oid).betId ∧
    legal (w.order! oid).status .cancelling = true := by
  have hacc := (cancel_accepted_iff w oid red).mp (by rw [h]; rfl)
  unfold orderCancel at h
  simp only at h
  split_ifs at h with h1 h2 h3 h4
  · have hw' := (Except.ok.inj h).symm
    subst hw'
    unfold orderCancelling
    rw [set_then_status w oid _ .cancelling ho]
    · refine ⟨rfl, rfl, rfl, rfl, ?_⟩
      rw [hacc.2.2.1]; rfl
    · exact order!_id w oid ho

theorem update_effect (w w' : World) (oid : Nat) (pers : String) (ho : HasOrder w oid)
    (h : w.orderUpdate oid pers = .ok w') :
    (w'.order! oid).status = some .updating ∧ (w'.order! oid).log = (w.order! oid).log ++ [.updating] ∧
    (w'.order! oid).sim.sizeMatched = (w.order! oid).sim.sizeMatched ∧ (w'.order! oid).betId = (w.order! oid).betId ∧
    legal (w.order! oid).status .updating = true := by
  have hacc := (update_accepted_iff w oid pers).mp (by rw [h]; rfl)
  unfold orderUpdate at h
  simp only at h
  split_ifs at h with h1 h2 h3 h4
  · have hw' := (Except.ok.inj h).symm
    subst hw'
    unfold orderUpdating
    rw [set_then_status w oid _ .updating ho]
    · refine ⟨rfl, rfl, rfl, rfl, ?_⟩
      rw [hacc.2.2.1]; rfl
    · exact order!_id w oid ho

theorem replace_effect (w w' : World) (oid : Nat) (price : Rat) (ho : HasOrder w oid)
    (h : w.orderReplace oid price = .ok w') :
    (w'.order! oid).status = some .replacing ∧ (w'.order! oid).log = (w.order! oid).log ++ [.replacing] ∧
    (w'.order! oid).sim = (w.order! oid).sim ∧ (w'.order! oid).betId = (w.order! oid).betId ∧
    legal (w.order! oid).status .replacing = true := by
  have hacc := (replace_accepted_iff w oid price).mp (by rw [h]; rfl)
  unfold orderReplace at h
  simp only at h
  split_ifs at h with h1 h2 h3 h4
  · have hw' := (Except.ok.inj h).symm
    subst hw'
    unfold orderReplacing
    rw [set_then_status w oid _ .replacing ho]
    · refine ⟨rfl, rfl, rfl, rfl, ?_⟩
      rw [hacc.2.2.1]; rfl
    · exact order!_id w oid ho

/-- at most one operation per order is outstanding: after any accepted request every further
    request on that order is rejected -/
theorem one_in_flight (w w' : World) (oid : Nat) (ho : HasOrder w oid)
    (h : (∃ red, w.orderCancel oid red = .ok w') ∨ (∃ pers, w.orderUpdate oid pers = .ok w') ∨ (∃ price, w.orderReplace oid price = .ok w')) :
    inFlight (w'.order! oid).status = true ∧
    (∀ red, isOk (w'.orderCancel oid red) = false) ∧ (∀ pers, isOk (w'.orderUpdate oid pers) = false) ∧
    (∀ price, isOk (w'.orderReplace oid price) = false) := by
  have hs : (w'.order! oid).status = some .cancelling ∨ (w'.order! oid).status = some .updating ∨ (w'.order! oid).status = some .replacing := by
    rcases h with ⟨r, h⟩ | ⟨p, h⟩ | ⟨p, h⟩
    · exact Or.inl (cancel_effect w w' oid r ho h).1
    · exact Or.inr (Or.inl (update_effect w w' oid p ho h).1)
    · exact Or.inr (Or.inr (replace_effect w w' oid p ho h).1)
  have hne : (w'.order! oid).status ≠ some .executable := by
    rcases hs with e | e | e <;> rw [e] <;> decide
  refine ⟨?_, rejected_unless_executable w' oid hne⟩
  rcases hs with e | e | e <;> rw [e] <;> decide

/-- a pending order (placement in flight) rejects everything as well -/
theorem pending_rejects (w : World) (oid : Nat) (h : (w.order! oid).status = some .pending) :
    (∀ red, isOk (w.orderCancel oid red) = false) ∧ (∀ pers, isOk (w.orderUpdate oid pers) = false) ∧
    (∀ price, isOk (w.orderReplace oid price) = false) :=
  rejected_unless_executable w oid (by rw [h]; decide)

/-! ### the status primitives on the order they are applied to -/

theorem executable_self (w : World) (oid : Nat) (ho : HasOrder w oid) :
    (w.orderExecutable oid).order! oid =
      if (w.order! oid).complete then { w.order! oid with ud := {} }
      else { stamped (w.order! oid) w.clock .executable with ud := {} } := by
  unfold orderExecutable
  by_cases hc : (w.order! oid).complete = true
  · rw [if_pos hc, if_pos hc]
    rw [order!_modify_self w oid _ ho]
    intro x hx; exact hx
  · rw [if_neg hc, if_neg hc]
    rw [order!_modify_self _ oid _ (hasOrder_orderUpdateStatus w oid oid .executable ho)]
    · rw [orderUpdateStatus_self w oid .executable ho]
    · intro x hx; exact hx

theorem executionComplete_self (w : World) (oid : Nat) (ho : HasOrder w oid) :
    (w.orderExecutionComplete oid).order! oid =
      { stamped (w.order! oid) w.clock .executionComplete with ud := {}, completeAt := some w.clock } := by
  unfold orderExecutionComplete
  rw [order!_modify_self _ oid _ (hasOrder_orderUpdateStatus w oid oid .executionComplete ho)]
  · rw [orderUpdateStatus_self w oid .executionComplete ho]
  · intro x hx; exact hx

/-- C03.3 finality of `executable()`: a complete order ignores it (fix 4d8e701) -/
theorem executable_keeps_complete (w : World) (oid : Nat) (ho : HasOrder w oid) (hc : (w.order! oid).complete = true) :
    ((w.orderExecutable oid).order! oid).complete = true ∧ ((w.orderExecutable oid).order! oid).status = (w.order! oid).status ∧
    ((w.orderExecutable oid).order! oid).log = (w.order! oid).log ∧ ((w.orderExecutable oid).order! oid).sim = (w.order! oid).sim := by
  rw [executable_self w oid ho, if_pos hc]
  exact ⟨hc, rfl, rfl, rfl⟩

/-! ### C03.3 response handlers: the order handled -/

/-- what a response handler may leave behind on the order it handles: the order with new simulated
    sizes, either untouched in status (already complete: final), or moved by one step to executable
    or to complete -/
inductive HandlerOutcome (o o' : Order) : Prop
  | final (hc : o.complete = true) (h1 : o'.complete = true) (h2 : o'.status = o.status) (h3 : o'.log = o.log)
  | toExecutable (hc : o.complete = false) (h2 : o'.status = some .executable) (h3 : o'.log = o.log ++ [.executable])
  | toComplete (h1 : o'.complete = true) (h2 : o'.status = some .executionComplete) (h3 : o'.log = o.log ++ [.executionComplete])

theorem outcome_never_revives (o o' : Order) (h : HandlerOutcome o o') (hc : o.complete = true) : o'.complete = true := by
  cases h with
  | final _ h1 _ _ => exact h1
  | toExecutable hc' _ _ => rw [hc] at hc'; cases hc'
  | toComplete h1 _ _ => exact h1

/-- `complete` is the cached value of `_is_complete()` for the current status -/
def Consistent (o : Order) : Prop := ∀ s, o.status = some s → o.complete = statusComplete s

theorem stamped_consistent (o : Order) (now : Time) (s : Status) : Consistent (stamped o now s) := by
  intro t ht
  have : s = t := Option.some.inj ht
  subst this; rfl

/-- the step appended is a legal one when the order was in flight -/
theorem outcome_legal (o o' : Order) (h : HandlerOutcome o o') (hcons : Consistent o) (hf : inFlight o.status = true) :
    ∃ s, o'.log = o.log ++ [s] ∧ legal o.status s = true := by
  have hst : o.status = some .pending ∨ o.status = some .cancelling ∨ o.status = some .updating ∨ o.status = some .replacing := by
    unfold inFlight at hf
    simp only [Bool.or_eq_true, decide_eq_true_eq] at hf
    tauto
  have hnc : o.complete = false := by
    rcases hst with e | e | e | e <;> rw [hcons _ e] <;> decide
  cases h with
  | final hc _ _ _ => rw [hnc] at hc; cases hc
  | toExecutable _ _ h3 => exact ⟨.executable, h3, by rcases hst with e | e | e | e <;> rw [e] <;> rfl⟩
  | toComplete _ _ h3 => exact ⟨.executionComplete, h3, by rcases hst with e | e | e | e <;> rw [e] <;> rfl⟩

theorem executable_outcome (w : World) (oid : Nat) (ho : HasOrder w oid) :
    HandlerOutcome (w.order! oid) ((w.orderExecutable oid).order! oid) := by
  rw [executable_self w oid ho]
  by_cases hc : (w.order! oid).complete = true
  · rw [if_pos hc]; exact .final hc hc rfl rfl
  · rw [if_neg hc]; exact .toExecutable (by simpa using hc) rfl rfl

theorem executionComplete_outcome (w : World) (oid : Nat) (ho : HasOrder w oid) :
    HandlerOutcome (w.order! oid) ((w.orderExecutionComplete oid).order! oid) := by
  rw [executionComplete_self w oid ho]
  exact .toComplete rfl rfl rfl

/-- sizes of the simulated order that a cancel response may change: only the cancelled size -/
theorem sim_cancel_matched (o : SimOrder) (st : MStatus) (red : Option Rat) :
    (o.cancel st red).1.sizeMatched = o.sizeMatched ∧ (o.cancel st red).1.matched = o.matched ∧
    (o.cancel st red).1.avgPrice = o.avgPrice := by
  unfold SimOrder.cancel
  split_ifs
  · exact ⟨rfl, rfl, rfl⟩
  · split <;> exact ⟨rfl, rfl, rfl⟩

theorem sim_update_matched (o : SimOrder) (b : BookView) (p : String) :
    (o.update b p).1.sizeMatched = o.sizeMatched ∧ (o.update b p).1.matched = o.matched := by
  unfold SimOrder.update
  split_ifs <;> exact ⟨rfl, rfl⟩

/-- the order with the simulated part replaced keeps identity, status, log and completeness -/
theorem modify_sim_fields (w : World) (oid : Nat) (f : Order → Order) (ho : HasOrder w oid)
    (hid : ∀ x, (f x).id = x.id) :
    HasOrder (w.modifyOrder oid f) oid ∧ (w.modifyOrder oid f).order! oid = f (w.order! oid) :=
  ⟨hasOrder_modify w oid oid f ho (fun x hx => by rw [hid, hx]), order!_modify_self w oid f ho (fun x hx => by rw [hid, hx])⟩

/-- execute_cancel, for the order it handles: the response moves a cancelling order to executable or
    complete by one legal step, leaves an order that completed meanwhile complete, and never changes
    what was matched -/
theorem cancelStep_outcome (p : Package) (w : World) (failed oid : Nat) (ho : HasOrder w oid) :
    HandlerOutcome (w.order! oid) ((cancelStep p (w, failed) oid).1.order! oid) ∧
    ((cancelStep p (w, failed) oid).1.order! oid).sim.sizeMatched = (w.order! oid).sim.sizeMatched := by
  unfold cancelStep
  simp only
  -- the world after entering the trade and recording the simulated response
  have hen := tradeEnter_orders w (w.order! oid).trade
  have ho1 : HasOrder (w.tradeEnter (w.order! oid).trade) oid := (hasOrder_congr _ _ hen oid).mpr ho
  have ho1' := order!_congr _ _ hen oid
  generalize hw1 : w.tradeEnter (w.order! oid).trade = w1 at ho1 ho1'
  generalize hbook : ((w1.market! p.market).book).getD {} = book
  generalize hred : (if (w.order! oid).ud.hasReduction then (w.order! oid).ud.sizeReduction else none) = red
  have hm := modify_sim_fields w1 oid
    (fun o => { o with sim := ((w.order! oid).sim.cancel book.status red).1, cancelResponses := o.cancelResponses + 1 }) ho1 (fun _ => rfl)
  generalize hw2 : w1.modifyOrder oid
    (fun o => { o with sim := ((w.order! oid).sim.cancel book.status red).1, cancelResponses := o.cancelResponses + 1 }) = w2 at hm
  obtain ⟨ho2, ho2'⟩ := hm
  rw [ho1'] at ho2'
  have hsm := (sim_cancel_matched (w.order! oid).sim book.status red).1
  -- transport an outcome on w2's order back to w's order
  have lift : ∀ o', HandlerOutcome (w2.order! oid) o' → o'.sim.sizeMatched = (w2.order! oid).sim.sizeMatched →
      HandlerOutcome (w.order! oid) o' ∧ o'.sim.sizeMatched = (w.order! oid).sim.sizeMatched := by
    intro o' h hs
    rw [ho2'] at h hs
    refine ⟨?_, by rw [hs]; exact hsm⟩
    cases h with
    | final hc h1 h2 h3 => exact .final hc h1 h2 h3
    | toExecutable hc h2 h3 => exact .toExecutable hc h2 h3
    | toComplete h1 h2 h3 => exact .toComplete h1 h2 h3
  cases hresp : ((w.order! oid).sim.cancel book.status red).2.status with
  | success =>
    simp only
    split_ifs with hrem
    · rw [order!_congr _ _ (tradeExit_orders _ _)]
      exact lift _ (executionComplete_outcome w2 oid ho2) (by rw [executionComplete_self w2 oid ho2]; rfl)
    · rw [order!_congr _ _ (tradeExit_orders _ _)]
      refine lift _ (executable_outcome w2 oid ho2) ?_
      rw [executable_self w2 oid ho2]; split_ifs <;> rfl
  | failure =>
    simp only
    rw [order!_congr _ _ (tradeExit_orders _ _)]
    refine lift _ (executable_outcome w2 oid ho2) ?_
    rw [executable_self w2 oid ho2]; split_ifs <;> rfl

/-- execute_update, for the order it handles -/
theorem updateStep_outcome (p : Package) (w : World) (failed oid : Nat) (ho : HasOrder w oid) :
    HandlerOutcome (w.order! oid) ((updateStep p (w, failed) oid).1.order! oid) ∧
    ((updateStep p (w, failed) oid).1.order! oid).sim.sizeMatched = (w.order! oid).sim.sizeMatched := by
  unfold updateStep
  simp only
  have hen := tradeEnter_orders w (w.order! oid).trade
  have ho1 : HasOrder (w.tradeEnter (w.order! oid).trade) oid := (hasOrder_congr _ _ hen oid).mpr ho
  have ho1' := order!_congr _ _ hen oid
  generalize hw1 : w.tradeEnter (w.order! oid).trade = w1 at ho1 ho1'
  generalize hbook : ((w1.market! p.market).book).getD {} = book
  have hm := modify_sim_fields w1 oid
    (fun o => { o with sim := ((w.order! oid).sim.update book.view (w.order! oid).sim.persistence).1, updateResponses := o.updateResponses + 1 })
    ho1 (fun _ => rfl)
  generalize hw2 : w1.modifyOrder oid
    (fun o => { o with sim := ((w.order! oid).sim.update book.view (w.order! oid).sim.persistence).1, updateResponses := o.updateResponses + 1 }) = w2 at hm
  obtain ⟨ho2, ho2'⟩ := hm
  rw [ho1'] at ho2'
  have hsm := (sim_update_matched (w.order! oid).sim book.view (w.order! oid).sim.persistence).1
  rw [order!_congr _ _ (tradeExit_orders _ _)]
  have h := executable_outcome w2 oid ho2
  have hs : ((w2.orderExecutable oid).order! oid).sim.sizeMatched = (w2.order! oid).sim.sizeMatched := by
    rw [executable_self w2 oid ho2]; split_ifs <;> rfl
  rw [ho2'] at h hs
  refine ⟨?_, by rw [hs]; exact hsm⟩
  cases h with
  | final hc h1 h2 h3 => exact .final hc h1 h2 h3
  | toExecutable hc h2 h3 => exact .toExecutable hc h2 h3
  | toComplete h1 h2 h3 => exact .toComplete h1 h2 h3


/-- `_order_logger` keeps identity, status, log and completeness of the order -/
theorem logPlaced_fields (w : World) (oid : Nat) (b : Option Nat) (ho : HasOrder w oid) :
    HasOrder (w.logPlaced oid b) oid ∧ ((w.logPlaced oid b).order! oid).status = (w.order! oid).status ∧
    ((w.logPlaced oid b).order! oid).log = (w.order! oid).log ∧ ((w.logPlaced oid b).order! oid).complete = (w.order! oid).complete := by
  unfold logPlaced
  have h1 := modify_sim_fields w oid (fun o => { o with placedAt := some w.clock }) ho (fun _ => rfl)
  cases b with
  | none => simp only; rw [h1.2]; exact ⟨h1.1, rfl, rfl, rfl⟩
  | some b =>
    simp only
    have h2 := modify_sim_fields _ oid (fun o => { o with betId := some b }) h1.1 (fun _ => rfl)
    rw [order!_congr _ _ (emit_orders _ _), h2.2, h1.2]
    exact ⟨(hasOrder_congr _ _ (emit_orders _ _) oid).mpr h2.1, rfl, rfl, rfl⟩

/-- execute_place, for the order it handles: pending goes to executable or complete by one legal
    step; an order that completed while the placement was in flight stays complete -/
theorem placeStep_outcome (p : Package) (w : World) (oid : Nat) (ho : HasOrder w oid) :
    HandlerOutcome (w.order! oid) ((placeStep p w oid).order! oid) := by
  unfold placeStep
  simp only
  have hen : ((w.tradeEnter (w.order! oid).trade).bumpBetId).orders = w.orders := by
    exact tradeEnter_orders w (w.order! oid).trade
  have ho1 : HasOrder ((w.tradeEnter (w.order! oid).trade).bumpBetId) oid := (hasOrder_congr _ _ hen oid).mpr ho
  have ho1' := order!_congr _ _ hen oid
  generalize hw1 : (w.tradeEnter (w.order! oid).trade).bumpBetId = w1 at ho1 ho1'
  generalize hpr : placeResponse p w1 (w.order! oid) = pr
  have hm := modify_sim_fields w1 oid (fun o => { o with sim := pr.1 }) ho1 (fun _ => rfl)
  generalize hw2 : w1.modifyOrder oid (fun o => { o with sim := pr.1 }) = w2 at hm
  obtain ⟨ho2, ho2'⟩ := hm
  rw [ho1'] at ho2'
  have hl := logPlaced_fields w2 oid pr.2.betId ho2
  generalize hw3 : w2.logPlaced oid pr.2.betId = w3 at hl
  obtain ⟨ho3, hs3, hl3, hc3⟩ := hl
  rw [ho2'] at hs3 hl3 hc3
  have lift : ∀ o', HandlerOutcome (w3.order! oid) o' → HandlerOutcome (w.order! oid) o' := by
    intro o' h
    cases h with
    | final hc h1 h2 h3 => exact .final (by rw [← hc3]; exact hc) h1 (by rw [h2, hs3]) (by rw [h3, hl3])
    | toExecutable hc h2 h3 => exact .toExecutable (by rw [← hc3]; exact hc) h2 (by rw [h3, hl3])
    | toComplete h1 h2 h3 => exact .toComplete h1 h2 (by rw [h3, hl3])
  rw [order!_congr _ _ (tradeExit_orders _ _)]
  cases pr.2.status with
  | success => exact lift _ (executable_outcome w3 oid ho3)
  | failure => exact lift _ (executionComplete_outcome w3 oid ho3)

/-! ### the completion loop -/

/-- `_process_simulated_orders` on one live order: a complete order is only taken off the live list
    (its status, log and sizes stay), any other order is either left alone or completed by one step -/
theorem loopStep_order (mid : Nat) (w : World) (oid : Nat) (ho : HasOrder w oid) :
    (C15.loopStep mid w oid).order! oid = w.order! oid ∨
    ((w.order! oid).complete = false ∧
      (C15.loopStep mid w oid).order! oid =
        { stamped (w.order! oid) w.clock .executionComplete with ud := {}, completeAt := some w.clock }) := by
  have hb : ∀ w' : World, (w'.blotterComplete mid oid).orders = w'.orders := fun _ => rfl
  rcases C15.loopStep_keeps_or_completes mid w oid with h | ⟨_, h⟩ | h
  · left; rw [h]
  · left; rw [h, order!_congr _ _ (hb w)]
  · by_cases hc : (w.order! oid).complete = true
    · left
      unfold C15.loopStep
      simp only [hc, if_true]
      rw [order!_congr _ _ (hb w)]
    · right
      refine ⟨by simpa using hc, ?_⟩
      rw [h, order!_congr _ _ (hb _), executionComplete_self w oid ho]


/-! ### C03.3 finality for whole runs (invariant by induction, `Lemmas/Final.lean`) -/

open Flumine.Fin Flumine.Inv in
/-- C03 finality, whole-run: take ANY history - any sequence of updates of any markets, in any interleaving, with
    any scripted behaviour of any strategies (requests batched or not, forced or not, refused or accepted, aimed
    at any order through a transaction of any market), packages executed after their latency, matching, removals,
    completion loop, closes and re-opens - and ANY continuation of it.  An order of a market's blotter that is
    EXECUTION_COMPLETE at some point is EXECUTION_COMPLETE (and `complete`) ever after and never leaves the
    blotter: no request, late response, reset, matching pass, removal or closure makes it live again. -/
theorem complete_is_final_whole_run (cfg : Config) (cl : List Client) (ss : List Strategy) (M : Nat)
    (past future : List (Nat × Book × (Nat → List Action))) (oid : Nat) :
    oid ∈ ((runUpdates { cfg := cfg, clients := cl, strategies := ss } past).market! M).blotter →
    ((runUpdates { cfg := cfg, clients := cl, strategies := ss } past).order! oid).status = some .executionComplete →
    ((runUpdates (runUpdates { cfg := cfg, clients := cl, strategies := ss } past) future).order! oid).status = some .executionComplete ∧
    ((runUpdates (runUpdates { cfg := cfg, clients := cl, strategies := ss } past) future).order! oid).complete = true ∧
    oid ∈ ((runUpdates (runUpdates { cfg := cfg, clients := cl, strategies := ss } past) future).market! M).blotter := by
  intro hb he
  obtain ⟨b1, _⟩ := (fs_runUpdates M _ past).2 (bi_empty M cfg cl ss)
  obtain ⟨b2, s2⟩ := (fs_runUpdates M _ future).2 b1
  have hb2 := s2.1 oid hb
  have he2 := s2.2 oid hb he
  exact ⟨he2, ec_complete b2 oid hb2 he2, hb2⟩

open Flumine.Fin Flumine.Inv in
/-- in every reachable state every order of a blotter is in one of the statuses of a sent order (never back to
    "no status", never VIOLATION or EXPIRED) and its `complete` flag is the `_is_complete()` of that status -/
theorem blotter_orders_sent_whole_run (cfg : Config) (cl : List Client) (ss : List Strategy) (M : Nat)
    (us : List (Nat × Book × (Nat → List Action))) :
    ∀ oid ∈ ((runUpdates { cfg := cfg, clients := cl, strategies := ss } us).market! M).blotter,
      Sent ((runUpdates { cfg := cfg, clients := cl, strategies := ss } us).order! oid) :=
  ((fs_runUpdates M _ us).2 (bi_empty M cfg cl ss)).1.sent


/-! ### C03.1 at most one operation per order is outstanding, for whole runs (invariant by induction, `Lemmas/Flight.lean`) -/

/-- the operations waiting in the handler queue between two updates, as the ids of their orders: one entry per
    queued package that lists the order -/
def outstanding (w : World) : List Nat := w.queue.flatMap (·.orders)

/-- a placement (even a forced one) of an order that is already in the blotter of the transaction's market is refused -/
theorem place_refused_in_blotter (w : World) (t : Txn) (oid : Nat) (v : Option Int) (ex : Bool)
    (h : oid ∈ (w.market! t.market).blotter) : (w.txnPlace t oid v ex true).2.2 = .error .alreadyPlaced := by
  unfold txnPlace
  simp only [Bool.not_true, Bool.and_false, Bool.false_eq_true, if_false]
  have : ((w.modifyOrder oid fun o => { o with client := some t.client }).market! t.market).blotter.contains oid = true :=
    List.contains_iff_mem.mpr h
  rw [this]
  rfl

open Flumine.Fl Flumine.Inv in
/-- C03 one operation in flight, whole-run: take ANY history - any sequence of updates of any markets, in any
    interleaving, with any scripted behaviour of any strategies (requests batched or not, forced or not, refused or
    accepted, on any order), packages executed after their latency, matching, removals, completion loop, closes and
    re-opens - in which every request went through the market its order was created for (`foreign = 0`; flumine
    itself does not check that `order.market_id` is the market of the transaction).  Then no order has two
    operations outstanding, and an order with an outstanding operation rejects every further cancel, update and
    replace (its guards answer with an error, which changes nothing) and every further placement through its
    market, forced or not. -/
theorem one_operation_in_flight_whole_run (cfg : Config) (cl : List Client) (ss : List Strategy)
    (us : List (Nat × Book × (Nat → List Action)))
    (hloc : (runUpdates { cfg := cfg, clients := cl, strategies := ss } us).foreign = 0) :
    (outstanding (runUpdates { cfg := cfg, clients := cl, strategies := ss } us)).Nodup ∧
    ∀ oid ∈ outstanding (runUpdates { cfg := cfg, clients := cl, strategies := ss } us),
      (∀ red, isOk ((runUpdates { cfg := cfg, clients := cl, strategies := ss } us).orderCancel oid red) = false) ∧
      (∀ pers, isOk ((runUpdates { cfg := cfg, clients := cl, strategies := ss } us).orderUpdate oid pers) = false) ∧
      (∀ price, isOk ((runUpdates { cfg := cfg, clients := cl, strategies := ss } us).orderReplace oid price) = false) ∧
      (∀ t v ex, t.market = ((runUpdates { cfg := cfg, clients := cl, strategies := ss } us).order! oid).market →
        ((runUpdates { cfg := cfg, clients := cl, strategies := ss } us).txnPlace t oid v ex true).2.2 = .error .alreadyPlaced) := by
  have f := fi_reachable cfg cl ss us hloc
  generalize runUpdates { cfg := cfg, clients := cl, strategies := ss } us = w at f
  have hp : pendIds w none = outstanding w := by unfold pendIds batchIds queueIds outstanding; simp
  refine ⟨by rw [← hp]; exact f.nd, fun oid ho => ?_⟩
  rw [← hp] at ho
  obtain ⟨a, b, c⟩ := rejected_unless_executable w oid (f.ne oid ho)
  refine ⟨a, b, c, fun t v ex ht => place_refused_in_blotter w t oid v ex ?_⟩
  have := f.hm oid ho
  unfold Home at this
  rw [ht]; exact this

open Flumine.Fl Flumine.Inv in
/-- the counter of foreign requests never decreases: a run that ends with `foreign = 0` had `foreign = 0` after each
    of its updates, so the statement above holds at every update boundary of such a run -/
theorem one_operation_in_flight_every_prefix (cfg : Config) (cl : List Client) (ss : List Strategy)
    (past future : List (Nat × Book × (Nat → List Action)))
    (hloc : (runUpdates { cfg := cfg, clients := cl, strategies := ss } (past ++ future)).foreign = 0) :
    (outstanding (runUpdates { cfg := cfg, clients := cl, strategies := ss } past)).Nodup := by
  have happ : runUpdates { cfg := cfg, clients := cl, strategies := ss } (past ++ future) =
      runUpdates (runUpdates { cfg := cfg, clients := cl, strategies := ss } past) future := by
    unfold runUpdates; rw [List.foldl_append]
  rw [happ] at hloc
  have hle := (fi_runUpdates (runUpdates { cfg := cfg, clients := cl, strategies := ss } past) future).1
  rw [hloc] at hle
  exact (one_operation_in_flight_whole_run cfg cl ss past (Nat.le_zero.mp hle)).1


/-! ### the Betdaq order class (`BetdaqOrder`, `BetdaqExecution`, `process_betdaq_current_order`) -/

section Bdq
open Flumine.Betdaq

def bdqOk {α} : Except DErr α → Bool | .ok _ => true | .error _ => false

/-- `complete` is the cached `_is_complete()` of the status -/
def BdqCons (o : DOrder) : Prop := ∀ s, o.status = some s → o.complete = Betdaq.isCompleteStatus s

/-- C03.1 (Betdaq) a cancel is accepted exactly for a LIMIT order that rests executable with a bet id, without size reduction -/
theorem bdq_cancel_accepted_iff (o : DOrder) (sr : Bool) :
    bdqOk (Betdaq.cancel o sr) = true ↔ sr = false ∧ o.betId.isSome = true ∧ o.limit = true ∧ o.status = some .executable := by
  unfold Betdaq.cancel bdqOk
  cases sr <;> cases hb : o.betId <;> cases hl : o.limit <;> by_cases hs : o.status = some .executable <;> simp [hs]

theorem bdq_update_accepted_iff (o : DOrder) :
    bdqOk (Betdaq.update o) = true ↔ o.betId.isSome = true ∧ o.limit = true ∧ o.status = some .executable := by
  unfold Betdaq.update bdqOk
  cases hb : o.betId <;> cases hl : o.limit <;> by_cases hs : o.status = some .executable <;> simp [hs]

/-- C03.2 (Betdaq) an accepted request puts the order in flight by one logged step, and while it is in flight every
    further Betdaq.cancel or update is rejected -/
theorem bdq_cancel_in_flight (o o' : DOrder) (sr : Bool) (h : Betdaq.cancel o sr = .ok o') :
    o'.status = some .cancelling ∧ o'.log = o.log ++ [.cancelling] ∧ (∀ sr', bdqOk (Betdaq.cancel o' sr') = false) ∧ bdqOk (Betdaq.update o') = false := by
  unfold Betdaq.cancel at h
  split_ifs at h
  have := (Except.ok.inj h).symm
  subst this
  refine ⟨rfl, rfl, fun sr' => ?_, ?_⟩
  · have := bdq_cancel_accepted_iff (setStatus o .cancelling) sr'
    cases hc : bdqOk (Betdaq.cancel (setStatus o .cancelling) sr')
    · rfl
    · rw [hc] at this; have h4 := (this.mp rfl).2.2.2; simp [setStatus] at h4
  · have := bdq_update_accepted_iff (setStatus o .cancelling)
    cases hc : bdqOk (Betdaq.update (setStatus o .cancelling))
    · rfl
    · rw [hc] at this; have h4 := (this.mp rfl).2.2; simp [setStatus] at h4

theorem bdq_update_in_flight (o o' : DOrder) (h : Betdaq.update o = .ok o') :
    o'.status = some .updating ∧ o'.log = o.log ++ [.updating] ∧ (∀ sr', bdqOk (Betdaq.cancel o' sr') = false) ∧ bdqOk (Betdaq.update o') = false := by
  unfold Betdaq.update at h
  split_ifs at h
  have := (Except.ok.inj h).symm
  subst this
  refine ⟨rfl, rfl, fun sr' => ?_, ?_⟩
  · have := bdq_cancel_accepted_iff (setStatus { o with udSet := true } .updating) sr'
    cases hc : bdqOk (Betdaq.cancel (setStatus { o with udSet := true } .updating) sr')
    · rfl
    · rw [hc] at this; have h4 := (this.mp rfl).2.2.2; simp [setStatus] at h4
  · have := bdq_update_accepted_iff (setStatus { o with udSet := true } .updating)
    cases hc : bdqOk (Betdaq.update (setStatus { o with udSet := true } .updating))
    · rfl
    · rw [hc] at this; have h4 := (this.mp rfl).2.2; simp [setStatus] at h4

/-- everything the execution handlers and the order stream can do to one order -/
inductive BdqOp
  | placeReport (returnCode : Nat) (orderId : Option Nat) | placeFailed
  | cancelReported | cancelNotReported | updateReport (returnCode : Nat) | updateFailed
  | stream (st : DStatus) (seq : Option Nat)

def bdqApply (o : DOrder) : BdqOp → DOrder
  | .placeReport rc b => Betdaq.placeReport o rc b
  | .placeFailed => Betdaq.placeFailed o
  | .cancelReported => Betdaq.cancelReported o
  | .cancelNotReported => Betdaq.cancelNotReported o
  | .updateReport rc => Betdaq.updateReport o rc
  | .updateFailed => Betdaq.updateFailed o
  | .stream st q => Betdaq.processCurrent o st q

theorem bdq_setStatus_cons (o : DOrder) (s : Status) : BdqCons (setStatus o s) := by
  intro t ht
  have : s = t := Option.some.inj ht
  subst this; rfl

theorem bdq_executable_cons (o : DOrder) (h : BdqCons o) : BdqCons (Betdaq.executable o) := by
  unfold Betdaq.executable
  split
  · exact h
  · intro t ht; exact bdq_setStatus_cons o .executable t ht

theorem bdq_executionComplete_cons (o : DOrder) : BdqCons (Betdaq.executionComplete o) := by
  intro t ht; exact bdq_setStatus_cons o .executionComplete t ht

/-- the consistency of status and `complete` is kept by every handler and stream update -/
theorem bdq_apply_cons (o : DOrder) (op : BdqOp) (h : BdqCons o) : BdqCons (bdqApply o op) := by
  cases op with
  | placeReport rc b =>
    show BdqCons (Betdaq.placeReport o rc b)
    unfold Betdaq.placeReport
    cases b <;> simp only <;> split
    · exact bdq_executable_cons _ h
    · exact bdq_executionComplete_cons _
    · exact bdq_executable_cons _ (by intro t ht; exact h t ht)
    · exact bdq_executionComplete_cons _
  | placeFailed => exact bdq_executionComplete_cons _
  | cancelReported => exact bdq_executionComplete_cons _
  | cancelNotReported => exact bdq_executable_cons _ h
  | updateReport rc =>
    show BdqCons (Betdaq.updateReport o rc)
    unfold Betdaq.updateReport
    split
    · exact bdq_executable_cons _ h
    · exact h
  | updateFailed => exact bdq_executable_cons _ h
  | stream st q =>
    show BdqCons (Betdaq.processCurrent o st q)
    unfold Betdaq.processCurrent
    simp only
    have h' : BdqCons { o with seq := q, cur := some st } := fun t ht => h t ht
    split_ifs
    all_goals first
      | exact bdq_executable_cons _ h'
      | exact bdq_executionComplete_cons _
      | exact h'

/-- C03.3 (Betdaq) finality: whatever report arrives for it and whatever the order stream says, a complete order
    stays complete -/
theorem bdq_complete_is_final (o : DOrder) (op : BdqOp) (h : BdqCons o) (hc : o.complete = true) : (bdqApply o op).complete = true := by
  have hx : ∀ (o : DOrder), o.complete = true → (Betdaq.executable o).complete = true := by
    intro o hc; unfold Betdaq.executable; rw [if_pos hc]; exact hc
  have hs : ∀ s : Status, o.status = some s → s ≠ .pending ∧ s ≠ .updating ∧ s ≠ .executable := by
    intro s e
    have := h s e
    rw [hc] at this
    refine ⟨?_, ?_, ?_⟩ <;> (intro e'; rw [e'] at this; revert this; decide)
  cases op with
  | placeReport rc b =>
    show (Betdaq.placeReport o rc b).complete = true
    unfold Betdaq.placeReport
    cases b <;> simp only <;> split
    · exact hx _ hc
    · rfl
    · exact hx _ hc
    · rfl
  | placeFailed => rfl
  | cancelReported => rfl
  | cancelNotReported => exact hx _ hc
  | updateReport rc =>
    show (Betdaq.updateReport o rc).complete = true
    unfold Betdaq.updateReport
    split
    · exact hx _ hc
    · exact hc
  | updateFailed => exact hx _ hc
  | stream st q =>
    show (Betdaq.processCurrent o st q).complete = true
    unfold Betdaq.processCurrent
    simp only
    have n1 : ¬ (o.status = some .pending ∧ o.betId.isSome = true) := fun e => (hs _ e.1).1 rfl
    have n2 : ¬ (o.status = some .updating ∧ o.seq ≠ q) := fun e => (hs _ e.1).2.1 rfl
    have n3 : ¬ o.status = some .executable := fun e => (hs _ e).2.2 rfl
    rw [if_neg n1, if_neg n2, if_neg n3]
    exact hc

/-- C03.3 (Betdaq) the order stream only ever moves an order by one legal step: pending or updating to executable or
    complete, executable to complete; anything else it leaves alone -/
theorem bdq_stream_steps_legal (o : DOrder) (st : DStatus) (q : Option Nat) (h : BdqCons o) :
    (Betdaq.processCurrent o st q).log = o.log ∧ (Betdaq.processCurrent o st q).status = o.status ∨
    ∃ s, (Betdaq.processCurrent o st q).log = o.log ++ [s] ∧ (Betdaq.processCurrent o st q).status = some s ∧ legal o.status s = true := by
  unfold Betdaq.processCurrent
  simp only
  have hnc : ∀ s : Status, o.status = some s → Betdaq.isCompleteStatus s = false → o.complete = false := by
    intro s e hf; rw [h s e, hf]
  have hexe : ∀ (o' : DOrder), o'.complete = false → o'.status = o.status → o'.log = o.log → ∀ s0, o.status = some s0 → legal (some s0) .executable = true →
      ∃ s, (Betdaq.executable o').log = o.log ++ [s] ∧ (Betdaq.executable o').status = some s ∧ legal o.status s = true := by
    intro o' hc _ hl s0 e hleg
    unfold Betdaq.executable
    rw [hc]
    exact ⟨.executable, by simp [setStatus, hl], rfl, by rw [e]; exact hleg⟩
  have hec : ∀ (o' : DOrder), o'.log = o.log → ∀ s0, o.status = some s0 → legal (some s0) .executionComplete = true →
      ∃ s, (Betdaq.executionComplete o').log = o.log ++ [s] ∧ (Betdaq.executionComplete o').status = some s ∧ legal o.status s = true := by
    intro o' hl s0 e hleg
    exact ⟨.executionComplete, by simp [Betdaq.executionComplete, setStatus, hl], rfl, by rw [e]; exact hleg⟩
  split_ifs with h1 h2 h3 h4 h5 h6
  · right; exact hexe _ (hnc _ h1.1 (by decide)) rfl rfl _ h1.1 (by decide)
  · right; exact hec _ rfl _ h1.1 (by decide)
  · right; exact hexe _ (hnc _ h3.1 (by decide)) rfl rfl _ h3.1 (by decide)
  · right; exact hec _ rfl _ h3.1 (by decide)
  · right; exact hec _ rfl _ h5 (by decide)
  · left; exact ⟨rfl, rfl⟩
  · left; exact ⟨rfl, rfl⟩

/-- non-vacuity: placed, accepted by the exchange, cancel requested, a second cancel rejected, the report completes it,
    a late stream update and a late report change nothing -/
example : (let o0 : DOrder := Betdaq.placing {}
    let o1 := Betdaq.placeReport o0 0 (some 77)
    let o2 := match Betdaq.cancel o1 false with | .ok x => x | .error _ => o1
    (o1.status, o2.status, bdqOk (Betdaq.cancel o2 false), (Betdaq.cancelReported o2).status,
      (Betdaq.processCurrent (Betdaq.cancelReported o2) .unmatched (some 5)).status, (Betdaq.cancelNotReported (Betdaq.cancelReported o2)).status)) =
    (some .executable, some .cancelling, false, some .executionComplete, some .executionComplete, some .executionComplete) := by decide +kernel

end Bdq

/-! ### non-vacuity: a cancel accepted, a second one rejected, the response applied -/

def demoOrder : Order :=
  { id := 0, trade := 0, strategy := 0, market := 1, sel := 1, status := some .executable, log := [.pending, .executable],
    betId := some 7, sim := { side := .back, kind := .limit, price := 2, size := 10 } }
def demoWorld : World := { orders := [demoOrder], trades := [{ id := 0, strategy := 0, market := 1, sel := 1, orders := [0] }] }

example : HasOrder demoWorld 0 := ⟨demoOrder, rfl⟩
example : isOk (demoWorld.orderCancel 0 none) = true := by decide +kernel
example : (match demoWorld.orderCancel 0 none with
    | .ok w' => isOk (w'.orderCancel 0 none) || isOk (w'.orderUpdate 0 "PERSIST") || isOk (w'.orderReplace 0 3)
    | .error _ => true) = false := by decide +kernel


/-- non-vacuity of `complete_is_final_whole_run`: an order placed and fully matched is EXECUTION_COMPLETE after
    two updates (hypotheses hold); a later cancel request, a second placement of it and a placement of it through
    another market's transaction leave it so -/
def nvBook (pt : Int) : Book := { pt := pt, activeRunners := 2, runners := [{ sel := 1, atb := [⟨3, 10⟩], atl := [⟨4, 10⟩] }, { sel := 2 }] }
def nvOrder : Order := { id := 0, trade := 0, strategy := 0, market := 1, sel := 1, sim := { side := .back, kind := .limit, price := 2, size := 4 } }
def nvPast : List (Nat × Book × (Nat → List Action)) :=
  [(1, nvBook 1000, fun _ => [.create nvOrder (some { id := 0, strategy := 0, market := 1, sel := 1 }), .place (.byId 0) none false]), (1, nvBook 2000, fun _ => [])]
def nvFuture : List (Nat × Book × (Nat → List Action)) :=
  [(1, nvBook 3000, fun _ => [.cancel (.byId 0) none false, .place (.byId 0) none false]),
   (2, nvBook 3500, fun _ => [.place (.byId 0) none false]), (1, nvBook 4000, fun _ => [])]
def nvWorld : World := Inv.runUpdates { clients := [{ id := 0 }], strategies := [{ id := 0, streams := [0] }] } nvPast
example : 0 ∈ (nvWorld.market! 1).blotter ∧ (nvWorld.order! 0).status = some .executionComplete ∧
    (nvWorld.order! 0).log = [.pending, .executable, .executionComplete] := by decide +kernel
example : ((Inv.runUpdates nvWorld nvFuture).order! 0).status = some .executionComplete := by decide +kernel

/-- non-vacuity of `one_operation_in_flight_whole_run`: two orders placed, one package waiting (hypothesis holds, the
    queue is not empty); and why the hypothesis is there: the same order placed again through ANOTHER market while
    its placement is in flight is accepted by flumine (the already-placed test looks at the blotter of the
    transaction's market only) - two operations outstanding for order 0, counted as a foreign request -/
def nvFlight : World := Inv.runUpdates { clients := [{ id := 0 }], strategies := [{ id := 0, streams := [0], maxLive := 5, multiOrder := true }] }
  [(1, nvBook 1000, fun _ => [.create nvOrder (some { id := 0, strategy := 0, market := 1, sel := 1 }), .place (.byId 0) none false,
                              .create { nvOrder with trade := 1 } (some { id := 1, strategy := 0, market := 1, sel := 1 }), .place (.byId 1) none false])]
example : nvFlight.foreign = 0 ∧ outstanding nvFlight = [0, 1] ∧ (nvFlight.order! 0).status = some .pending := by decide +kernel
def nvForeign : World := Inv.runUpdates nvFlight [(2, nvBook 1010, fun _ => [.place (.byId 0) none true])]
example : nvForeign.foreign = 1 ∧ outstanding nvForeign = [0, 1, 0] := by decide +kernel

end Flumine.C03
