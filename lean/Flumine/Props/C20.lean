/-
  C20 — Market closure is processed once, with results, for the right strategies.
  Model: SimLoop.processCloseMarket (`_process_close_market`), closeCallbacks, clearedEvents,
  blotterProcessClosed (`Blotter.process_closed_market`), processMarketBook (CLOSED is handled before
  the market is created in the simulation path).
-/
import Flumine.SimLoop
import Flumine.Lemmas.WorldLemmas
import Flumine.Lemmas.Cents
import Flumine.Lemmas.Closed
import Mathlib.Data.List.Nodup
import Mathlib.Tactic.Linarith
namespace Flumine.C20
open Flumine Flumine.World

/-! ### C20.2 the closed-market callback -/

def Subscribed (s : Strategy) (book : Book) : Prop := s.streams.contains book.streamId = true ∨ s.emptyFilter = true

/-- C20.2 the callbacks of a closing update are exactly: one per subscribed (or empty-filter)
    strategy, with that book's publish time, in registration order — nobody else is called -/
theorem callbacks_exact (w : World) (mid : Nat) (book : Book) :
    w.closeCallbacks mid book =
      (w.strategies.filter fun s => s.streams.contains book.streamId || s.emptyFilter).map
        fun s => Ev.closedCallback s.id mid book.pt := rfl

theorem callback_for_subscribed (w : World) (mid : Nat) (book : Book) (s : Strategy) (hs : s ∈ w.strategies)
    (hsub : Subscribed s book) : Ev.closedCallback s.id mid book.pt ∈ w.closeCallbacks mid book := by
  unfold closeCallbacks
  refine List.mem_map.mpr ⟨s, List.mem_filter.mpr ⟨hs, ?_⟩, rfl⟩
  show (s.streams.contains book.streamId || s.emptyFilter) = true
  rcases hsub with h | h <;> rw [h] <;> simp

theorem no_callback_for_others (w : World) (mid : Nat) (book : Book) (sid : Nat) (pt : Time)
    (h : ∀ s ∈ w.strategies, s.id = sid → ¬ Subscribed s book) :
    Ev.closedCallback sid mid pt ∉ w.closeCallbacks mid book := by
  unfold closeCallbacks
  intro hm
  obtain ⟨s, hs, he⟩ := List.mem_map.mp hm
  obtain ⟨hs1, hs2⟩ := List.mem_filter.mp hs
  have hid : s.id = sid := by injection he
  apply h s hs1 hid
  unfold Subscribed
  simp only [Bool.or_eq_true] at hs2
  exact hs2

/-- exactly once: with distinct strategy ids the callback of a subscribed strategy occurs once -/
theorem callback_once (w : World) (mid : Nat) (book : Book) (hnd : (w.strategies.map (·.id)).Nodup) :
    (w.closeCallbacks mid book).Nodup := by
  unfold closeCallbacks
  have hsub : ((w.strategies.filter fun s => s.streams.contains book.streamId || s.emptyFilter).map (·.id)).Nodup :=
    (hnd.sublist (List.Sublist.map _ List.filter_sublist))
  have : ((w.strategies.filter fun s => s.streams.contains book.streamId || s.emptyFilter).map
      fun s => Ev.closedCallback s.id mid book.pt) =
      ((w.strategies.filter fun s => s.streams.contains book.streamId || s.emptyFilter).map (·.id)).map
        fun i => Ev.closedCallback i mid book.pt := by simp [List.map_map]
  rw [this]
  exact List.Nodup.map (fun a b hab => by injection hab) hsub

/-! ### C20.3 simulated cleared events -/

/-- exactly one cleared-orders meta event iff the market has any order, then exactly one
    cleared-market summary per client in client order -/
theorem cleared_events_shape (w : World) (mid : Nat) :
    w.clearedEvents mid =
      (if (w.market! mid).blotter.length ≠ 0 then [Ev.clearedOrders mid (w.market! mid).blotter.length] else []) ++
      w.clients.map fun c => Ev.clearedMarket mid c.id (w.marketCleared mid c.id).1 (w.marketCleared mid c.id).2.1
        (w.marketCleared mid c.id).2.2 := rfl

theorem cleared_market_count (w : World) (mid : Nat) :
    ((w.clearedEvents mid).filter fun e => match e with | .clearedMarket .. => true | _ => false).length = w.clients.length := by
  rw [cleared_events_shape]
  rw [List.filter_append]
  have h1 : ((if (w.market! mid).blotter.length ≠ 0 then [Ev.clearedOrders mid (w.market! mid).blotter.length] else []).filter
      fun e => match e with | .clearedMarket .. => true | _ => false) = [] := by
    split_ifs <;> simp
  rw [h1]
  simp only [List.nil_append]
  rw [List.filter_eq_self.mpr]
  · simp
  · intro e he
    obtain ⟨c, _, rfl⟩ := List.mem_map.mp he
    rfl

/-- the summary never charges commission on a net loss: commission = round2(max(profit × rate, 0)) ≥ 0,
    and it is 0 whenever profit × rate ≤ 0 -/
theorem commission_nonneg (w : World) (mid cid : Nat) : 0 ≤ (w.marketCleared mid cid).2.1 := by
  unfold marketCleared
  simp only
  apply round2_nonneg
  unfold ratMax; split_ifs <;> linarith

theorem commission_zero_on_loss (w : World) (mid cid : Nat)
    (h : (w.marketCleared mid cid).1 * (w.client! cid).commission ≤ 0) : (w.marketCleared mid cid).2.1 = 0 := by
  unfold marketCleared at h ⊢
  simp only at h ⊢
  have : ratMax (round2 (sumRat (List.map simProfit
      (List.filter (fun o => decide (o.blotterClient = some cid ∧ 0 < o.sim.sizeMatched))
        (List.map w.order! (w.market! mid).blotter)))) * (w.client! cid).commission) 0 = 0 := by
    unfold ratMax; split_ifs with hh
    · rfl
    · linarith [not_lt.mp hh]
  rw [this]; exact round2_zero

/-! ### close of a market never seen open (known finding F12) and of a known market -/

/-- the simulation path for a CLOSED update of a market that was never seen open: only a warning —
    no market is created, no strategy is called, nothing is cleared.  (The live path creates the market
    first.)  This is the witness that the full statement "each subscribed strategy's callback is invoked
    once for each closing update received" fails for this case on the code as it stands. -/
theorem close_unknown_market_witness (w : World) (mid : Nat) (book : Book) (h : w.market? mid = none) :
    w.processCloseMarket mid book = w.emit (.warnNoMarket mid) := by
  unfold processCloseMarket; rw [h]

/-- the world in which the callbacks and cleared events of a closing update are computed: market
    marked closed, closing book installed, results copied to the orders -/
def preClose (w : World) (mid : Nat) (book : Book) (m : Market) : World :=
  ((if !m.closed then w.modifyMarket mid fun m => { m with closed := true, closedAt := some w.clock } else w).modifyMarket mid
    fun m => { m with book := some book }).blotterProcessClosed mid book

/-- `callback_once_partial` (known markets): the events of one closing update are, in this order: the
    callbacks (exactly the subscribed strategies, once each), the cleared-orders event (iff the market
    has orders) and one cleared-market summary per client, then the close event -/
theorem close_known_market_events (w : World) (mid : Nat) (book : Book) (m : Market) (h : w.market? mid = some m) :
    (w.processCloseMarket mid book).out =
      w.out ++ (preClose w mid book m).closeCallbacks mid book ++ (preClose w mid book m).clearedEvents mid ++
        [Ev.closeEvent mid] := by
  unfold processCloseMarket preClose
  rw [h]
  have hout : ∀ (w0 : World) (l : List Nat) (f : World → Nat → World), (∀ w1 o, (f w1 o).out = w1.out) →
      (l.foldl f w0).out = w0.out := by
    intro w0 l f hf
    induction l generalizing w0 with
    | nil => rfl
    | cons x xs ih => simp only [List.foldl_cons]; rw [ih, hf]
  simp only
  congr 3
  unfold blotterProcessClosed
  simp only
  rw [hout]
  · split_ifs <;> rfl
  · intro w1 o
    split <;> rfl

/-- C20.4 a known market is closed after its closing update and loses its middleware analytics;
    C20.5 no runner context of that market remains in any strategy -/
theorem release_contexts (w : World) (mid : Nat) (book : Book) (m : Market) (h : w.market? mid = some m) :
    ∀ c ∈ (w.processCloseMarket mid book).ctxs, c.key.market ≠ mid := by
  unfold processCloseMarket
  rw [h]
  intro c hc
  simp only [List.mem_filter] at hc
  simpa using hc.2

/-- C20.6 a simulation never deletes a market: closing keeps the market list's ids -/
theorem simulation_keeps_markets (w : World) (mid : Nat) (f : Market → Market) (hf : ∀ m, (f m).id = m.id) :
    (w.modifyMarket mid f).markets.map (·.id) = w.markets.map (·.id) := by
  unfold modifyMarket
  simp only [List.map_map]
  apply List.map_congr_left
  intro m _
  simp only [Function.comp]
  split_ifs <;> simp [hf]


/-! ### C20 for whole runs: "exactly once for each closing update received" (`Lemmas/Closed.lean` over Strat / Mids / Cc) -/

open Flumine.Closed Flumine.Inv in
/-- C20 whole-run: take ANY run - any sequence of updates of any markets in any interleaving (repeated closes, close then
    re-open, closes of markets never seen open), any scripted behaviour of any strategies, packages, matching, removals.  The
    `process_closed_market` callbacks observed in the whole run, in order, and the markets the framework knows at the end, are
    exactly what this specification computes from the updates alone: a closing update of a market seen before appends one
    callback per strategy subscribed to the book's stream (or with an empty filter), in registration order, with that book's
    publish time; a closing update of a market never seen appends nothing; any other update appends nothing and makes the
    market known.  Nothing the strategies do, and no other part of the framework, adds, drops, duplicates or reorders a
    closed-market callback. -/
theorem closed_callbacks_whole_run (cfg : Config) (cl : List Client) (ss : List Strategy)
    (us : List (Nat × Book × (Nat → List Action))) :
    ((runUpdates { cfg := cfg, clients := cl, strategies := ss } us).mids, (runUpdates { cfg := cfg, clients := cl, strategies := ss } us).cc) =
      us.foldl (specStep ss) ([], []) :=
  runUpdates_spec { cfg := cfg, clients := cl, strategies := ss } us

open Flumine.Closed Flumine.Inv in
/-- the same from any reachable state on: what a continuation adds depends on the markets known and the updates only -/
theorem closed_callbacks_continuation (w : World) (us : List (Nat × Book × (Nat → List Action))) :
    ((runUpdates w us).mids, (runUpdates w us).cc) = us.foldl (specStep w.strategies) (w.mids, w.cc) :=
  runUpdates_spec w us

open Flumine.Closed in
/-- what one closing update of a known market owes (`callbacksFor`) is `closeCallbacks`: exactly the subscribed strategies
    (`callback_for_subscribed`, `no_callback_for_others`), each once when strategy ids are distinct (`callback_once`) -/
theorem callbacksFor_is_closeCallbacks (w : World) (mid : Nat) (book : Book) :
    callbacksFor w.strategies mid book = w.closeCallbacks mid book := rfl

open Flumine.Closed in
/-- one closing update: callbacks appended iff the market is known; the known markets do not change -/
theorem specStep_closed (ss : List Strategy) (K : List Nat) (evs : List Ev) (mid : Nat) (book : Book) (sc : Nat → List Action)
    (h : book.status = .closed) :
    specStep ss (K, evs) (mid, book, sc) = (K, evs ++ (if mid ∈ K then callbacksFor ss mid book else [])) := by
  unfold specStep; simp [h]

open Flumine.Closed in
/-- any other update: no callback; the market is known afterwards -/
theorem specStep_open (ss : List Strategy) (K : List Nat) (evs : List Ev) (mid : Nat) (book : Book) (sc : Nat → List Action)
    (h : book.status ≠ .closed) :
    (specStep ss (K, evs) (mid, book, sc)).2 = evs ∧ mid ∈ (specStep ss (K, evs) (mid, book, sc)).1 := by
  unfold specStep
  simp only [h, if_false]
  refine ⟨trivial, ?_⟩
  split
  · assumption
  · simp

/-- non-vacuity: two strategies (one subscribed to stream 0, one with an empty filter, one subscribed elsewhere); market 1 opens,
    closes, closes again (amended result), re-opens and closes; market 2 closes without ever having been seen: three closing
    updates of market 1 give 3 x 2 callbacks in registration order, market 2 gives none -/
def nvSs : List Strategy := [{ id := 0, streams := [0] }, { id := 1, streams := [7] }, { id := 2, emptyFilter := true }]
def nvB (pt : Int) (st : MStatus) : Book := { pt := pt, status := st, activeRunners := 1, runners := [{ sel := 1 }] }
def nvUs : List (Nat × Book × (Nat → List Action)) :=
  [(1, nvB 1000 .open_, fun _ => []), (1, nvB 2000 .closed, fun _ => []), (1, nvB 2500 .closed, fun _ => []),
   (2, nvB 2600 .closed, fun _ => []), (1, nvB 3000 .open_, fun _ => []), (1, nvB 4000 .closed, fun _ => [])]
example : (Inv.runUpdates { strategies := nvSs } nvUs).cc =
    [.closedCallback 0 1 2000, .closedCallback 2 1 2000, .closedCallback 0 1 2500, .closedCallback 2 1 2500,
     .closedCallback 0 1 4000, .closedCallback 2 1 4000] ∧ (Inv.runUpdates { strategies := nvSs } nvUs).mids = [1] := by decide +kernel

end Flumine.C20
