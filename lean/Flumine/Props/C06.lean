/-
  C06 — Passive liquidity is never double counted; queue position is honoured.
  Model: SimOrder.calculateProcessTraded / processTraded (`_calculate_process_traded`,
  `_process_traded`), Mw.sortOrders / matchOrders (one copy of the traded dict threaded through the
  orders of a strategy, or of the instance when isolation is off).
-/
import Flumine.SimOrder
import Flumine.Mw
import Flumine.Props.C04
import Flumine.Lemmas.Round
import Flumine.Lemmas.Cents
import Mathlib.Tactic.Linarith
import Mathlib.Tactic.Ring
namespace Flumine.C06
open Flumine Flumine.SimOrder Flumine.C04

/-! ### C06.5 queue position -/

/-- while the volume queued ahead at arrival has not traded (half the reported amount), nothing is
    matched and the queue only shrinks by what traded -/
theorem queue_blocks (o : SimOrder) (pt : Int) (ts : Rat) (h : ts / 2 ≤ o.piq) :
    (o.calculateProcessTraded pt ts).1.matched = o.matched ∧
    (o.calculateProcessTraded pt ts).1.piq = o.piq - ts / 2 ∧
    (o.calculateProcessTraded pt ts).2 = ts := by
  rw [cpt_eq]
  have : ¬ (o.piq - ts / 2 < 0) := by linarith
  rw [if_neg this]
  exact ⟨rfl, rfl, rfl⟩

/-- the queue position never increases and stays non-negative -/
theorem queue_monotone (o : SimOrder) (pt : Int) (ts : Rat) (hq : 0 ≤ o.piq) (hts : 0 ≤ ts) :
    (o.calculateProcessTraded pt ts).1.piq ≤ o.piq ∧ 0 ≤ (o.calculateProcessTraded pt ts).1.piq := by
  rw [cpt_eq]
  by_cases h : o.piq - ts / 2 < 0
  · rw [if_pos h]
    show (0 : Rat) ≤ o.piq ∧ (0 : Rat) ≤ 0
    exact ⟨hq, le_refl _⟩
  · rw [if_neg h]
    show o.piq - ts / 2 ≤ o.piq ∧ 0 ≤ o.piq - ts / 2
    constructor <;> linarith

/-! ### C06.1 only eligible prices, at the limit price -/

/-- every fragment `_calculate_process_traded` creates carries the order's limit price -/
theorem cpt_frags (o : SimOrder) (pt : Int) (ts : Rat) :
    (o.calculateProcessTraded pt ts).1.matched = o.matched ∨
    (o.calculateProcessTraded pt ts).1.matched = o.matched ++ [⟨pt, o.price, tradedSize o ts⟩] := by
  rw [cpt_eq]
  by_cases h : o.piq - ts / 2 < 0
  · rw [if_pos h]
    by_cases hz : tradedSize o ts ≠ 0
    · right; rw [if_pos hz]; rfl
    · left; rw [if_neg hz]
  · rw [if_neg h]; left; rfl

/-- C06.1 passive fragments are created only from traded prices at or through the limit: when no
    entry of the traded dict is eligible, nothing is matched and the dict is untouched -/
theorem no_eligible_no_fill (pt : Int) (traded : List (Rat × Rat)) (o : SimOrder)
    (h : ∀ e ∈ traded, eligible o e.1 = false) :
    processTraded pt traded o = (o, traded) := by
  induction traded with
  | nil => rfl
  | cons x rest ih =>
    obtain ⟨tp, ts⟩ := x
    have hx : eligible o tp = false := h (tp, ts) (by simp)
    have hr := ih (fun e he => h e (List.mem_cons_of_mem _ he))
    simp only [processTraded, hx, Bool.false_eq_true, if_false, hr]

/-- all fragments added by passive matching are at the order's own limit price and stamped with the
    publish time of the update -/
theorem passive_frags_at_limit (pt : Int) (traded : List (Rat × Rat)) (o : SimOrder) :
    ∃ new, (processTraded pt traded o).1.matched = o.matched ++ new ∧
      ∀ f ∈ new, f.price = o.price ∧ f.pt = pt := by
  induction traded generalizing o with
  | nil => exact ⟨[], by simp [processTraded], by simp⟩
  | cons x rest ih =>
    obtain ⟨tp, ts⟩ := x
    rw [processTraded_cons_fst]
    split_ifs with he
    · obtain ⟨new, h1, h2⟩ := ih (o.calculateProcessTraded pt ts).1
      have hp := calculateProcessTraded_price o pt ts
      rcases cpt_frags o pt ts with h | h
      · exact ⟨new, by rw [h1, h], fun f hf => by rw [← hp]; exact h2 f hf⟩
      · refine ⟨⟨pt, o.price, tradedSize o ts⟩ :: new, by rw [h1, h]; simp, ?_⟩
        intro f hf
        rcases List.mem_cons.mp hf with rfl | hf
        · exact ⟨rfl, rfl⟩
        · rw [← hp]; exact h2 f hf
    · exact ih o

/-! ### C06.3 no double counting: the potential-function argument -/

def sumVals (d : List (Rat × Rat)) : Rat := sumRat (d.map fun e => e.2)

def ValsNonneg (d : List (Rat × Rat)) : Prop := ∀ e ∈ d, 0 ≤ e.2

/-- what `_process_traded` writes back into the dict entry after the order has looked at it -/
def consumedTo (o : SimOrder) (pt : Int) (ts : Rat) : Rat :=
  if (o.calculateProcessTraded pt ts).2 ≠ 0 then ratMax (ts - (o.calculateProcessTraded pt ts).2) 0 else ts

/-- one dict entry: the volume written back as consumed is at least twice the size matched from
    it, up to the penny of the 2dp rounding; it is never more than the entry held -/
theorem entry_consumption (o : SimOrder) (pt : Int) (ts : Rat) (hi : Inv o) (hp : 0 < o.price)
    (hq : 0 ≤ o.piq) (hts : 0 ≤ ts) :
    0 ≤ consumedTo o pt ts ∧ consumedTo o pt ts ≤ ts ∧
    2 * ((o.calculateProcessTraded pt ts).1.sizeMatched - o.sizeMatched) ≤ (ts - consumedTo o pt ts) + 1 / 100 ∧
    o.sizeMatched ≤ (o.calculateProcessTraded pt ts).1.sizeMatched := by
  have hinv := calculateProcessTraded_inv o pt ts hi hp
  unfold consumedTo
  by_cases hlt : o.piq - ts / 2 < 0
  · have hr : o.calculateProcessTraded pt ts =
        ({ (if tradedSize o ts ≠ 0 then o.updateMatched ⟨pt, o.price, tradedSize o ts⟩ else o) with piq := 0 },
          (o.piq + tradedSize o ts) * 2) := by rw [cpt_eq, if_pos hlt]
    have hmin0 : 0 ≤ ratMin o.sizeRemaining (ts / 2 - o.piq) := by
      unfold ratMin; split_ifs <;> linarith [hi.remNonneg]
    have hs0 : 0 ≤ tradedSize o ts := round2_nonneg hmin0
    have hsle : tradedSize o ts ≤ ts / 2 - o.piq + 1 / 200 := by
      have h1 : ratMin o.sizeRemaining (ts / 2 - o.piq) ≤ ts / 2 - o.piq := by
        unfold ratMin; split_ifs <;> linarith
      have h2 := round2_err (ratMin o.sizeRemaining (ts / 2 - o.piq))
      rw [absR_le_iff] at h2
      unfold tradedSize; linarith [h2.2]
    have hsm : (o.calculateProcessTraded pt ts).1.sizeMatched - o.sizeMatched = tradedSize o ts ∨
               ((o.calculateProcessTraded pt ts).1.sizeMatched = o.sizeMatched ∧ tradedSize o ts = 0) := by
      by_cases hz : tradedSize o ts ≠ 0
      · left
        rw [hr, if_pos hz]
        have hfr : FragsOk (o.matched ++ [⟨pt, o.price, tradedSize o ts⟩]) := by
          intro g hg
          rcases List.mem_append.mp hg with h | h
          · exact hi.frags g h
          · simp at h; subst h; exact ⟨round2_isCents _, hs0, hp⟩
        show (wap (o.matched ++ [⟨pt, o.price, tradedSize o ts⟩])).1 - o.sizeMatched = _
        rw [wap_size _ hfr, sumSizes_append, hi.matched]; ring
      · right
        have hz' : tradedSize o ts = 0 := not_not.mp hz
        rw [hr, if_neg hz]
        exact ⟨rfl, hz'⟩
    have hm : (o.calculateProcessTraded pt ts).2 = (o.piq + tradedSize o ts) * 2 := by rw [hr]
    rw [hm]
    have hb : 0 ≤ (if (o.piq + tradedSize o ts) * 2 ≠ 0 then ratMax (ts - (o.piq + tradedSize o ts) * 2) 0 else ts) ∧
        (if (o.piq + tradedSize o ts) * 2 ≠ 0 then ratMax (ts - (o.piq + tradedSize o ts) * 2) 0 else ts) ≤ ts ∧
        (o.piq + tradedSize o ts) * 2 - 1 / 100 ≤
          ts - (if (o.piq + tradedSize o ts) * 2 ≠ 0 then ratMax (ts - (o.piq + tradedSize o ts) * 2) 0 else ts) := by
      split_ifs with hne
      · unfold ratMax
        split_ifs with hneg
        · refine ⟨le_refl _, hts, ?_⟩; linarith
        · refine ⟨by linarith, by linarith, ?_⟩; linarith
      · have hz0 : (o.piq + tradedSize o ts) * 2 = 0 := not_not.mp hne
        refine ⟨hts, le_refl _, ?_⟩; linarith
    refine ⟨hb.1, hb.2.1, ?_, hinv.2⟩
    rcases hsm with h | ⟨h, hz⟩
    · rw [h]; linarith [hb.2.2]
    · rw [h]; linarith [hb.2.1]
  · have hr : o.calculateProcessTraded pt ts = ({ o with piq := o.piq - ts / 2 }, ts) := by rw [cpt_eq, if_neg hlt]
    have hm : (o.calculateProcessTraded pt ts).2 = ts := by rw [hr]
    have hsm : (o.calculateProcessTraded pt ts).1.sizeMatched = o.sizeMatched := by rw [hr]
    rw [hm]
    have hb : 0 ≤ (if ts ≠ 0 then ratMax (ts - ts) 0 else ts) ∧ (if ts ≠ 0 then ratMax (ts - ts) 0 else ts) ≤ ts := by
      split_ifs with hne
      · have : ratMax (ts - ts) 0 = 0 := by unfold ratMax; simp
        rw [this]; exact ⟨le_refl _, hts⟩
      · exact ⟨hts, le_refl _⟩
    refine ⟨hb.1, hb.2, ?_, by rw [hsm]⟩
    rw [hsm]; linarith [hb.2]

theorem processTraded_cons_snd (pt : Int) (tp ts : Rat) (rest : List (Rat × Rat)) (o : SimOrder) :
    (processTraded pt ((tp, ts) :: rest) o).2 =
      if eligible o tp = true then
        (tp, consumedTo o pt ts) :: (processTraded pt rest (o.calculateProcessTraded pt ts).1).2
      else (tp, ts) :: (processTraded pt rest o).2 := by
  by_cases he : eligible o tp = true
  · rw [if_pos he]; simp only [processTraded, consumedTo]; rw [if_pos he]
  · rw [if_neg he]; simp only [processTraded]; rw [if_neg he]

theorem cpt_piq_nonneg (o : SimOrder) (pt : Int) (ts : Rat) (hq : 0 ≤ o.piq) (hts : 0 ≤ ts) :
    0 ≤ (o.calculateProcessTraded pt ts).1.piq := (queue_monotone o pt ts hq hts).2

/-- C06.3 (one order, one copy of the traded dict): twice what the order matches passively out of
    an update is covered by the volume it writes back as consumed — plus one penny of rounding per
    dict entry — the entries stay non-negative and only shrink. -/
theorem order_consumption (pt : Int) (traded : List (Rat × Rat)) (o : SimOrder) (hi : Inv o) (hp : 0 < o.price)
    (hq : 0 ≤ o.piq) (hv : ValsNonneg traded) :
    Inv (processTraded pt traded o).1 ∧ 0 ≤ (processTraded pt traded o).1.piq ∧
    ValsNonneg (processTraded pt traded o).2 ∧ (processTraded pt traded o).2.length = traded.length ∧
    sumVals (processTraded pt traded o).2 ≤ sumVals traded ∧
    2 * ((processTraded pt traded o).1.sizeMatched - o.sizeMatched) ≤
      (sumVals traded - sumVals (processTraded pt traded o).2) + (traded.length : Rat) / 100 := by
  induction traded generalizing o with
  | nil =>
    refine ⟨hi, hq, hv, rfl, le_refl _, ?_⟩
    show 2 * (o.sizeMatched - o.sizeMatched) ≤ sumVals [] - sumVals [] + ((0 : Nat) : Rat) / 100
    simp
  | cons x rest ih =>
    obtain ⟨tp, ts⟩ := x
    have hts : 0 ≤ ts := hv (tp, ts) (by simp)
    have hvr : ValsNonneg rest := fun e he => hv e (List.mem_cons_of_mem _ he)
    rw [processTraded_cons_fst, processTraded_cons_snd]
    by_cases he : eligible o tp = true
    · rw [if_pos he, if_pos he]
      obtain ⟨e1, e2, e3, e4⟩ := entry_consumption o pt ts hi hp hq hts
      have hinv := calculateProcessTraded_inv o pt ts hi hp
      have hpr : 0 < (o.calculateProcessTraded pt ts).1.price := by rw [calculateProcessTraded_price]; exact hp
      obtain ⟨i1, i2, i3, i4, i5, i6⟩ := ih (o.calculateProcessTraded pt ts).1 hinv.1 hpr (cpt_piq_nonneg o pt ts hq hts) hvr
      refine ⟨i1, i2, ?_, ?_, ?_, ?_⟩
      · intro e hme
        rcases List.mem_cons.mp hme with rfl | hme
        · exact e1
        · exact i3 e hme
      · simp [i4]
      · simp only [sumVals, List.map_cons, sumRat] at *; linarith
      · simp only [sumVals, List.map_cons, sumRat, List.length_cons] at *
        push_cast; linarith
    · rw [if_neg he, if_neg he]
      obtain ⟨i1, i2, i3, i4, i5, i6⟩ := ih o hi hp hq hvr
      refine ⟨i1, i2, ?_, ?_, ?_, ?_⟩
      · intro e hme
        rcases List.mem_cons.mp hme with rfl | hme
        · exact hts
        · exact i3 e hme
      · simp [i4]
      · simp only [sumVals, List.map_cons, sumRat] at *; linarith
      · simp only [sumVals, List.map_cons, sumRat, List.length_cons] at *
        push_cast; linarith

/-- several orders consuming **one** copy of the traded dict, one after the other (what
    `_process_simulated_orders` does for the orders of one strategy on one runner) -/
def shareDict (pt : Int) : List SimOrder → List (Rat × Rat) → List SimOrder × List (Rat × Rat)
  | [], d => ([], d)
  | o :: os, d =>
    let r := processTraded pt d o
    let rs := shareDict pt os r.2
    (r.1 :: rs.1, rs.2)

def matchedTotal (os : List SimOrder) : Rat := sumRat (os.map (·.sizeMatched))

/-- C06.3 **no double counting**: for any number of orders sharing one copy of the traded dict,
    the total newly matched out of one update is at most half the traded volume of that update
    (all of which is consumed through the shared, shrinking dict) plus half a penny of rounding per
    order and dict entry. -/
theorem no_double_count (pt : Int) (os : List SimOrder) (traded : List (Rat × Rat))
    (hi : ∀ o ∈ os, Inv o ∧ 0 < o.price ∧ 0 ≤ o.piq) (hv : ValsNonneg traded) :
    ValsNonneg (shareDict pt os traded).2 ∧ (shareDict pt os traded).2.length = traded.length ∧
    sumVals (shareDict pt os traded).2 ≤ sumVals traded ∧
    2 * (matchedTotal (shareDict pt os traded).1 - matchedTotal os) ≤
      (sumVals traded - sumVals (shareDict pt os traded).2) + ((os.length * traded.length : Nat) : Rat) / 100 := by
  induction os generalizing traded with
  | nil =>
    refine ⟨hv, rfl, le_refl _, ?_⟩
    simp [shareDict, matchedTotal, sumRat]
  | cons o rest ih =>
    obtain ⟨ho, hp, hq⟩ := hi o (by simp)
    obtain ⟨a1, a2, a3, a4, a5, a6⟩ := order_consumption pt traded o ho hp hq hv
    obtain ⟨b1, b2, b3, b4⟩ := ih (processTraded pt traded o).2 (fun x hx => hi x (List.mem_cons_of_mem _ hx)) a3
    have hr1 : (shareDict pt (o :: rest) traded).1 =
        (processTraded pt traded o).1 :: (shareDict pt rest (processTraded pt traded o).2).1 := rfl
    have hr2 : (shareDict pt (o :: rest) traded).2 = (shareDict pt rest (processTraded pt traded o).2).2 := rfl
    rw [hr1, hr2]
    refine ⟨b1, by rw [b2, a4], by linarith, ?_⟩
    simp only [matchedTotal, List.map_cons, sumRat, List.length_cons] at *
    rw [a4] at b4
    have hcast : (((rest.length + 1) * traded.length : Nat) : Rat) =
        ((rest.length * traded.length : Nat) : Rat) + (traded.length : Rat) := by push_cast; ring
    rw [hcast]
    linarith

/-! ### C06.4 better price first -/

theorem insertBy_sorted (key : Order → Rat) (o : Order) (l : List Order)
    (h : l.Pairwise fun a b => key a ≤ key b) :
    (World.insertBy key o l).Pairwise fun a b => key a ≤ key b := by
  induction l with
  | nil => simp [World.insertBy]
  | cons x xs ih =>
    unfold World.insertBy
    have hx := List.pairwise_cons.mp h
    split_ifs with hlt
    · refine List.pairwise_cons.mpr ⟨?_, h⟩
      intro y hy
      rcases List.mem_cons.mp hy with rfl | hy
      · exact le_of_lt hlt
      · exact le_trans (le_of_lt hlt) (hx.1 y hy)
    · refine List.pairwise_cons.mpr ⟨?_, ih hx.2⟩
      intro y hy
      have hmem : ∀ z, z ∈ World.insertBy key o xs → z = o ∨ z ∈ xs := by
        intro z
        clear ih hx h hy
        induction xs with
        | nil => intro hz; simp [World.insertBy] at hz; exact Or.inl hz
        | cons w ws ihw =>
          intro hz
          unfold World.insertBy at hz
          split_ifs at hz
          · rcases List.mem_cons.mp hz with rfl | hz
            · exact Or.inl rfl
            · exact Or.inr hz
          · rcases List.mem_cons.mp hz with rfl | hz
            · exact Or.inr (by simp)
            · rcases ihw hz with h | h
              · exact Or.inl h
              · exact Or.inr (List.mem_cons_of_mem _ h)
      rcases hmem y hy with rfl | hy
      · exact not_lt.mp hlt
      · exact hx.1 y hy

/-- C06.4 the order in which the orders of a group are served: ascending in the sort key — LAY orders
    by descending price, then BACK orders by ascending price (`-price` resp. `price` as key) — so
    when the eligible volume does not suffice the order offering the better price to the other side
    is served first. -/
theorem stableSortBy_sorted (key : Order → Rat) (l : List Order) :
    (World.stableSortBy key l).Pairwise fun a b => key a ≤ key b := by
  unfold World.stableSortBy
  suffices h : ∀ acc : List Order, (acc.Pairwise fun a b => key a ≤ key b) →
      (l.foldl (fun acc o => World.insertBy key o acc) acc).Pairwise fun a b => key a ≤ key b from h [] List.Pairwise.nil
  induction l with
  | nil => intro acc h; exact h
  | cons x xs ih => intro acc h; exact ih _ (insertBy_sorted key x acc h)

/-- non-vacuity: two resting orders sharing ten units of traded volume at one price -/
example :
    let o : SimOrder := { side := .back, kind := .limit, price := 2, size := 4 }
    ((shareDict 7 [o, o] [(3, 10)]).1.map (·.sizeMatched), (shareDict 7 [o, o] [(3, 10)]).2) = ([4, 1], [(3, 0)]) := by
  decide +kernel

end Flumine.C06
