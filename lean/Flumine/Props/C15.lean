/-
  C15 — Blotter views are coherent with the orders placed.
  Model: World.blotterAdd / blotterComplete / strategyOrders, Txn.txnPlace, SimLoop.processSimulatedOrders.
  In the model the views are *computed* as filters of the primary insertion-ordered list, so the
  partition property is what the correspondence check and the oracle compare the real caches against.
-/
import Flumine.SimLoop
import Flumine.Lemmas.WorldLemmas
import Flumine.Lemmas.Ids
import Flumine.Lemmas.Inv
import Flumine.Lemmas.Final
import Flumine.Lemmas.Flight
import Flumine.Lemmas.Strand
import Mathlib.Tactic.Linarith
namespace Flumine.C15
open Flumine Flumine.World

/-- C15.1 `Blotter.__setitem__`: the order is appended once to the primary list and once to the live list -/
theorem blotterAdd_spec (w : World) (mid oid : Nat) (m : Market) (hm : w.markets.find? (fun x => decide (x.id = mid)) = some m) :
    ((w.blotterAdd mid oid).market? mid).map (·.blotter) = some (m.blotter ++ [oid]) ∧
    ((w.blotterAdd mid oid).market? mid).map (·.live) = some (m.live ++ [oid]) ∧
    ((w.blotterAdd mid oid).market? mid).map (·.active) = some true := by
  unfold blotterAdd
  have h1 := market_modify_self w mid (fun m => { m with active := true, blotter := m.blotter ++ [oid], live := m.live ++ [oid] }) m hm rfl
  have h2 : ((w.modifyMarket mid fun m => { m with active := true, blotter := m.blotter ++ [oid], live := m.live ++ [oid] }).modifyOrder oid
      fun o => { o with inBlotter := true, blotterClient := o.client }).market? mid =
      (w.modifyMarket mid fun m => { m with active := true, blotter := m.blotter ++ [oid], live := m.live ++ [oid] }).market? mid := rfl
  rw [h2, h1]
  exact ⟨rfl, rfl, rfl⟩

/-- C15.2 `Blotter.complete_order`: exactly that order leaves the live list, the primary list is untouched -/
theorem blotterComplete_spec (w : World) (mid oid : Nat) (m : Market) (hm : w.markets.find? (fun x => decide (x.id = mid)) = some m) :
    ((w.blotterComplete mid oid).market? mid).map (·.live) = some (m.live.erase oid) ∧
    ((w.blotterComplete mid oid).market? mid).map (·.blotter) = some m.blotter := by
  unfold blotterComplete
  rw [market_modify_self w mid (fun m => { m with live := m.live.erase oid }) m hm rfl]
  exact ⟨rfl, rfl⟩

/-- an order already in the blotter is refused before anything is touched (fix 001a1d6) -/
theorem place_twice_refused (w : World) (t : Txn) (oid : Nat) (v : Option Int)
    (h : ((w.modifyOrder oid fun o => { o with client := some t.client }).market! t.market).blotter.contains oid = true) :
    (w.txnPlace t oid v true true).2.2 = .error .alreadyPlaced := by
  unfold txnPlace
  simp only [Bool.not_true, Bool.and_false, Bool.false_eq_true, if_false]
  simp only [h, Bool.true_or, if_true]

/-- C15.4 every view is a filter of the primary list: an order is in the strategy's view iff it is
    in the blotter and belongs to that strategy, in blotter order -/
theorem strategy_view_is_filter (w : World) (mid sid : Nat) :
    w.strategyOrders mid sid = (((w.market! mid).blotter.map w.order!).filter (·.strategy = sid)) := rfl

theorem view_membership (w : World) (mid sid : Nat) (o : Order) :
    o ∈ w.strategyOrders mid sid ↔ (o ∈ (w.market! mid).blotter.map w.order! ∧ o.strategy = sid) := by
  unfold strategyOrders
  simp [List.mem_filter]

/-- C15.2 the only statuses with which an order can be absent from the live list are complete ones:
    the simulation loop's per-order step (`loopStep`, Lemmas/WorldLemmas.lean) removes an order from the
    live list only if it is (or has just been made) complete -/
theorem live_list_loses_only_complete (mid : Nat) (w : World) (oid : Nat) :
    loopStep mid w oid = w ∨
    (w.order! oid).complete = true ∧ loopStep mid w oid = w.blotterComplete mid oid ∨
    loopStep mid w oid = (w.orderExecutionComplete oid).blotterComplete mid oid :=
  loopStep_keeps_or_completes mid w oid

theorem statusComplete_ec : statusComplete .executionComplete = true := by decide


/-! ### the order table only grows -/

/-- whatever one market update does - due packages executed (place / cancel / update / replace handlers,
    replacement orders created), removals applied, matching, completion, closure, any scripted requests
    of any strategies, refused or accepted - the order ids present before are still present afterwards,
    in the same positions; new orders are only appended -/
theorem order_ids_stable (w : World) (mid : Nat) (book : Book) (script : Nat → List Action) :
    ∃ extra, Ids.ids (w.processMarketBook mid book script).1 = Ids.ids w ++ extra :=
  Ids.keeps_processMarketBook w mid book script

/-- so an order, once created, can always be looked up again -/
theorem order_never_lost (w : World) (mid : Nat) (book : Book) (script : Nat → List Action) (id : Nat)
    (h : OL.HasOrder w id) : OL.HasOrder (w.processMarketBook mid book script).1 id :=
  Ids.orders_never_lost w mid book script id h


/-! ### C15 for every reachable state (invariant by induction over whole runs, `Lemmas/Inv.lean`) -/

open Flumine.Inv in
/-- C15 whole-run: after ANY sequence of market updates - packages executed, removals, matching,
    completion, closure, any requests scripted by any strategies, starting from an empty framework -
    no order id appears twice in a market's blotter, every id in it names exactly the order of that id
    in the order table (so a lookup by order id returns that order), and the live list is part of the blotter -/
theorem blotter_coherent_reachable (cfg : Config) (cl : List Client) (ss : List Strategy)
    (us : List (Nat × Book × (Nat → List Action))) (mid : Nat) :
    let w := runUpdates { cfg := cfg, clients := cl, strategies := ss } us
    (w.market! mid).blotter.Nodup ∧
    (∀ oid ∈ (w.market! mid).blotter, OL.HasOrder w oid ∧ (w.order! oid).id = oid) ∧
    (∀ oid ∈ (w.market! mid).live, oid ∈ (w.market! mid).blotter) := by
  intro w
  have h : Inv w := inv_reachable cfg cl ss us
  exact ⟨h.blotter_nodup mid, fun oid ho => ⟨h.blotter_hasOrder mid oid ho, OL.order!_id w oid (h.blotter_hasOrder mid oid ho)⟩, h.live_sub mid⟩

open Flumine.Inv in
/-- the invariant is preserved by one update from any well-formed world (the induction step) -/
theorem blotter_coherent_step (w : World) (h : Inv w) (mid : Nat) (book : Book) (script : Nat → List Action) :
    Inv (w.processMarketBook mid book script).1 :=
  (good_processMarketBook w mid book script).2 h

open Flumine.Inv in
/-- order ids are creation indices in every reachable state: the n-th order created has id n -/
theorem order_ids_are_indices (cfg : Config) (cl : List Client) (ss : List Strategy)
    (us : List (Nat × Book × (Nat → List Action))) :
    Ids.ids (runUpdates { cfg := cfg, clients := cl, strategies := ss } us) =
      List.range (runUpdates { cfg := cfg, clients := cl, strategies := ss } us).orders.length :=
  (inv_reachable cfg cl ss us).range


open Flumine.Fin Flumine.Inv in
/-- C15 "the live list always contains every order that is not complete", whole-run: in every state reachable
    by any history (any markets, any interleaving, any scripts), an order of a blotter that is not complete is in
    that market's live list (equivalently: an order has left the live list only if it is EXECUTION_COMPLETE) -/
theorem live_list_holds_incomplete_whole_run (cfg : Config) (cl : List Client) (ss : List Strategy) (M : Nat)
    (us : List (Nat × Book × (Nat → List Action))) :
    ∀ oid ∈ ((runUpdates { cfg := cfg, clients := cl, strategies := ss } us).market! M).blotter,
      ((runUpdates { cfg := cfg, clients := cl, strategies := ss } us).order! oid).complete = false →
      oid ∈ ((runUpdates { cfg := cfg, clients := cl, strategies := ss } us).market! M).live := by
  intro oid hb hc
  have b := ((fs_runUpdates M _ us).2 (bi_empty M cfg cl ss)).1
  by_contra hn
  have := ec_complete b oid hb (b.live oid hb hn)
  rw [hc] at this; cases this


/-! ### the client views: a replacement order is filed under the client of the order it replaces -/

section ClientViews
open Flumine.OL Flumine.Ids Flumine.Inv Flumine.Fl

/-- the client attribute of an order and the client whose views the blotter filed it under (`Blotter.__setitem__` reads
    `order.client` once, when the order enters) -/
def CC (w : World) (x : Nat) : Option Nat × Option Nat := ((w.order! x).client, (w.order! x).blotterClient)

theorem cc_of_orders {w w' : World} (h : w'.orders = w.orders) (x : Nat) : CC w' x = CC w x := by
  unfold CC; rw [order!_congr w w' h x]

theorem cc_modifyOrder (w : World) (a : Nat) (f : Order → Order) (hf : ∀ y, y.id = a → (f y).id = a)
    (hc : (f (w.order! a)).client = (w.order! a).client ∧ (f (w.order! a)).blotterClient = (w.order! a).blotterClient) (x : Nat) :
    CC (w.modifyOrder a f) x = CC w x := by
  unfold CC
  rcases order!_modify' w a x f hf with h | ⟨e, _, h⟩
  · rw [h]
  · rw [h, e, hc.1, hc.2]

theorem cc_orderUpdateStatus (w : World) (a : Nat) (s : Status) (ha : HasOrder w a) (x : Nat) :
    CC (w.orderUpdateStatus a s) x = CC w x := by
  unfold CC
  by_cases e : x = a
  · rw [e, orderUpdateStatus_self w a s ha]; rfl
  · rw [orderUpdateStatus_other w x a s ha e]

theorem cc_orderExecutable (w : World) (a : Nat) (ha : HasOrder w a) (x : Nat) : CC (w.orderExecutable a) x = CC w x := by
  unfold orderExecutable
  split
  · exact cc_modifyOrder w a (fun o => { o with ud := {} }) (fun _ h => h) ⟨rfl, rfl⟩ x
  · rw [cc_modifyOrder (w.orderUpdateStatus a .executable) a (fun o => { o with ud := {} }) (fun _ h => h) ⟨rfl, rfl⟩ x]
    exact cc_orderUpdateStatus w a _ ha x

theorem cc_orderExecutionComplete (w : World) (a : Nat) (ha : HasOrder w a) (x : Nat) : CC (w.orderExecutionComplete a) x = CC w x := by
  unfold orderExecutionComplete
  rw [cc_modifyOrder (w.orderUpdateStatus a .executionComplete) a (fun o => { o with ud := {}, completeAt := some w.clock }) (fun _ h => h) ⟨rfl, rfl⟩ x]
  exact cc_orderUpdateStatus w a _ ha x

/-- C15 (client views) `market.place_order(order, execute=False, client=c)` on an order that has not been placed: the order
    belongs to `c` afterwards and the blotter files it under `c` -/
theorem place_noexec_files_under_txn_client (w : World) (t : Txn) (rid : Nat) (v : Option Int) (hr : HasOrder w rid)
    (hnb : rid ∉ (w.market! t.market).blotter) (hst : (w.order! rid).status = none) :
    CC (w.txnPlace t rid v false false).1 rid = (some t.client, some t.client) ∧
    ((w.txnPlace t rid v false false).1.order! rid).inBlotter = true := by
  unfold txnPlace
  simp only [Bool.false_and, Bool.false_eq_true, if_false]
  have e1 : (w.modifyOrder rid (fun o => { o with client := some t.client })).order! rid = { w.order! rid with client := some t.client } :=
    order!_modify_self w rid _ hr (fun _ h => h)
  have hh1 := hasOrder_modify w rid rid (fun o => { o with client := some t.client }) hr (fun _ h => h)
  have hm1 : (w.modifyOrder rid (fun o => { o with client := some t.client })).markets = w.markets := rfl
  generalize w.modifyOrder rid (fun o => { o with client := some t.client }) = w1 at e1 hh1 hm1
  have hmk1 : ∀ m, w1.market! m = w.market! m := Inv.market!_congr w1 w hm1
  split
  · rename_i hc
    exfalso
    rw [hmk1, e1] at hc
    simp only [hst, Bool.or_eq_true, List.contains_iff_mem, beq_iff_eq] at hc
    rcases hc with hc | hc
    · exact hnb hc
    · cases hc
  · have e2 : (w1.modifyOrder rid (fun o => { o with publishTime := some (((w1.market! t.market).book).getD {}).pt, marketVersion := v })).order! rid =
        { w1.order! rid with publishTime := some (((w1.market! t.market).book).getD {}).pt, marketVersion := v } :=
      order!_modify_self w1 rid _ hh1 (fun _ h => h)
    have hh2 := hasOrder_modify w1 rid rid (fun o => { o with publishTime := some (((w1.market! t.market).book).getD {}).pt, marketVersion := v }) hh1 (fun _ h => h)
    generalize w1.modifyOrder rid (fun o => { o with publishTime := some (((w1.market! t.market).book).getD {}).pt, marketVersion := v }) = w2 at e2 hh2
    unfold orderPlacing
    have e3 := orderUpdateStatus_self w2 rid .pending hh2
    have hh3 := hasOrder_orderUpdateStatus w2 rid rid .pending hh2
    generalize w2.orderUpdateStatus rid .pending = w3 at e3 hh3
    have e4 : (w3.blotterAdd t.market rid).order! rid = { w3.order! rid with inBlotter := true, blotterClient := (w3.order! rid).client } := by
      unfold blotterAdd
      exact order!_modify_self _ rid _ ((hasOrder_congr _ w3 rfl rid).mpr hh3) (fun _ h => h)
    have hcl : (w3.order! rid).client = some t.client := by rw [e3, e2, e1]; rfl
    have key : CC (w3.blotterAdd t.market rid) rid = (some t.client, some t.client) ∧ ((w3.blotterAdd t.market rid).order! rid).inBlotter = true := by
      unfold CC; rw [e4]
      exact ⟨by simp only [hcl], rfl⟩
    split
    · exact key
    · exact key

/-- the replacement order that `Trade.create_order_replacement` creates carries the client of the order it replaces and is
    not filed anywhere yet -/
theorem createReplacement_client (w : World) (a : Nat) (np sz : Rat) (cr : Time) (hI : Inv w) :
    CC (w.createReplacement a np sz cr).1 (w.createReplacement a np sz cr).2 = ((w.order! a).client, none) := by
  have hn : ¬ HasOrder w w.orders.length := not_hasOrder_len w w hI (Keeps.refl w)
  unfold createReplacement CC
  simp only
  rw [order!_congr _ _ (setTrade_orders _ _)]
  rw [order!_append_new w { w with orders := w.orders ++ [_] } _ rfl hn]


open Flumine.Settle Flumine.Strand in
/-- C15 (client views) the place half of a simulated replace: whatever the outcome, the only new order is the replacement; it
    carries the client `c` of the order it replaces, and it is filed under `c` (re-placement accepted:
    `market.place_order(replacement, execute=False, client=order.client)`) or under nobody (re-placement refused: it never
    enters the blotter) - never under the default client or any other -/
theorem replacement_filed_under_the_client_of_the_replaced_order (p : Package) (w : World) (o : Order) (a : Nat) (book : Book)
    (np : Option Rat) (sc : Rat) (failed : Nat) (ha : HasOrder w a) (hI : Inv.Inv w) (c : Nat)
    (hoc : o.client = some c) (hac : (w.order! a).client = some c) :
    ∀ x, ¬ HasOrder w x → HasOrder (replacePlace p w o a book np sc failed).1 x →
      CC (replacePlace p w o a book np sc failed).1 x = (some c, some c) ∨
      CC (replacePlace p w o a book np sc failed).1 x = (some c, none) := by
  unfold replacePlace
  simp only
  have s1 : SI w (w.orderExecutionComplete a).bumpBetId :=
    (si_orderExecutionComplete w a).trans (SI.of_eq (w := w.orderExecutionComplete a) rfl)
  have g1 : Good w (w.orderExecutionComplete a).bumpBetId := (good_orderExecutionComplete w a).trans (good_bumpBetId _)
  have c1 : CC (w.orderExecutionComplete a).bumpBetId a = CC w a :=
    (cc_of_orders (w := w.orderExecutionComplete a) (w' := (w.orderExecutionComplete a).bumpBetId) rfl a).trans (cc_orderExecutionComplete w a ha a)
  generalize (w.orderExecutionComplete a).bumpBetId = w1 at s1 g1 c1
  have hI1 : Inv.Inv w1 := g1.2 hI
  have ha1 : HasOrder w1 a := g1.1.hasOrder a ha
  have hac1 : (w1.order! a).client = some c := by
    have := congrArg Prod.fst c1; unfold CC at this; simp only at this; rw [this]; exact hac
  obtain ⟨hlen, hst2, _⟩ := createReplacement_new w1 a (np.getD 0) sc p.created hI1
  have hids2 := createReplacement_ids w1 a (np.getD 0) sc p.created
  have c2 := createReplacement_client w1 a (np.getD 0) sc p.created hI1
  rw [hac1] at c2
  have hnb : ∀ m, (w1.createReplacement a (np.getD 0) sc p.created).2 ∉ (w1.market! m).blotter := by
    intro m hc
    have := (hI1.blotter_hasOrder m _ hc)
    rw [hlen] at this
    exact Fl.not_hasOrder_len w1 w1 hI1 (Keeps.refl w1) this
  have hne : a ≠ (w1.createReplacement a (np.getD 0) sc p.created).2 := by
    intro e; rw [hlen] at e
    exact Fl.not_hasOrder_len w1 w1 hI1 (Keeps.refl w1) (e ▸ ha1)
  have hr := createReplacement_mem w1 a (np.getD 0) sc p.created
  have hmkts : (w1.createReplacement a (np.getD 0) sc p.created).1.markets = w1.markets := by unfold createReplacement; rfl
  have g2 := good_createReplacement w1 a (np.getD 0) sc p.created
  rw [← hlen] at hids2
  generalize w1.createReplacement a (np.getD 0) sc p.created = cr at hr hst2 hids2 hnb hmkts hne g2 c2
  obtain ⟨w2, rid⟩ := cr
  simp only at hr hst2 hids2 hnb hmkts hne g2 c2 ⊢
  have hr2 : HasOrder w2 rid := (hasOrder_iff w2 rid).mpr hr
  have ha2 : HasOrder w2 a := g2.1.hasOrder a ha1
  have hnewid : ∀ (wf : World), SI w2 wf → ∀ x, ¬ HasOrder w x → HasOrder wf x → x = rid := by
    intro wf hs x hx hxf
    rw [hasOrder_iff, hs, hids2, s1] at hxf
    rcases List.mem_append.mp hxf with h | h
    · exact absurd ((hasOrder_iff w x).mpr h) hx
    · exact List.mem_singleton.mp h
  generalize (w2.order! rid).sim.place p.marketVersion (w2.client! p.client).bpe (w2.client! ((w2.order! rid).client.getD 0)).fullMatch book.view
    ((runnerOf book (w2.order! rid).sel (w2.order! rid).hc).getD { sel := (w2.order! rid).sel }).view false none w2.betId = pr
  have s3 := si_modifyOrder w2 rid (fun x => { x with sim := pr.1 }) (fun _ h => h)
  have e3 := same_modifyOrder w2 rid (fun x => { x with sim := pr.1 }) (fun _ h => h) ⟨rfl, rfl⟩ rid
  have c3 : CC (w2.modifyOrder rid (fun x => { x with sim := pr.1 })) rid = (some c, none) :=
    (cc_modifyOrder w2 rid (fun x => { x with sim := pr.1 }) (fun _ h => h) ⟨rfl, rfl⟩ rid).trans c2
  have hr3 := hasOrder_modify w2 rid rid (fun x => { x with sim := pr.1 }) hr2 (fun _ h => h)
  have ha3 := hasOrder_modify w2 a rid (fun x => { x with sim := pr.1 }) ha2 (fun _ h => h)
  have hm3 : (w2.modifyOrder rid (fun x => { x with sim := pr.1 })).markets = w1.markets := hmkts
  generalize w2.modifyOrder rid (fun x => { x with sim := pr.1 }) = w3 at s3 e3 hr3 ha3 hm3 c3
  have hst3 : St w3 rid = none := by unfold St; rw [e3.1]; exact hst2
  cases pr.2.status with
  | success =>
    simp only
    have s4 : SI w3 ((w3.modifyOrder rid (fun x => { x with placedAt := some w3.clock, betId := pr.2.betId })).emit (.orderEvent rid)) :=
      (si_modifyOrder w3 rid (fun x => { x with placedAt := some w3.clock, betId := pr.2.betId }) (fun _ h => h)).trans
        (SI.of_eq (w := w3.modifyOrder rid (fun x => { x with placedAt := some w3.clock, betId := pr.2.betId })) rfl)
    have e4 : Same rid w3 ((w3.modifyOrder rid (fun x => { x with placedAt := some w3.clock, betId := pr.2.betId })).emit (.orderEvent rid)) :=
      same_trans (same_modifyOrder w3 rid (fun x => { x with placedAt := some w3.clock, betId := pr.2.betId }) (fun _ h => h) ⟨rfl, rfl⟩ rid) (same_of_orders rfl)
    have hm4 : ((w3.modifyOrder rid (fun x => { x with placedAt := some w3.clock, betId := pr.2.betId })).emit (.orderEvent rid)).markets = w1.markets := hm3
    generalize (w3.modifyOrder rid (fun x => { x with placedAt := some w3.clock, betId := pr.2.betId })).emit (.orderEvent rid) = w4 at s4 e4 hm4
    have hr4 : HasOrder w4 rid := (s4.hasOrder rid).mpr hr3
    have hst4 : (w4.order! rid).status = none := by have := hst3; unfold St at this; rw [e4.1]; exact this
    have hnb4 : rid ∉ (w4.market! p.market).blotter := by rw [Inv.market!_congr w4 w1 hm4]; exact hnb p.market
    have hcl : o.client.getD ((w4.clients.head?.map (·.id)).getD 0) = c := by rw [hoc]; rfl
    rw [hcl]
    have e5 := (place_noexec_files_under_txn_client w4 { market := p.market, client := c } rid none hr4 hnb4 hst4).1
    have s5 := si_txnPlace_noexec w4 { market := p.market, client := c } rid none
    generalize (w4.txnPlace { market := p.market, client := c } rid none false false).1 = w5 at e5 s5
    have hr5 : HasOrder w5 rid := (s5.hasOrder rid).mpr hr4
    have sall : SI w2 ((w5.orderExecutable rid).tradeExit o.trade) :=
      (((s3.trans s4).trans s5).trans (si_orderExecutable w5 rid)).trans (si_tradeExit _ _)
    intro x hx hxf
    have := hnewid _ sall x hx hxf
    subst this
    left
    rw [cc_of_orders (tradeExit_orders _ _) x, cc_orderExecutable w5 x hr5 x]
    exact e5
  | failure =>
    have s4 := si_orderExecutionComplete w3 rid
    have c4 : CC (w3.orderExecutionComplete rid) rid = (some c, none) := (cc_orderExecutionComplete w3 rid hr3 rid).trans c3
    have hr4 : HasOrder (w3.orderExecutionComplete rid) rid := (s4.hasOrder rid).mpr hr3
    have ha4 : HasOrder (w3.orderExecutionComplete rid) a := (s4.hasOrder a).mpr ha3
    generalize w3.orderExecutionComplete rid = w4 at s4 c4 hr4 ha4
    have sall : SI w2 ((w4.orderExecutable a).tradeExit o.trade) :=
      ((s3.trans s4).trans (si_orderExecutable w4 a)).trans (si_tradeExit _ _)
    intro x hx hxf
    have := hnewid _ sall x hx hxf
    subst this
    right
    rw [cc_of_orders (tradeExit_orders _ _) x, cc_orderExecutable w4 a ha4 x]
    exact c4



open Flumine.Settle Flumine.Strand in
/-- ... and so for one step of `execute_replace` (cancel half, then the place half if the cancel succeeded): every order the step
    creates carries the client of the order the step is about -/
theorem replace_step_files_under_the_client_of_the_replaced_order (p : Package) (acc : World × Nat) (pr : Nat × Option Rat)
    (ha : HasOrder acc.1 pr.1) (hI : Inv.Inv acc.1) (c : Nat) (hc : (acc.1.order! pr.1).client = some c) :
    ∀ x, ¬ HasOrder acc.1 x → HasOrder (replaceStep p acc pr).1 x →
      CC (replaceStep p acc pr).1 x = (some c, some c) ∨ CC (replaceStep p acc pr).1 x = (some c, none) := by
  obtain ⟨w, failed⟩ := acc
  obtain ⟨a, newPrice⟩ := pr
  unfold replaceStep
  simp only
  simp only at ha hI hc
  have k1 := si_tradeEnter w (w.order! a).trade
  have g1 := good_tradeEnter w (w.order! a).trade
  have c1 : CC (w.tradeEnter (w.order! a).trade) a = CC w a := cc_of_orders (tradeEnter_orders _ _) a
  generalize w.tradeEnter (w.order! a).trade = w1 at k1 g1 c1
  generalize (w.order! a).sim.cancel (((w1.market! p.market).book).getD {}).status
    (if (w.order! a).ud.hasReduction then (w.order! a).ud.sizeReduction else none) = cr
  have k2 := k1.trans (si_modifyOrder w1 a (fun o => { o with sim := cr.1, cancelResponses := o.cancelResponses + 1 }) (fun _ h => h))
  have g2 := g1.trans (good_modifyOrder w1 a (fun o => { o with sim := cr.1, cancelResponses := o.cancelResponses + 1 }) (fun _ => rfl))
  have c2 : CC (w1.modifyOrder a (fun o => { o with sim := cr.1, cancelResponses := o.cancelResponses + 1 })) a = CC w a :=
    (cc_modifyOrder w1 a (fun o => { o with sim := cr.1, cancelResponses := o.cancelResponses + 1 }) (fun _ h => h) ⟨rfl, rfl⟩ a).trans c1
  generalize w1.modifyOrder a (fun o => { o with sim := cr.1, cancelResponses := o.cancelResponses + 1 }) = w2 at k2 g2 c2
  have hc2 : (w2.order! a).client = some c := by
    have := congrArg Prod.fst c2; unfold CC at this; simp only at this; rw [this]; exact hc
  cases cr.2.status with
  | failure =>
    intro x hx hx'
    exact absurd ((((k2.trans (si_orderExecutable w2 a)).trans (si_tradeExit _ _)).hasOrder x).mp hx') hx
  | success =>
    intro x hx hx'
    exact replacement_filed_under_the_client_of_the_replaced_order p w2 _ a _ newPrice _ failed (g2.1.hasOrder a ha) (g2.2 hI) c hc hc2 x
      (fun h => hx ((k2.hasOrder x).mp h)) hx'

/-- non-vacuity: two clients, an order placed in a transaction of client 1 (not the default client), replaced one update
    later; the replacement (order 1) belongs to client 1 and is filed under client 1 -/
def nvClBook (pt : Int) : Book := { pt := pt, activeRunners := 2, runners := [{ sel := 1, atb := [⟨3, 10⟩], atl := [⟨4, 10⟩] }, { sel := 2 }] }
def nvClOrder : Order := { id := 0, trade := 0, strategy := 0, market := 1, sel := 1, sim := { side := .back, kind := .limit, price := 5, size := 4 } }
def nvClWorld : World := Inv.runUpdates { clients := [{ id := 0 }, { id := 1 }], strategies := [{ id := 0, streams := [0] }] }
  [(1, nvClBook 1000, fun _ => [.batchBegin 1, .create nvClOrder (some { id := 0, strategy := 0, market := 1, sel := 1 }), .place (.byId 0) none false, .batchEnd]),
   (1, nvClBook 2000, fun _ => [.replace (.byId 0) 6 none false]),
   (1, nvClBook 3000, fun _ => [])]
example : (nvClWorld.orders.map fun o => (o.id, o.status, o.client, o.blotterClient, o.inBlotter)) =
    [(0, some .executionComplete, some 1, some 1, true), (1, some .executable, some 1, some 1, true)] := by decide +kernel

end ClientViews

end Flumine.C15
