/-
  C15 — Blotter views are coherent with the orders placed.
  Model: World.blotterAdd / blotterComplete / strategyOrders, Txn.txnPlace, SimLoop.processSimulatedOrders.
  In the model the views are *computed* as filters of the primary insertion-ordered list, so the
  partition property is what the correspondence check and the oracle compare the real caches against.
-/
import Flumine.SimLoop
import Flumine.Lemmas.WorldLemmas
import Flumine.Lemmas.Ids
import Flumine.Lemmas.Inv
import Flumine.Lemmas.Final
import Mathlib.Tactic.Linarith
namespace Flumine.C15
open Flumine Flumine.World

/-- C15.1 `Blotter.__setitem__`: the order is appended once to the primary list and once to the live list -/
theorem blotterAdd_spec (w : World) (mid oid : Nat) (m : Market) (hm : w.markets.find? (fun x => decide (x.id = mid)) = some m) :
    ((w.blotterAdd mid oid).market? mid).map (·.blotter) = some (m.blotter ++ [oid]) ∧
    ((w.blotterAdd mid oid).market? mid).map (·.live) = some (m.live ++ [oid]) ∧
    ((w.blotterAdd mid oid).market? mid).map (·.active) = some true := by
  unfold blotterAdd
  have h1 := market_modify_self w mid (fun m => { m with active := true, blotter := m.blotter ++ [oid], live := m.live ++ [oid] }) m hm rfl
  have h2 : ((w.modifyMarket mid fun m => { m with active := true, blotter := m.blotter ++ [oid], live := m.live ++ [oid] }).modifyOrder oid
      fun o => { o with inBlotter := true, blotterClient := o.client }).market? mid =
      (w.modifyMarket mid fun m => { m with active := true, blotter := m.blotter ++ [oid], live := m.live ++ [oid] }).market? mid := rfl
  rw [h2, h1]
  exact ⟨rfl, rfl, rfl⟩

/-- C15.2 `Blotter.complete_order`: exactly that order leaves the live list, the primary list is untouched -/
theorem blotterComplete_spec (w : World) (mid oid : Nat) (m : Market) (hm : w.markets.find? (fun x => decide (x.id = mid)) = some m) :
    ((w.blotterComplete mid oid).market? mid).map (·.live) = some (m.live.erase oid) ∧
    ((w.blotterComplete mid oid).market? mid).map (·.blotter) = some m.blotter := by
  unfold blotterComplete
  rw [market_modify_self w mid (fun m => { m with live := m.live.erase oid }) m hm rfl]
  exact ⟨rfl, rfl⟩

/-- an order already in the blotter is refused before anything is touched (fix 001a1d6) -/
theorem place_twice_refused (w : World) (t : Txn) (oid : Nat) (v : Option Int)
    (h : ((w.modifyOrder oid fun o => { o with client := some t.client }).market! t.market).blotter.contains oid = true) :
    (w.txnPlace t oid v true true).2.2 = .error .alreadyPlaced := by
  unfold txnPlace
  simp only [Bool.not_true, Bool.and_false, Bool.false_eq_true, if_false]
  simp only [h, Bool.true_or, if_true]

/-- C15.4 every view is a filter of the primary list: an order is in the strategy's view iff it is
    in the blotter and belongs to that strategy, in blotter order -/
theorem strategy_view_is_filter (w : World) (mid sid : Nat) :
    w.strategyOrders mid sid = (((w.market! mid).blotter.map w.order!).filter (·.strategy = sid)) := rfl

theorem view_membership (w : World) (mid sid : Nat) (o : Order) :
    o ∈ w.strategyOrders mid sid ↔ (o ∈ (w.market! mid).blotter.map w.order! ∧ o.strategy = sid) := by
  unfold strategyOrders
  simp [List.mem_filter]

/-- C15.2 the only statuses with which an order can be absent from the live list are complete ones:
    the simulation loop's per-order step (`loopStep`, Lemmas/WorldLemmas.lean) removes an order from the
    live list only if it is (or has just been made) complete -/
theorem live_list_loses_only_complete (mid : Nat) (w : World) (oid : Nat) :
    loopStep mid w oid = w ∨
    (w.order! oid).complete = true ∧ loopStep mid w oid = w.blotterComplete mid oid ∨
    loopStep mid w oid = (w.orderExecutionComplete oid).blotterComplete mid oid :=
  loopStep_keeps_or_completes mid w oid

theorem statusComplete_ec : statusComplete .executionComplete = true := by decide


/-! ### the order table only grows -/

/-- whatever one market update does - due packages executed (place / cancel / update / replace handlers,
    replacement orders created), removals applied, matching, completion, closure, any scripted requests
    of any strategies, refused or accepted - the order ids present before are still present afterwards,
    in the same positions; new orders are only appended -/
theorem order_ids_stable (w : World) (mid : Nat) (book : Book) (script : Nat → List Action) :
    ∃ extra, Ids.ids (w.processMarketBook mid book script).1 = Ids.ids w ++ extra :=
  Ids.keeps_processMarketBook w mid book script

/-- so an order, once created, can always be looked up again -/
theorem order_never_lost (w : World) (mid : Nat) (book : Book) (script : Nat → List Action) (id : Nat)
    (h : OL.HasOrder w id) : OL.HasOrder (w.processMarketBook mid book script).1 id :=
  Ids.orders_never_lost w mid book script id h


/-! ### C15 for every reachable state (invariant by induction over whole runs, `Lemmas/Inv.lean`) -/

open Flumine.Inv in
/-- C15 whole-run: after ANY sequence of market updates - packages executed, removals, matching,
    completion, closure, any requests scripted by any strategies, starting from an empty framework -
    no order id appears twice in a market's blotter, every id in it names exactly the order of that id
    in the order table (so a lookup by order id returns that order), and the live list is part of the blotter -/
theorem blotter_coherent_reachable (cfg : Config) (cl : List Client) (ss : List Strategy)
    (us : List (Nat × Book × (Nat → List Action))) (mid : Nat) :
    let w := runUpdates { cfg := cfg, clients := cl, strategies := ss } us
    (w.market! mid).blotter.Nodup ∧
    (∀ oid ∈ (w.market! mid).blotter, OL.HasOrder w oid ∧ (w.order! oid).id = oid) ∧
    (∀ oid ∈ (w.market! mid).live, oid ∈ (w.market! mid).blotter) := by
  intro w
  have h : Inv w := inv_reachable cfg cl ss us
  exact ⟨h.blotter_nodup mid, fun oid ho => ⟨h.blotter_hasOrder mid oid ho, OL.order!_id w oid (h.blotter_hasOrder mid oid ho)⟩, h.live_sub mid⟩

open Flumine.Inv in
/-- the invariant is preserved by one update from any well-formed world (the induction step) -/
theorem blotter_coherent_step (w : World) (h : Inv w) (mid : Nat) (book : Book) (script : Nat → List Action) :
    Inv (w.processMarketBook mid book script).1 :=
  (good_processMarketBook w mid book script).2 h

open Flumine.Inv in
/-- order ids are creation indices in every reachable state: the n-th order created has id n -/
theorem order_ids_are_indices (cfg : Config) (cl : List Client) (ss : List Strategy)
    (us : List (Nat × Book × (Nat → List Action))) :
    Ids.ids (runUpdates { cfg := cfg, clients := cl, strategies := ss } us) =
      List.range (runUpdates { cfg := cfg, clients := cl, strategies := ss } us).orders.length :=
  (inv_reachable cfg cl ss us).range


open Flumine.Fin Flumine.Inv in
/-- C15 "the live list always contains every order that is not complete", whole-run: in every state reachable
    by any history (any markets, any interleaving, any scripts), an order of a blotter that is not complete is in
    that market's live list (equivalently: an order has left the live list only if it is EXECUTION_COMPLETE) -/
theorem live_list_holds_incomplete_whole_run (cfg : Config) (cl : List Client) (ss : List Strategy) (M : Nat)
    (us : List (Nat × Book × (Nat → List Action))) :
    ∀ oid ∈ ((runUpdates { cfg := cfg, clients := cl, strategies := ss } us).market! M).blotter,
      ((runUpdates { cfg := cfg, clients := cl, strategies := ss } us).order! oid).complete = false →
      oid ∈ ((runUpdates { cfg := cfg, clients := cl, strategies := ss } us).market! M).live := by
  intro oid hb hc
  have b := ((fs_runUpdates M _ us).2 (bi_empty M cfg cl ss)).1
  by_contra hn
  have := ec_complete b oid hb (b.live oid hb hn)
  rw [hc] at this; cases this

end Flumine.C15
