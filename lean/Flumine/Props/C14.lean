/-
  C14 — Simulation is deterministic, complete and chronological.
  Model: Flumine.Merge (event-group k-way merge, grouping, sequential processing, listener filter).
  Determinism of the model is trivial (it is a function); determinism of the code across processes,
  hash seeds and wall clocks is a runtime observation of the correspondence run (see evidence).
-/
import Flumine.Merge
namespace Flumine.C14
open Flumine.Merge

/-- the updates of stream i, in the order they occur in l -/
def ofStream (i : Nat) (l : List Upd) : List Upd := l.filter fun u => u.stream = i

def flat (cs : List Cycle) : List Upd := cs.flatMap Cycle.items

theorem ofStream_append (i : Nat) (a b : List Upd) : ofStream i (a ++ b) = ofStream i a ++ ofStream i b := by
  simp [ofStream]

theorem flat_append (a b : List Cycle) : flat (a ++ b) = flat a ++ flat b := by simp [flat]
theorem flat_cons (c : Cycle) (a : List Cycle) : flat (c :: a) = c.items ++ flat a := by simp [flat]

/-- every cycle carries the updates of one stream, and no two cycles the same stream -/
structure WF (cs : List Cycle) : Prop where
  homog : ∀ c ∈ cs, ∀ x ∈ c.items, x.stream = c.1.stream
  nodup : (cs.map fun c => c.1.stream).Nodup

/-! ### the stable sort only rearranges the cycles -/

theorem insCycle_split (c : Cycle) (acc : List Cycle) : ∃ pre post, acc = pre ++ post ∧ insCycle c acc = pre ++ c :: post := by
  induction acc with
  | nil => exact ⟨[], [], rfl, rfl⟩
  | cons x xs ih =>
    unfold insCycle
    split
    · obtain ⟨pre, post, h1, h2⟩ := ih
      exact ⟨x :: pre, post, by rw [h1]; rfl, by rw [h2]; rfl⟩
    · exact ⟨[], x :: xs, rfl, rfl⟩

theorem insCycle_perm (c : Cycle) (acc : List Cycle) : (insCycle c acc).Perm (c :: acc) := by
  obtain ⟨pre, post, h1, h2⟩ := insCycle_split c acc
  rw [h2, h1]
  exact List.perm_middle

theorem foldl_ins_perm (cs acc : List Cycle) : (cs.foldl (fun a c => insCycle c a) acc).Perm (acc ++ cs) := by
  induction cs generalizing acc with
  | nil => simp
  | cons c cs ih =>
    rw [List.foldl_cons]
    refine (ih (insCycle c acc)).trans ?_
    have := (insCycle_perm c acc).append_right cs
    refine this.trans ?_
    simp only [List.cons_append]
    exact (List.perm_middle (l₁ := acc) (l₂ := cs) (a := c)).symm

theorem sortCycles_perm (cs : List Cycle) : (sortCycles cs).Perm cs := by
  have := foldl_ins_perm cs []
  simpa [sortCycles] using this

theorem wf_perm (cs cs' : List Cycle) (h : cs'.Perm cs) (w : WF cs) : WF cs' :=
  ⟨fun c hc => w.homog c (h.subset hc), (h.map _).nodup_iff.mpr w.nodup⟩

theorem ofStream_cons (i : Nat) (u : Upd) (l : List Upd) :
    ofStream i (u :: l) = (if u.stream = i then [u] else []) ++ ofStream i l := by
  unfold ofStream
  rw [List.filter_cons]
  by_cases e : u.stream = i <;> simp [e]

theorem ofStream_nil_of_other (i : Nat) (l : List Upd) (k : Nat) (h : ∀ x ∈ l, x.stream = k) (hk : k ≠ i) : ofStream i l = [] := by
  apply List.filter_eq_nil_iff.mpr
  intro x hx; simp only [decide_eq_true_eq]; rw [h x hx]; exact hk

/-- selecting one stream from a well-formed cycle list does not depend on the order of the cycles -/
theorem ofStream_flat_perm (i : Nat) (cs cs' : List Cycle) (h : cs'.Perm cs) (w : WF cs) :
    ofStream i (flat cs') = ofStream i (flat cs) := by
  induction h with
  | nil => rfl
  | @cons x l1 l2 _ ih =>
    have w' : WF l2 := ⟨fun c hc => w.homog c (List.mem_cons_of_mem _ hc), (List.nodup_cons.mp w.nodup).2⟩
    rw [flat_cons, flat_cons, ofStream_append, ofStream_append, ih w']
  | swap x y l =>
    rw [flat_cons, flat_cons, flat_cons, flat_cons]
    simp only [ofStream_append, ← List.append_assoc]
    congr 1
    -- x and y carry different streams: at most one of the two selections is non-empty
    have hx := w.homog x (by simp)
    have hy := w.homog y (by simp)
    have hne : x.1.stream ≠ y.1.stream := by
      have := w.nodup
      simp only [List.map_cons, List.nodup_cons, List.mem_cons, not_or] at this
      exact this.1.1
    by_cases ex : x.1.stream = i
    · rw [ofStream_nil_of_other i y.items y.1.stream hy (fun e => hne (ex.trans e.symm))]; simp
    · rw [ofStream_nil_of_other i x.items x.1.stream hx ex]; simp
  | @trans l1 l2 l3 h1 h2 ih1 ih2 =>
    have w2 : WF l2 := wf_perm l3 l2 h2 w
    rw [ih1 w2, ih2 w]

theorem size_perm (cs cs' : List Cycle) (h : cs'.Perm cs) : size cs' = size cs := by
  unfold size
  exact (h.map _).sum_nat

/-! ### C14.1 / C14.2 every update exactly once, each stream's own order preserved -/

theorem size_cons (c : Cycle) (cs : List Cycle) : size (c :: cs) = 1 + c.2.length + size cs := by
  simp [size]

theorem size_append_single (c : Cycle) (cs : List Cycle) : size (cs ++ [c]) = size cs + (1 + c.2.length) := by
  simp [size]

theorem merge_ofStream (i : Nat) (n : Nat) (cs : List Cycle) (w : WF cs) (hn : size cs ≤ n) :
    ofStream i (mergeFuel n cs) = ofStream i (flat cs) := by
  induction n generalizing cs with
  | zero =>
    have : cs = [] := by
      cases cs with
      | nil => rfl
      | cons c cs => rw [size_cons] at hn; omega
    subst this; rfl
  | succ n ih =>
    unfold mergeFuel
    have hp := sortCycles_perm cs
    have ws := wf_perm cs _ hp w
    rw [← ofStream_flat_perm i cs _ hp w]
    have hsz := size_perm cs _ hp
    generalize sortCycles cs = sc at hp ws hsz
    cases sc with
    | nil => rfl
    | cons c tl =>
      obtain ⟨u, rest⟩ := c
      simp only
      have wtl : WF tl := ⟨fun c hc => ws.homog c (List.mem_cons_of_mem _ hc), (List.nodup_cons.mp ws.nodup).2⟩
      have hu_notin : ∀ c ∈ tl, c.1.stream ≠ u.stream := by
        intro c hc e
        have := (List.nodup_cons.mp ws.nodup).1
        exact this (List.mem_map.mpr ⟨c, hc, e⟩)
      have hrest : ∀ x ∈ rest, x.stream = u.stream := fun x hx => ws.homog (u, rest) (by simp) x (by simp [Cycle.items, hx])
      -- the other cycles hold nothing of u's stream
      have htl_u : u.stream = i → ofStream i (flat tl) = [] := by
        intro e
        apply List.filter_eq_nil_iff.mpr
        intro x hx
        simp only [flat, List.mem_flatMap] at hx
        obtain ⟨c, hc, hxc⟩ := hx
        simp only [decide_eq_true_eq]
        rw [wtl.homog c hc x hxc]
        intro e'; exact hu_notin c hc (e'.trans e.symm)
      rw [size_cons] at hsz
      rw [flat_cons, ofStream_append, ofStream_cons]
      show _ = ofStream i (u :: rest) ++ _
      rw [ofStream_cons]
      cases rest with
      | nil =>
        simp only [nextOf, List.append_nil]
        have hsz' : size tl ≤ n := by simp only [List.length_nil] at hsz; omega
        rw [ih tl wtl hsz']
        simp [ofStream]
      | cons v r =>
        have wnext : WF (tl ++ [(v, r)]) := by
          constructor
          · intro c hc x hx
            rcases List.mem_append.mp hc with h | h
            · exact wtl.homog c h x hx
            · simp only [List.mem_singleton] at h; subst h
              simp only [Cycle.items, List.mem_cons] at hx
              rcases hx with e | e
              · subst e; rfl
              · have h1 := hrest x (by simp [e]); have h2 := hrest v (by simp); simp only; rw [h1, h2]
          · rw [List.map_append, List.nodup_append]
            refine ⟨wtl.nodup, by simp, ?_⟩
            intro a ha b hb
            simp only [List.map_cons, List.map_nil, List.mem_singleton] at hb
            obtain ⟨c, hc, rfl⟩ := List.mem_map.mp ha
            rw [hb, hrest v (by simp)]
            exact hu_notin c hc
        have hsz' : size (tl ++ [(v, r)]) ≤ n := by
          rw [size_append_single]; simp only [List.length_cons] at hsz ⊢; omega
        simp only [nextOf]
        rw [ih (tl ++ [(v, r)]) wnext hsz', flat_append, ofStream_append]
        have hlast : flat [(v, r)] = v :: r := by simp [flat, Cycle.items]
        rw [hlast]
        by_cases e : u.stream = i
        · rw [htl_u e]; simp
        · have : ofStream i (v :: r) = [] := ofStream_nil_of_other i (v :: r) u.stream hrest e
          rw [this]; simp [e]

/-- the cycles built from the streams of a group: one per non-empty stream -/
theorem toCycles_flat (i : Nat) (streams : List (List Upd)) :
    ofStream i (flat (toCycles streams)) = ofStream i streams.flatten := by
  induction streams with
  | nil => rfl
  | cons s ss ih =>
    cases s with
    | nil => simpa [toCycles] using ih
    | cons u r =>
      simp only [toCycles, List.filterMap_cons, List.flatten_cons] at ih ⊢
      rw [flat_cons, ofStream_append, ofStream_append, ih]; rfl

/-- streams of a group: stream s only holds updates tagged s, tags are distinct -/
def GroupOk (members : List Stream) : Prop :=
  (∀ s ∈ members, ∀ u ∈ s.updates, u.stream = s.id) ∧ (members.map (·.id)).Nodup

theorem toCycles_wf (members : List Stream) (h : GroupOk members) : WF (toCycles (members.map (·.updates))) := by
  induction members with
  | nil => exact ⟨(by intro c hc; cases hc), (by simp [toCycles])⟩
  | cons s ss ih =>
    have hss : GroupOk ss := ⟨fun t ht => h.1 t (List.mem_cons_of_mem _ ht), (List.nodup_cons.mp h.2).2⟩
    have w := ih hss
    cases hs : s.updates with
    | nil => simpa [toCycles, hs] using w
    | cons u r =>
      have hid : ∀ x ∈ u :: r, x.stream = s.id := fun x hx => h.1 s (by simp) x (by rw [hs]; exact hx)
      simp only [List.map_cons, toCycles, hs, List.filterMap_cons]
      constructor
      · intro c hc x hx
        rcases List.mem_cons.mp hc with e | e
        · subst e; simp only [Cycle.items] at hx; rw [hid x hx, hid u (by simp)]
        · exact w.homog c e x hx
      · rw [List.map_cons, List.nodup_cons]
        refine ⟨?_, w.nodup⟩
        intro hm
        obtain ⟨c, hc, hce⟩ := List.mem_map.mp hm
        -- c comes from some stream t ∈ ss with id = c.1.stream = s.id
        simp only [toCycles, List.mem_filterMap, List.mem_map] at hc
        obtain ⟨l, ⟨t, ht, rfl⟩, hl⟩ := hc
        cases htu : t.updates with
        | nil => simp [htu] at hl
        | cons a b =>
          simp only [htu, Option.some.injEq] at hl
          subst hl
          have : a.stream = t.id := hss.1 t ht a (by rw [htu]; simp)
          have hst : t.id = s.id := by rw [← this]; simpa using hce.trans (hid u (by simp))
          exact (List.nodup_cons.mp h.2).1 (List.mem_map.mpr ⟨t, ht, hst⟩)

/-- C14.1+2 for a merged event group: stream by stream, the merged sequence holds exactly that
    stream's updates, in the stream's own order -/
theorem mergeGroup_stream (members : List Stream) (h : GroupOk members) (s : Stream) (hs : s ∈ members) :
    ofStream s.id (mergeGroup (members.map (·.updates))) = s.updates := by
  unfold mergeGroup
  rw [merge_ofStream s.id _ _ (toCycles_wf members h) (Nat.le_refl _), toCycles_flat]
  -- flatten of all members filtered by s.id is s.updates
  have : ∀ (ms : List Stream), GroupOk ms → s ∈ ms → ofStream s.id (ms.map (·.updates)).flatten = s.updates := by
    intro ms
    induction ms with
    | nil => intro _ h; cases h
    | cons t ts ih =>
      intro hg hm
      have hts : GroupOk ts := ⟨fun x hx => hg.1 x (List.mem_cons_of_mem _ hx), (List.nodup_cons.mp hg.2).2⟩
      simp only [List.map_cons, List.flatten_cons, ofStream_append]
      rcases List.mem_cons.mp hm with e | e
      · subst e
        have h1 : ofStream s.id s.updates = s.updates := by
          apply List.filter_eq_self.mpr; intro u hu; simpa using hg.1 s (by simp) u hu
        have h2 : ofStream s.id (ts.map (·.updates)).flatten = [] := by
          apply List.filter_eq_nil_iff.mpr
          intro u hu
          obtain ⟨l, hl, hul⟩ := List.mem_flatten.mp hu
          obtain ⟨t, ht, rfl⟩ := List.mem_map.mp hl
          simp only [decide_eq_true_eq]
          rw [hts.1 t ht u hul]
          intro e; exact (List.nodup_cons.mp hg.2).1 (List.mem_map.mpr ⟨t, ht, e⟩)
        rw [h1, h2]; simp
      · have h1 : ofStream s.id t.updates = [] := by
          apply List.filter_eq_nil_iff.mpr
          intro u hu; simp only [decide_eq_true_eq]; rw [hg.1 t (by simp) u hu]
          intro e'; exact (List.nodup_cons.mp hg.2).1 (List.mem_map.mpr ⟨s, e, e'.symm⟩)
        rw [h1, ih hts e]; rfl
  exact this members h hs


/-! ### C14.3 chronological order -/

def Sorted (l : List Upd) : Prop := l.Pairwise fun a b => a.pt ≤ b.pt

def HeadsSorted (cs : List Cycle) : Prop := cs.Pairwise fun a b => a.1.pt ≤ b.1.pt

theorem insCycle_heads (c : Cycle) (acc : List Cycle) (h : HeadsSorted acc) : HeadsSorted (insCycle c acc) := by
  induction acc with
  | nil => simp [insCycle, HeadsSorted]
  | cons x xs ih =>
    unfold insCycle
    have hx := List.pairwise_cons.mp h
    split
    · rename_i hle
      refine List.pairwise_cons.mpr ⟨?_, ih hx.2⟩
      intro y hy
      rcases List.mem_cons.mp ((insCycle_perm c xs).subset hy) with e | e
      · subst e; exact hle
      · exact hx.1 y e
    · rename_i hgt
      have hlt : c.1.pt ≤ x.1.pt := by omega
      refine List.pairwise_cons.mpr ⟨?_, h⟩
      intro y hy
      rcases List.mem_cons.mp hy with e | e
      · subst e; exact hlt
      · exact Int.le_trans hlt (hx.1 y e)

theorem sortCycles_heads (cs : List Cycle) : HeadsSorted (sortCycles cs) := by
  unfold sortCycles
  have : ∀ (acc : List Cycle), HeadsSorted acc → HeadsSorted (cs.foldl (fun a c => insCycle c a) acc) := by
    induction cs with
    | nil => intro acc h; exact h
    | cons c cs ih => intro acc h; exact ih _ (insCycle_heads c acc h)
  exact this [] List.Pairwise.nil

theorem mem_mergeFuel (n : Nat) (cs : List Cycle) (x : Upd) (h : x ∈ mergeFuel n cs) : x ∈ flat cs := by
  induction n generalizing cs with
  | zero => simp [mergeFuel] at h
  | succ n ih =>
    unfold mergeFuel at h
    have hp := sortCycles_perm cs
    generalize sortCycles cs = sc at hp h
    cases sc with
    | nil => simp at h
    | cons c tl =>
      obtain ⟨u, rest⟩ := c
      simp only at h
      have hsub : ∀ y, y ∈ flat ((u, rest) :: tl) → y ∈ flat cs := by
        intro y hy
        simp only [flat, List.mem_flatMap] at hy ⊢
        obtain ⟨c, hc, hyc⟩ := hy
        exact ⟨c, hp.subset hc, hyc⟩
      rcases List.mem_cons.mp h with e | e
      · subst e; exact hsub _ (by simp [flat, Cycle.items])
      · have := ih _ e
        apply hsub
        rw [flat_append] at this
        rw [flat_cons]
        rcases List.mem_append.mp this with m | m
        · exact List.mem_append_right _ m
        · apply List.mem_append_left
          cases rest with
          | nil => simp [flat, nextOf] at m
          | cons v r => simp only [nextOf, flat, List.flatMap_cons, List.flatMap_nil, List.append_nil, Cycle.items] at m ⊢
                        exact List.mem_cons_of_mem _ m

/-- if every stream is in publish-time order, so is the merged sequence -/
theorem merge_sorted (n : Nat) (cs : List Cycle) (h : ∀ c ∈ cs, Sorted (Cycle.items c)) : Sorted (mergeFuel n cs) := by
  induction n generalizing cs with
  | zero => exact List.Pairwise.nil
  | succ n ih =>
    unfold mergeFuel
    have hp := sortCycles_perm cs
    have hh := sortCycles_heads cs
    generalize sortCycles cs = sc at hp hh
    cases sc with
    | nil => exact List.Pairwise.nil
    | cons c tl =>
      obtain ⟨u, rest⟩ := c
      simp only
      have hsorted : ∀ c ∈ (u, rest) :: tl, Sorted (Cycle.items c) := fun c hc => h c (hp.subset hc)
      have hur := hsorted (u, rest) (by simp)
      have hheads := List.pairwise_cons.mp hh
      -- every update still to come is not earlier than u
      have hmin : ∀ y ∈ flat (tl ++ nextOf rest), u.pt ≤ y.pt := by
        intro y hy
        rw [flat_append] at hy
        rcases List.mem_append.mp hy with m | m
        · simp only [flat, List.mem_flatMap] at m
          obtain ⟨c, hc, hyc⟩ := m
          have h1 : u.pt ≤ c.1.pt := hheads.1 c hc
          have h2 := hsorted c (List.mem_cons_of_mem _ hc)
          simp only [Cycle.items] at hyc h2
          rcases List.mem_cons.mp hyc with e | e
          · subst e; exact h1
          · exact Int.le_trans h1 ((List.pairwise_cons.mp h2).1 y e)
        · cases rest with
          | nil => simp [flat, nextOf] at m
          | cons v r =>
            simp only [nextOf, flat, List.flatMap_cons, List.flatMap_nil, List.append_nil, Cycle.items] at m
            simp only [Cycle.items] at hur
            exact (List.pairwise_cons.mp hur).1 y m
      refine List.pairwise_cons.mpr ⟨fun y hy => hmin y (mem_mergeFuel n _ y hy), ?_⟩
      apply ih
      intro c hc
      rcases List.mem_append.mp hc with m | m
      · exact hsorted c (List.mem_cons_of_mem _ m)
      · cases rest with
        | nil => exact absurd m (by simp [nextOf])
        | cons v r =>
          simp only [nextOf, List.mem_singleton] at m; subst m
          simp only [Cycle.items] at hur ⊢
          exact (List.pairwise_cons.mp hur).2

theorem mergeGroup_sorted (streams : List (List Upd)) (h : ∀ s ∈ streams, Sorted s) : Sorted (mergeGroup streams) := by
  unfold mergeGroup
  apply merge_sorted
  intro c hc
  simp only [toCycles, List.mem_filterMap] at hc
  obtain ⟨s, hs, hsc⟩ := hc
  cases s with
  | nil => simp at hsc
  | cons u r => simp only [Option.some.injEq] at hsc; subst hsc; exact h _ hs

/-! ### the whole run: every stream's updates exactly once and in order, whatever the grouping -/

theorem dedupFirst_mem (l : List (Option Nat)) (x : Option Nat) : x ∈ dedupFirst l ↔ x ∈ l := by
  induction l with
  | nil => simp [dedupFirst]
  | cons y ys ih =>
    simp only [dedupFirst, List.mem_cons, List.mem_filter, ih]
    constructor
    · rintro (e | ⟨h, _⟩)
      · exact Or.inl e
      · exact Or.inr h
    · intro h
      by_cases e : x = y
      · exact Or.inl e
      · rcases h with h | h
        · exact Or.inl h
        · exact Or.inr ⟨h, by simpa using e⟩

theorem dedupFirst_nodup (l : List (Option Nat)) : (dedupFirst l).Nodup := by
  induction l with
  | nil => simp [dedupFirst]
  | cons y ys ih =>
    simp only [dedupFirst, List.nodup_cons, List.mem_filter]
    exact ⟨by simp, ih.filter _⟩

/-- a group's output only holds updates of its members -/
theorem processGroup_mem (k : Option Nat) (members : List Stream) (x : Upd) (h : x ∈ processGroup k members) :
    ∃ s ∈ members, x ∈ s.updates := by
  unfold processGroup at h
  split at h
  · unfold mergeGroup at h
    have := mem_mergeFuel _ _ x h
    simp only [flat, List.mem_flatMap, toCycles, List.mem_filterMap, List.mem_map] at this
    obtain ⟨c, ⟨l, ⟨s, hs, rfl⟩, hl⟩, hxc⟩ := this
    refine ⟨s, hs, ?_⟩
    cases hu : s.updates with
    | nil => simp [hu] at hl
    | cons a b => simp only [hu, Option.some.injEq] at hl; subst hl; simpa [Cycle.items] using hxc
  · obtain ⟨s, hs, hx⟩ := List.mem_flatMap.mp h
    exact ⟨s, hs, hx⟩

theorem processGroup_stream (k : Option Nat) (members : List Stream) (hg : GroupOk members) (s : Stream) (hs : s ∈ members) :
    ofStream s.id (processGroup k members) = s.updates := by
  unfold processGroup
  split
  · exact mergeGroup_stream members hg s hs
  · -- sequential processing: the streams one after the other
    have : ∀ (ms : List Stream), GroupOk ms → s ∈ ms → ofStream s.id (ms.flatMap (·.updates)) = s.updates := by
      intro ms
      induction ms with
      | nil => intro _ h; cases h
      | cons t ts ih =>
        intro hg' hm
        have hts : GroupOk ts := ⟨fun x hx => hg'.1 x (List.mem_cons_of_mem _ hx), (List.nodup_cons.mp hg'.2).2⟩
        rw [List.flatMap_cons, ofStream_append]
        rcases List.mem_cons.mp hm with e | e
        · subst e
          have h1 : ofStream s.id s.updates = s.updates := by
            apply List.filter_eq_self.mpr; intro u hu; simpa using hg'.1 s (by simp) u hu
          have h2 : ofStream s.id (ts.flatMap (·.updates)) = [] := by
            apply List.filter_eq_nil_iff.mpr
            intro u hu
            obtain ⟨t, ht, hut⟩ := List.mem_flatMap.mp hu
            simp only [decide_eq_true_eq]
            rw [hts.1 t ht u hut]
            intro e; exact (List.nodup_cons.mp hg'.2).1 (List.mem_map.mpr ⟨t, ht, e⟩)
          rw [h1, h2]; simp
        · have h1 : ofStream s.id t.updates = [] := by
            apply List.filter_eq_nil_iff.mpr
            intro u hu; simp only [decide_eq_true_eq]; rw [hg'.1 t (by simp) u hu]
            intro e'; exact (List.nodup_cons.mp hg'.2).1 (List.mem_map.mpr ⟨s, e, e'.symm⟩)
          rw [h1, ih hts e]; rfl
    exact this members hg hs

theorem groupOk_filter (ss : List Stream) (h : GroupOk ss) (p : Stream → Bool) : GroupOk (ss.filter p) :=
  ⟨fun s hs => h.1 s (List.mem_filter.mp hs).1, (h.2.sublist ((List.filter_sublist).map _))⟩

/-- C14.1+2 for the whole run: with event processing or without, whatever the event groups, every
    stream's (filtered) updates are delivered exactly once and in the stream's own order -/
theorem runSeq_stream (ss : List Stream) (h : GroupOk ss) (s : Stream) (hs : s ∈ ss) :
    ofStream s.id (runSeq ss) = s.updates := by
  unfold runSeq
  have hk : s.group ∈ groupKeys ss := (dedupFirst_mem _ _).mpr (List.mem_map.mpr ⟨s, hs, rfl⟩)
  have hnd : (groupKeys ss).Nodup := dedupFirst_nodup _
  generalize groupKeys ss = keys at hk hnd
  induction keys with
  | nil => cases hk
  | cons k ks ih =>
    rw [List.flatMap_cons, ofStream_append]
    have hnd' := List.nodup_cons.mp hnd
    by_cases e : k = s.group
    · subst e
      have hmem : s ∈ ss.filter (fun t => t.group = s.group) := List.mem_filter.mpr ⟨hs, by simp⟩
      rw [processGroup_stream _ _ (groupOk_filter ss h _) s hmem]
      -- the other groups hold nothing of s
      have : ofStream s.id (ks.flatMap fun k => processGroup k (ss.filter (fun t => t.group = k))) = [] := by
        apply List.filter_eq_nil_iff.mpr
        intro x hx
        obtain ⟨k', hk', hxk⟩ := List.mem_flatMap.mp hx
        obtain ⟨t, ht, hxt⟩ := processGroup_mem _ _ x hxk
        have htf := List.mem_filter.mp ht
        simp only [decide_eq_true_eq]
        rw [h.1 t htf.1 x hxt]
        intro eid
        -- t and s have the same id, hence are the same stream position: same group
        have hts : t = s := by
          have hinj : ∀ (l : List Stream), (l.map (·.id)).Nodup → t ∈ l → s ∈ l → t.id = s.id → t = s := by
            intro l
            induction l with
            | nil => intro _ h1; cases h1
            | cons a as iha =>
              intro hn h1 h2 he
              have hn' := List.nodup_cons.mp hn
              rcases List.mem_cons.mp h1 with e1 | e1 <;> rcases List.mem_cons.mp h2 with e2 | e2
              · rw [e1, e2]
              · subst e1; exact absurd (List.mem_map.mpr ⟨s, e2, he.symm⟩) hn'.1
              · subst e2; exact absurd (List.mem_map.mpr ⟨t, e1, he⟩) hn'.1
              · exact iha hn'.2 e1 e2 he
          exact hinj ss h.2 htf.1 hs eid
        have : k' = s.group := by rw [← hts]; exact (by simpa using htf.2 : t.group = k').symm
        exact hnd'.1 (this ▸ hk')
      rw [this]; simp
    · have hk2 : s.group ∈ ks := by
        rcases List.mem_cons.mp hk with e' | e'
        · exact absurd e'.symm e
        · exact e'
      have : ofStream s.id (processGroup k (ss.filter (fun t => t.group = k))) = [] := by
        apply List.filter_eq_nil_iff.mpr
        intro x hx
        obtain ⟨t, ht, hxt⟩ := processGroup_mem _ _ x hx
        have htf := List.mem_filter.mp ht
        simp only [decide_eq_true_eq]
        rw [h.1 t htf.1 x hxt]
        intro eid
        have hinj : ∀ (l : List Stream), (l.map (·.id)).Nodup → t ∈ l → s ∈ l → t.id = s.id → t = s := by
          intro l
          induction l with
          | nil => intro _ h1; cases h1
          | cons a as iha =>
            intro hn h1 h2 he
            have hn' := List.nodup_cons.mp hn
            rcases List.mem_cons.mp h1 with e1 | e1 <;> rcases List.mem_cons.mp h2 with e2 | e2
            · rw [e1, e2]
            · subst e1; exact absurd (List.mem_map.mpr ⟨s, e2, he.symm⟩) hn'.1
            · subst e2; exact absurd (List.mem_map.mpr ⟨t, e1, he⟩) hn'.1
            · exact iha hn'.2 e1 e2 he
        have hts := hinj ss h.2 htf.1 hs eid
        apply e
        rw [← hts]; exact (by simpa using htf.2 : t.group = k).symm
      rw [this, List.nil_append]
      exact ih hk2 hnd'.2

/-! ### C14.4 the listener filter -/

/-- closed / suspended updates always pass -/
theorem not_open_passes (cfg : ListenerCfg) (st : FState) (u : RawUpd) (h : u.status ≠ .open_) : (filterStep cfg st u).2 = true := by
  unfold filterStep; simp [h]

/-- without listener arguments every update passes -/
theorem no_filter_passes (st : FState) (u : RawUpd) : (filterStep {} st u).2 = true := by
  unfold filterStep; simp

/-- `inplay=True`: an OPEN update passes iff the market is in play (and, with max_inplay_seconds, not too long) -/
theorem inplay_only (st : FState) (u : RawUpd) (h : u.status = .open_) :
    (filterStep { inplay := some true } st u).2 = u.inPlay := by
  unfold filterStep; simp [h]

/-- `seconds_to_start = s`: an OPEN update passes iff it is at most s seconds before the off -/
theorem seconds_to_start_exact (s : Nat) (hs : s ≠ 0) (st : FState) (u : RawUpd) (h : u.status = .open_) :
    (filterStep { secondsToStart := some s } st u).2 = decide (u.marketTime - u.pt ≤ (s : Int) * 1000) := by
  unfold filterStep; simp [h, hs]

/-- what is yielded is a sub-sequence of the file: nothing is invented, duplicated or reordered -/
theorem filterRun_sublist (cfg : ListenerCfg) (st : FState) (us : List RawUpd) : (filterRun cfg st us).Sublist us := by
  induction us generalizing st with
  | nil => exact List.Sublist.slnil
  | cons u us ih =>
    unfold filterRun
    simp only
    split
    · exact (ih _).cons₂ u
    · exact (ih _).cons u

theorem filterRun_all (st : FState) (us : List RawUpd) : filterRun {} st us = us := by
  induction us generalizing st with
  | nil => rfl
  | cons u us ih =>
    unfold filterRun
    simp only [no_filter_passes, if_true, ih]

/-! ### non-vacuity -/

example : mergeGroup [[⟨1, 10, 0⟩, ⟨1, 30, 1⟩], [⟨2, 10, 0⟩, ⟨2, 20, 1⟩], []] =
    [⟨1, 10, 0⟩, ⟨2, 10, 0⟩, ⟨2, 20, 1⟩, ⟨1, 30, 1⟩] := by decide +kernel

end Flumine.C14
