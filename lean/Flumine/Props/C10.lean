/-
  C10 — Trade and runner accounting follows the real state of the orders.
  Model: World.lean — RunnerCtx.place / reset, tradeComplete / completeTrade / tradeUpdateStatus,
  orderUpdateStatus and the status setters, validateOrderCtx (`BaseStrategy.validate_order`).
-/
import Flumine.World
import Flumine.Txn
import Mathlib.Tactic.Linarith
namespace Flumine.C10
open Flumine Flumine.World

/-! ### runner context bookkeeping -/

/-- the context's lists hold each trade at most once -/
def CtxOk (c : RunnerCtx) : Prop := c.trades.Nodup ∧ c.liveTrades.Nodup

theorem place_ok (c : RunnerCtx) (now : Time) (t : Nat) (h : CtxOk c) : CtxOk (c.place now t) := by
  unfold RunnerCtx.place CtxOk
  constructor
  · show (if c.trades.contains t then c.trades else c.trades ++ [t]).Nodup
    split_ifs with hc
    · exact h.1
    · refine List.nodup_append.mpr ⟨h.1, by simp, ?_⟩
      intro a ha b hb; simp at hb; subst hb
      intro e; subst e; exact hc (List.contains_iff_mem.mpr ha)
  · show (if c.liveTrades.contains t then c.liveTrades else c.liveTrades ++ [t]).Nodup
    split_ifs with hc
    · exact h.2
    · refine List.nodup_append.mpr ⟨h.2, by simp, ?_⟩
      intro a ha b hb; simp at hb; subst hb
      intro e; subst e; exact hc (List.contains_iff_mem.mpr ha)

/-- C10 placing charges the trade: afterwards it is in `trades` and in `live_trades`, nothing else
    changes and nothing is ever removed by a placement -/
theorem place_spec (c : RunnerCtx) (now : Time) (t : Nat) :
    t ∈ (c.place now t).trades ∧ t ∈ (c.place now t).liveTrades ∧
    (∀ x, x ∈ (c.place now t).trades ↔ x = t ∨ x ∈ c.trades) ∧
    (∀ x, x ∈ (c.place now t).liveTrades ↔ x = t ∨ x ∈ c.liveTrades) ∧
    (c.place now t).lastPlaced = some now := by
  have key : ∀ (l : List Nat), ∀ x, x ∈ (if l.contains t then l else l ++ [t]) ↔ x = t ∨ x ∈ l := by
    intro l x
    split_ifs with hc
    · constructor
      · intro h; exact Or.inr h
      · rintro (rfl | h)
        · exact List.contains_iff_mem.mp hc
        · exact h
    · simp [List.mem_append]; tauto
  refine ⟨(key c.trades t).mpr (Or.inl rfl), (key c.liveTrades t).mpr (Or.inl rfl), key c.trades, key c.liveTrades, rfl⟩

theorem place_counts (c : RunnerCtx) (now : Time) (t : Nat) :
    (c.place now t).trades.length = (if c.trades.contains t then c.trades.length else c.trades.length + 1) ∧
    (c.place now t).liveTrades.length =
      (if c.liveTrades.contains t then c.liveTrades.length else c.liveTrades.length + 1) := by
  unfold RunnerCtx.place
  constructor
  · show (if c.trades.contains t then c.trades else c.trades ++ [t]).length = _
    split_ifs <;> simp
  · show (if c.liveTrades.contains t then c.liveTrades else c.liveTrades ++ [t]).length = _
    split_ifs <;> simp

/-- C10 a reset frees exactly that trade's slot: it leaves `live_trades`, every other live trade
    stays, `trades` (the count of distinct trades placed) is untouched -/
theorem reset_spec (c : RunnerCtx) (now : Time) (t : Nat) (h : CtxOk c) :
    t ∉ (c.reset now t).liveTrades ∧
    (∀ x, x ≠ t → (x ∈ (c.reset now t).liveTrades ↔ x ∈ c.liveTrades)) ∧
    (c.reset now t).trades = c.trades ∧ CtxOk (c.reset now t) := by
  unfold RunnerCtx.reset
  by_cases hc : c.liveTrades.contains t = true
  · rw [if_pos hc]
    refine ⟨?_, ?_, rfl, ⟨h.1, ?_⟩⟩
    · show t ∉ c.liveTrades.erase t
      exact fun hm => (List.Nodup.mem_erase_iff h.2).mp hm |>.1 rfl
    · intro x hx
      show x ∈ c.liveTrades.erase t ↔ x ∈ c.liveTrades
      rw [List.Nodup.mem_erase_iff h.2]; tauto
    · show (c.liveTrades.erase t).Nodup
      exact h.2.erase t
  · rw [if_neg hc]
    have : t ∉ c.liveTrades := fun hm => hc (List.contains_iff_mem.mpr hm)
    exact ⟨this, fun x _ => Iff.rfl, rfl, h⟩

/-! ### limits -/

/-- C10.3 an unforced placement that `validate_order` lets through (outside the multi-order
    shortcut) keeps the runner within both limits once the trade is charged -/
theorem limits_respected (w : World) (s : Strategy) (o : Order)
    (hok : w.validateOrderCtx s o = none)
    (hshort : ¬ (s.multiOrder = true ∧ (w.ctx ⟨o.strategy, o.market, o.sel, o.hc⟩).liveTrades.contains (w.trade! o.trade).id = true)) :
    ((w.ctx ⟨o.strategy, o.market, o.sel, o.hc⟩).place w.clock (w.trade! o.trade).id).trades.length ≤ s.maxTrade ∧
    ((w.ctx ⟨o.strategy, o.market, o.sel, o.hc⟩).place w.clock (w.trade! o.trade).id).liveTrades.length ≤ s.maxLive := by
  unfold validateOrderCtx at hok
  simp only at hok
  have hs : (s.multiOrder && (w.ctx ⟨o.strategy, o.market, o.sel, o.hc⟩).liveTrades.contains (w.trade! o.trade).id) = false := by
    cases hm : s.multiOrder <;> simp_all
  rw [hs] at hok
  simp only [Bool.false_eq_true, if_false] at hok
  split_ifs at hok with h1 h2 h3 h4
  obtain ⟨p1, p2⟩ := place_counts (w.ctx ⟨o.strategy, o.market, o.sel, o.hc⟩) w.clock (w.trade! o.trade).id
  rw [p1, p2]
  push_neg at h3 h4
  constructor
  · split_ifs with hc
    · omega
    · have := h3.1
      by_contra hgt
      have heq : (w.ctx ⟨o.strategy, o.market, o.sel, o.hc⟩).trades.length = s.maxTrade := by omega
      have := this heq
      simp_all
  · split_ifs with hc
    · omega
    · have := h4.1
      by_contra hgt
      have heq : (w.ctx ⟨o.strategy, o.market, o.sel, o.hc⟩).liveTrades.length = s.maxLive := by omega
      have := this heq
      simp_all

/-- C10.3 (cool-downs) an unforced placement that `validate_order` lets through (outside the multi-order
    shortcut) is outside both cool-down windows: at least `reset_seconds` have passed on the clock since
    the last completed trade on the runner and at least `place_reset_seconds` since the last placement.
    No exception at an elapsed time of exactly zero - a trade that completes at an update and a placement
    in the callback of that same update - since fix F25 (before it the guard was a truthiness test and the
    statement needed the hypothesis `elapsed ≠ 0`). -/
theorem cool_downs_respected (w : World) (s : Strategy) (o : Order)
    (hok : w.validateOrderCtx s o = none)
    (hshort : ¬ (s.multiOrder = true ∧ (w.ctx ⟨o.strategy, o.market, o.sel, o.hc⟩).liveTrades.contains (w.trade! o.trade).id = true)) :
    (∀ r, (w.ctx ⟨o.strategy, o.market, o.sel, o.hc⟩).lastReset = some r →
        (w.trade! o.trade).resetSeconds ≤ elapsedSeconds w.clock r) ∧
    (∀ p, (w.ctx ⟨o.strategy, o.market, o.sel, o.hc⟩).lastPlaced = some p →
        (w.trade! o.trade).placeResetSeconds ≤ elapsedSeconds w.clock p) := by
  unfold validateOrderCtx at hok
  simp only at hok
  have hs : (s.multiOrder && (w.ctx ⟨o.strategy, o.market, o.sel, o.hc⟩).liveTrades.contains (w.trade! o.trade).id) = false := by
    cases hm : s.multiOrder <;> simp_all
  rw [hs] at hok
  simp only [Bool.false_eq_true, if_false] at hok
  split_ifs at hok with h1 h2 h3 h4
  constructor
  · intro r hr
    rw [hr] at h1
    simp only [Option.map_some, decide_eq_true_eq] at h1
    exact Rat.not_lt.mp h1
  · intro p hp
    rw [hp] at h2
    simp only [Option.map_some, decide_eq_true_eq] at h2
    exact Rat.not_lt.mp h2

/-- C10.3 (converse: no lock-out by a cool-down) a placement refused with the reason `reset_elapsed_seconds` really is inside
    the window after a completed trade -/
theorem cool_down_refusal_is_inside (w : World) (s : Strategy) (o : Order)
    (h : w.validateOrderCtx s o = some "reset_elapsed_seconds") :
    ∃ r, (w.ctx ⟨o.strategy, o.market, o.sel, o.hc⟩).lastReset = some r ∧
      elapsedSeconds w.clock r < (w.trade! o.trade).resetSeconds := by
  unfold validateOrderCtx at h
  simp only at h
  split_ifs at h with h0 h1 h2 h3 h4
  · cases hr : (w.ctx ⟨o.strategy, o.market, o.sel, o.hc⟩).lastReset with
    | none => rw [hr] at h1; simp at h1
    | some r =>
      rw [hr] at h1
      simp only [Option.map_some, decide_eq_true_eq] at h1
      exact ⟨r, rfl, h1⟩
  all_goals (exact absurd h (by decide))

/-- the premises are met by a state inside a cool-down's complement and the conclusion is not vacuous: a runner whose last
    trade completed 30 s ago accepts a trade with `reset_seconds = 30`, and refuses it at 0 s and at 0.5 s -/
def wCool (now : Time) : World :=
  { clock := now,
    strategies := [{ id := 0 }],
    trades := [{ id := 0, strategy := 0, market := 0, sel := 1, hc := 0, resetSeconds := 30 }],
    ctxs := [{ key := ⟨0, 0, 1, 0⟩, trades := [7], lastReset := some 1000, lastPlaced := some 500 }] }

def oCool : Order := { id := 0, trade := 0, strategy := 0, market := 0, sel := 1, hc := 0, sim := { side := .back, kind := .limit, price := 2, size := 4 } }

example : (wCool 31000).validateOrderCtx { id := 0 } oCool = none := by decide +kernel
example : (wCool 1000).validateOrderCtx { id := 0 } oCool = some "reset_elapsed_seconds" := by decide +kernel
example : (wCool 1500).validateOrderCtx { id := 0 } oCool = some "reset_elapsed_seconds" := by decide +kernel

/-! ### trade completion -/

/-- C10.2 `Trade.complete` is true exactly when the trade is LIVE, not flagged pending_orders and
    every one of its orders is complete -/
theorem tradeComplete_iff (w : World) (t : Trade) :
    w.tradeComplete t = true ↔
      (t.status = .live ∧ t.pendingOrders = false ∧ ∀ oid ∈ t.orders, (w.order! oid).complete = true) := by
  unfold tradeComplete
  simp [Bool.and_eq_true, List.all_eq_true]
  tauto

/-- never while one of its orders is still live -/
theorem no_complete_with_live_order (w : World) (t : Trade) (oid : Nat) (hm : oid ∈ t.orders)
    (hl : (w.order! oid).complete = false) : w.tradeComplete t = false := by
  by_contra h
  have h' : w.tradeComplete t = true := by simpa using h
  have := ((tradeComplete_iff w t).mp h').2.2 oid hm
  rw [hl] at this; exact Bool.false_ne_true this

/-- the status log of a trade only gains COMPLETE through `complete_trade` -/
theorem tradeUpdateStatus_log (w : World) (tid : Nat) (s : TradeStatus) (hs : s ≠ .complete)
    (hex : (w.trade? tid).isSome) :
    let t := w.trade! tid
    let t' := { t with status := s, log := t.log ++ [s] }
    (w.tradeUpdateStatus tid s) =
      if (w.setTrade t').tradeComplete t' then (w.setTrade t').completeTrade tid else w.setTrade t' := rfl

/-- C10.2/F4 finality: `executable()` on a completed order changes neither its status nor its log
    (a late FAILURE / TIMEOUT report or a package reset cannot re-open it and so cannot re-open its trade) -/
theorem executable_on_complete_noop (w : World) (oid : Nat) (hc : (w.order! oid).complete = true) :
    w.orderExecutable oid = w.modifyOrder oid fun o => { o with ud := {} } := by
  unfold orderExecutable; simp [hc]

/-- statuses that count as complete / live, from the regenerated lists of order.py -/
theorem complete_statuses : Gen.orderCompleteStatus = [.executionComplete, .expired, .violation] := by decide
theorem live_statuses : Gen.orderLiveStatus = [.pending, .cancelling, .updating, .replacing, .executable] := by decide

theorem statusComplete_table :
    statusComplete .executionComplete = true ∧ statusComplete .expired = true ∧ statusComplete .violation = true ∧
    statusComplete .pending = false ∧ statusComplete .executable = false ∧ statusComplete .cancelling = false ∧
    statusComplete .updating = false ∧ statusComplete .replacing = false := by decide

/-! ### F2 (fixed) / F10: a refused request on a live order -/

def w0 : World :=
  { clock := 5,
    orders := [{ id := 0, trade := 0, strategy := 0, market := 1, sel := 7, client := some 0, status := some .executable,
                 log := [.pending, .executable], betId := some 1, inBlotter := true,
                 sim := { side := .back, kind := .limit, price := 2, size := 4 } }],
    trades := [{ id := 0, strategy := 0, market := 1, sel := 7, orders := [0], log := [.pending, .live] }],
    ctxs := [{ key := ⟨0, 1, 7, 0⟩, trades := [0], liveTrades := [0] }] }

/-- fix 0b9ab18: a control refusing a request on an order that is at the exchange leaves it alone (before
    the fix the order was marked VIOLATION, counted as complete, and - a VIOLATION never completes a
    trade - the runner slot stayed taken for ever) -/
theorem violation_on_sent_order_noop (w : World) (oid : Nat) (msg : String) (s : Status)
    (h : (w.order! oid).status = some s) (hs : s ≠ .violation) : w.orderViolation oid msg = w := by
  unfold orderViolation
  rw [if_pos]
  rw [h]; exact ⟨rfl, by intro e; exact hs (Option.some.inj e)⟩

theorem no_lockout_witness :
    let w := w0.orderViolation 0 "refused cancel"
    (w.order! 0).complete = false ∧ (w.order! 0).status = some .executable ∧ (w.ctx ⟨0, 1, 7, 0⟩).liveTrades = [0] := by
  decide +kernel

/-- `no_lockout_partial`: when the completing status is not VIOLATION the slot is freed -/
theorem no_lockout_partial :
    let w := w0.orderExecutionComplete 0
    (w.order! 0).complete = true ∧ (w.ctx ⟨0, 1, 7, 0⟩).liveTrades = [] ∧ (w.trade! 0).status = .complete := by
  decide +kernel

end Flumine.C10
