/-
  C11 — Order-stream reconciliation converges on the exchange's view.
  Model: Flumine.Live.processCurrent (process_current_order), the place response handler, and
  Flumine.Ref.processCurrent (lookup by reference / adoption of unknown orders, proved in C19).
-/
import Flumine.Live
import Flumine.Props.C19
namespace Flumine.C11
open Flumine Flumine.Live

def snapComplete (s : Snap) : Bool := s.status = .executionComplete || s.status = .expired

theorem setStatus_fields (o : LOrder) (st : Status) :
    (setStatus o st).cur = o.cur ∧ (setStatus o st).betId = o.betId ∧ (setStatus o st).async = o.async := ⟨rfl, rfl, rfl⟩

theorem executable_fields (o : LOrder) : (executable o).cur = o.cur ∧ (executable o).betId = o.betId := by
  unfold executable; split <;> exact ⟨rfl, rfl⟩

theorem followStatus_fields (o : LOrder) (s : Snap) : (followStatus o s).cur = o.cur ∧ (followStatus o s).betId = o.betId := by
  unfold followStatus
  split
  · split
    · exact executable_fields o
    · split
      · exact ⟨rfl, rfl⟩
      · exact ⟨rfl, rfl⟩
  · split
    · split
      · exact ⟨rfl, rfl⟩
      · exact ⟨rfl, rfl⟩
    · exact ⟨rfl, rfl⟩

/-- the snapshot is stored as the order's current order: every size the order reports afterwards is the exchange's -/
theorem snapshot_stored (o : LOrder) (s : Snap) : (processCurrent o s).cur = some s := by
  unfold processCurrent; rw [(followStatus_fields _ s).1]; rfl

theorem sizes_agree (o : LOrder) (s : Snap) : sizeRemaining (processCurrent o s) = s.sizeRemaining := by
  unfold sizeRemaining; rw [snapshot_stored]

/-- bet id: an asynchronous order without bet id picks it up from the stream; otherwise it is kept -/
theorem betid_pickup (o : LOrder) (s : Snap) :
    (processCurrent o s).betId = (if o.async ∧ o.betId.isNone then some s.betId else o.betId) := by
  unfold processCurrent; rw [(followStatus_fields _ s).2]; rfl

/-- C11 (agreement): a snapshot processed while nothing is outstanding - the order is acknowledged and
    resting (EXECUTABLE), or pending with its bet id known (or asynchronous: the id comes with the
    snapshot) - makes the order complete exactly when the exchange says so -/
theorem completeness_agrees (o : LOrder) (s : Snap) (hs : s.status = .executable ∨ s.status = .executionComplete ∨ s.status = .expired)
    (ho : (o.status = some .executable ∧ o.complete = false) ∨ (o.status = some .pending ∧ o.complete = false ∧ (o.betId.isSome ∨ o.async = true))) :
    (processCurrent o s).complete = snapComplete s := by
  unfold processCurrent
  have hst : (pickup o s).status = o.status := rfl
  have hcp : (pickup o s).complete = o.complete := rfl
  rcases ho with ⟨h1, h2⟩ | ⟨h1, h2, h3⟩
  · unfold followStatus
    rw [hst, h1]
    simp only [reduceCtorEq, and_false, if_false, if_true]
    rcases hs with e | e | e
    · simp [e, snapComplete, hcp, h2]
    · simp [e, snapComplete, executionComplete, setStatus, isCompleteStatus]
    · simp [e, snapComplete, executionComplete, setStatus, isCompleteStatus]
  · have hb : (pickup o s).betId.isSome = true := by
      unfold pickup
      simp only
      by_cases h : o.async = true ∧ o.betId.isNone = true
      · rw [if_pos h]; rfl
      · rw [if_neg h]
        rcases h3 with h3 | h3
        · exact h3
        · cases hbb : o.betId with
          | some b => rfl
          | none => exact absurd ⟨h3, by rw [hbb]; rfl⟩ h
    unfold followStatus
    rw [hst, h1, hb]
    simp only [and_self, if_true]
    rcases hs with e | e | e
    · simp [e, snapComplete, executable, hcp, h2, setStatus, isCompleteStatus]
    · simp [e, snapComplete, executionComplete, setStatus, isCompleteStatus]
    · simp [e, snapComplete, executionComplete, setStatus, isCompleteStatus]

/-- anything in flight (cancelling / updating / replacing) waits for its response -/
theorem in_flight_waits (o : LOrder) (s : Snap)
    (h : o.status = some .cancelling ∨ o.status = some .updating ∨ o.status = some .replacing) :
    (processCurrent o s).status = o.status ∧ (processCurrent o s).log = o.log := by
  unfold processCurrent followStatus
  have hst : (pickup o s).status = o.status := rfl
  rw [hst]
  rcases h with e | e | e <;> simp [e] <;> exact ⟨(by rw [← e]; rfl), rfl⟩

/-- a stale snapshot cannot bring a complete order back -/
theorem stale_snapshot_keeps_complete (o : LOrder) (s : Snap) (h : o.status = some .executionComplete) (hc : o.complete = true) :
    (processCurrent o s).complete = true ∧ (processCurrent o s).status = some .executionComplete := by
  unfold processCurrent followStatus
  have hst : (pickup o s).status = o.status := rfl
  rw [hst, h]
  rw [if_neg (by simp), if_neg (by simp)]
  exact ⟨hc, h⟩

/-- picking the snapshot up a second time changes nothing -/
theorem pickup_again (o : LOrder) (s : Snap) : pickup (followStatus (pickup o s) s) s = followStatus (pickup o s) s := by
  have hf := followStatus_fields (pickup o s) s
  have hasync : (followStatus (pickup o s) s).async = o.async := by
    unfold followStatus executable executionComplete setStatus
    repeat' split
    all_goals rfl
  generalize hx : followStatus (pickup o s) s = x at hf hasync
  have hcur : x.cur = some s := by rw [hf.1]; rfl
  have hbet : (if x.async ∧ x.betId.isNone then some s.betId else x.betId) = x.betId := by
    by_cases h : x.async = true ∧ x.betId.isNone = true
    · exfalso
      have hb := hf.2
      unfold pickup at hb
      simp only at hb
      rw [hasync] at h
      by_cases h2 : o.async = true ∧ o.betId.isNone = true
      · rw [if_pos h2] at hb; rw [hb] at h; exact absurd h.2 (by simp)
      · rw [if_neg h2] at hb
        apply h2
        refine ⟨h.1, ?_⟩
        rw [← hb]; exact h.2
    · rw [if_neg h]
  unfold pickup
  cases x with
  | mk id size status log complete betId async cur placeResp zeroed cr ur =>
    simp only at hcur hbet ⊢
    rw [hcur, hbet]

/-- duplicated snapshots are harmless: processing the same snapshot again changes nothing (for an order
    whose `complete` flag matches its status) -/
theorem duplicate_snapshot (o : LOrder) (s : Snap) (hc : o.complete = true → o.status ≠ some .pending ∧ o.status ≠ some .executable) :
    processCurrent (processCurrent o s) s = processCurrent o s := by
  unfold processCurrent
  rw [pickup_again]
  have hst : (pickup o s).status = o.status := rfl
  have hcp : (pickup o s).complete = o.complete := rfl
  generalize pickup o s = p at hst hcp
  unfold followStatus
  by_cases h1 : p.betId.isSome = true ∧ p.status = some .pending
  · have hnc : p.complete = false := by
      cases hcc : p.complete with
      | false => rfl
      | true => rw [hcp] at hcc; exact absurd (hst ▸ h1.2) (hc hcc).1
    rw [if_pos h1]
    by_cases e : s.status = .executable
    · rw [if_pos e]
      simp [executable, hnc, setStatus, e]
    · rw [if_neg e]
      by_cases e2 : s.status = .executionComplete ∨ s.status = .expired
      · rw [if_pos e2]; simp [executionComplete, setStatus]
      · rw [if_neg e2, if_pos h1, if_neg e, if_neg e2]
  · rw [if_neg h1]
    by_cases h2 : p.status = some .executable
    · rw [if_pos h2]
      by_cases e2 : s.status = .executionComplete ∨ s.status = .expired
      · rw [if_pos e2]; simp [executionComplete, setStatus]
      · rw [if_neg e2, if_neg h1, if_pos h2, if_neg e2]
    · rw [if_neg h2, if_neg h1, if_neg h2]

/-- known finding F14 (witness): a synchronous bet that is matched at once - the stream reports it
    complete BEFORE the place response arrives.  The snapshot is ignored for the status (no bet id yet),
    the response then sets EXECUTABLE: nothing is outstanding, the latest snapshot has been processed,
    and the order is live locally while the exchange has it complete. -/
def fresh : LOrder := { id := 0, status := some .pending, log := [.pending] }
def doneSnap : Snap := { betId := 9, status := .executionComplete, sizeMatched := 2, sizeRemaining := 0 }

theorem snapshot_before_response_witness :
    (placeReport (processCurrent fresh doneSnap) { status := .success, orderStatus := some .executionComplete, betId := some 9 }).complete = false ∧
    snapComplete doneSnap = true := by decide +kernel

/-- in the other order (response first, then the snapshot) the two agree -/
theorem response_then_snapshot_agrees :
    (processCurrent (placeReport fresh { status := .success, orderStatus := some .executionComplete, betId := some 9 }) doneSnap).complete = true := by
  decide +kernel

/-! ### adoption of unknown orders (restart): the adopted order carries the exchange's terms, whatever its type -/

/-- a LIMIT bet is adopted as a limit order with the reported price, size and persistence -/
theorem adopted_limit (c : Live.CurrentTerms) (h : c.kind = .limit) :
    Live.adoptType c = { kind := .limit, price := some c.price, size := some c.size, persistence := some c.persistence } := by
  unfold Live.adoptType; rw [h]

/-- a LIMIT_ON_CLOSE bet is adopted with the reported starting-price liability as its liability and the reported price as its
    limit (the two are different fields of the snapshot: `bspLiability` and `priceSize.price`) -/
theorem adopted_limit_on_close (c : Live.CurrentTerms) (h : c.kind = .limitOnClose) :
    (Live.adoptType c).kind = .limitOnClose ∧ (Live.adoptType c).liability = some c.bspLiability ∧ (Live.adoptType c).price = some c.price := by
  unfold Live.adoptType; rw [h]; exact ⟨rfl, rfl, rfl⟩

/-- a MARKET_ON_CLOSE bet is adopted with the reported liability and no price -/
theorem adopted_market_on_close (c : Live.CurrentTerms) (h : c.kind = .marketOnClose) :
    (Live.adoptType c).kind = .marketOnClose ∧ (Live.adoptType c).liability = some c.bspLiability ∧ (Live.adoptType c).price = none := by
  unfold Live.adoptType; rw [h]; exact ⟨rfl, rfl, rfl⟩

/-- the type is never changed by adoption, and the adopted terms determine the reported ones that matter for the type: two
    snapshots adopted to the same order type agree on kind, and on price / size / liability where the type has them -/
theorem adoption_keeps_kind (c : Live.CurrentTerms) : (Live.adoptType c).kind = c.kind := by
  unfold Live.adoptType; cases c.kind <;> rfl

example : Live.adoptType { kind := .limitOnClose, price := 3, bspLiability := 20 } =
    { kind := .limitOnClose, liability := some 20, price := some 3 } := by decide

/-! ### adoption of unknown orders (restart): proved on the reference model in C19 -/

theorem adoption (i : Ref.Inst) (market : Nat) (s : Ref.Strat) (sep id : List Char)
    (hmem : s ∈ i.strategies) (hd : ∀ a ∈ i.strategies, ∀ b ∈ i.strategies, a.hash = b.hash → a = b)
    (hh : s.hash.length = Ref.H) (hs : sep.length = 1) (hun : Ref.getOrder i market id = none) :
    (Ref.processCurrent i market (Ref.customerOrderRef s.hash sep id)).2 = .created { market := market, id := id, strat := s.idx } ∧
    (Ref.processCurrent (Ref.processCurrent i market (Ref.customerOrderRef s.hash sep id)).1 market (Ref.customerOrderRef s.hash sep id)).2 =
      .existing { market := market, id := id, strat := s.idx } := by
  have h1 := C19.attribution_created i market s sep id hmem hd hh hs hun
  exact ⟨h1, C19.second_update_finds_it i market _ _ h1⟩

end Flumine.C11
