/-
  C13 — Strategies are isolated from each other and from callback errors.
  Model: Flumine.Dispatch (dispatch of one update with arbitrary, possibly raising callbacks),
  Mw.matchOrders / mwProcessSimulatedOrders (the per-strategy copy of the traded volume).
-/
import Flumine.Dispatch
import Flumine.Mw
import Flumine.Lemmas.OrderLemmas
namespace Flumine.C13
open Flumine Flumine.Dispatch

/-! ### error containment in the dispatch of one update -/

def callsOf (t : Nat) (l : List Call) : List Call := l.filter fun c => c.who = .strategy t

/-- two behaviours that agree on strategy t's own callbacks -/
def AgreeOn (t : Nat) (b1 b2 : Call → Outcome) : Prop := ∀ k, b1 ⟨.strategy t, k⟩ = b2 ⟨.strategy t, k⟩

theorem strategyCalls_own (beh : Call → Outcome) (isNew : Bool) (s : StrategyInfo) :
    ∀ c ∈ strategyCalls beh isNew s, c.who = .strategy s.idx := by
  intro c hc
  unfold strategyCalls at hc
  split at hc
  · simp only [List.mem_append, List.mem_singleton] at hc
    rcases hc with (h | h) | h
    · split at h
      · simp only [List.mem_singleton] at h; rw [h]
      · cases h
    · rw [h]
    · split at h
      · simp only [List.mem_singleton] at h; rw [h]
      · cases h
  · cases hc

theorem strategyCalls_congr (b1 b2 : Call → Outcome) (isNew : Bool) (s : StrategyInfo) (h : AgreeOn s.idx b1 b2) :
    strategyCalls b1 isNew s = strategyCalls b2 isNew s := by
  unfold strategyCalls
  rw [h .check]

/-- C13 (containment): whatever the callbacks of the OTHER strategies and of the middleware do -
    return anything, or raise at any invocation - strategy t receives exactly the same calls -/
theorem other_errors_do_not_reach (t : Nat) (b1 b2 : Call → Outcome) (h : AgreeOn t b1 b2)
    (nMw : Nat) (active isNew : Bool) (ss : List StrategyInfo) :
    callsOf t (processBook b1 nMw active isNew ss) = callsOf t (processBook b2 nMw active isNew ss) := by
  unfold processBook callsOf
  simp only [List.filter_append]
  congr 1
  induction ss with
  | nil => rfl
  | cons s ss ih =>
    simp only [List.flatMap_cons, List.filter_append, ih]
    congr 1
    by_cases e : s.idx = t
    · subst e; rw [strategyCalls_congr b1 b2 isNew s h]
    · have h1 : (strategyCalls b1 isNew s).filter (fun c => c.who = .strategy t) = [] := by
        apply List.filter_eq_nil_iff.mpr
        intro c hc; simp only [decide_eq_true_eq]; rw [strategyCalls_own b1 isNew s c hc]
        intro e'; exact e (Who.strategy.inj e')
      have h2 : (strategyCalls b2 isNew s).filter (fun c => c.who = .strategy t) = [] := by
        apply List.filter_eq_nil_iff.mpr
        intro c hc; simp only [decide_eq_true_eq]; rw [strategyCalls_own b2 isNew s c hc]
        intro e'; exact e (Who.strategy.inj e')
      rw [h1, h2]

/-- every subscribed strategy is asked `check_market_book` exactly once per update, whoever raises -/
theorem check_exactly_once (beh : Call → Outcome) (nMw : Nat) (active isNew : Bool) (ss : List StrategyInfo)
    (s : StrategyInfo) (hs : s ∈ ss) (hsub : s.subscribed = true) (hnd : (ss.map (·.idx)).Nodup) :
    ((processBook beh nMw active isNew ss).filter fun c => c = ⟨.strategy s.idx, .check⟩).length = 1 := by
  unfold processBook
  simp only [List.filter_append, List.length_append]
  have h1 : (((List.range nMw).map fun i => (⟨.middleware i, .mw⟩ : Call)).filter fun c => c = ⟨.strategy s.idx, .check⟩) = [] := by
    apply List.filter_eq_nil_iff.mpr
    intro c hc
    obtain ⟨i, _, rfl⟩ := List.mem_map.mp hc
    simp
  have h2 : ((if active then ordersCalls ss else []).filter fun c => c = ⟨.strategy s.idx, .check⟩) = [] := by
    apply List.filter_eq_nil_iff.mpr
    intro c hc
    split at hc
    · unfold ordersCalls at hc
      obtain ⟨x, _, rfl⟩ := List.mem_map.mp hc
      simp
    · cases hc
  rw [h1, h2]
  simp only [List.length_nil, Nat.zero_add]
  clear h1 h2
  induction ss with
  | nil => cases hs
  | cons x xs ih =>
    simp only [List.flatMap_cons, List.filter_append, List.length_append]
    have hnd' := List.nodup_cons.mp hnd
    rcases List.mem_cons.mp hs with e | e
    · subst e
      have hx : ((strategyCalls beh isNew s).filter fun c => c = ⟨.strategy s.idx, .check⟩).length = 1 := by
        unfold strategyCalls
        rw [if_pos hsub]
        simp only [List.filter_append]
        cases isNew <;> cases guarded (beh ⟨.strategy s.idx, .check⟩) <;> simp
      have hr : ((xs.flatMap (strategyCalls beh isNew)).filter fun c => c = ⟨.strategy s.idx, .check⟩) = [] := by
        apply List.filter_eq_nil_iff.mpr
        intro c hc
        obtain ⟨y, hy, hcy⟩ := List.mem_flatMap.mp hc
        simp only [decide_eq_true_eq]
        intro ec
        have := strategyCalls_own beh isNew y c hcy
        rw [ec] at this
        exact hnd'.1 (List.mem_map.mpr ⟨y, hy, (Who.strategy.inj this).symm⟩)
      rw [hx, hr]; rfl
    · have hx : ((strategyCalls beh isNew x).filter fun c => c = ⟨.strategy s.idx, .check⟩) = [] := by
        apply List.filter_eq_nil_iff.mpr
        intro c hc
        simp only [decide_eq_true_eq]
        intro ec
        have := strategyCalls_own beh isNew x c hc
        rw [ec] at this
        exact hnd'.1 (List.mem_map.mpr ⟨s, e, Who.strategy.inj this⟩)
      rw [hx, List.length_nil, Nat.zero_add]
      exact ih e hnd'.2

/-- `process_market_book` is reached iff the strategy's own check returned True (a raising check counts as False) -/
theorem book_iff_own_check (beh : Call → Outcome) (isNew : Bool) (s : StrategyInfo) (hsub : s.subscribed = true) :
    (⟨.strategy s.idx, .book⟩ : Call) ∈ strategyCalls beh isNew s ↔ beh ⟨.strategy s.idx, .check⟩ = .returned true := by
  unfold strategyCalls
  rw [if_pos hsub]
  cases hb : beh ⟨.strategy s.idx, .check⟩ with
  | raised => cases isNew <;> simp [guarded]
  | returned b => cases b <;> cases isNew <;> simp [guarded]

/-- middleware runs before every strategy callback of the update, whoever raises -/
theorem middleware_first (beh : Call → Outcome) (nMw : Nat) (active isNew : Bool) (ss : List StrategyInfo) :
    ∃ rest, processBook beh nMw active isNew ss = (List.range nMw).map (fun i => (⟨.middleware i, .mw⟩ : Call)) ++ rest ∧
      ∀ c ∈ rest, ∀ i, c.who ≠ .middleware i := by
  refine ⟨(if active then ordersCalls ss else []) ++ ss.flatMap (strategyCalls beh isNew), by unfold processBook; rw [List.append_assoc], ?_⟩
  intro c hc i
  rcases List.mem_append.mp hc with h | h
  · split at h
    · unfold ordersCalls at h
      obtain ⟨x, _, rfl⟩ := List.mem_map.mp h
      simp
    · cases h
  · obtain ⟨y, _, hcy⟩ := List.mem_flatMap.mp h
    rw [strategyCalls_own beh isNew y c hcy]; simp

/-- all middleware run even when an earlier one raises (their number does not depend on the behaviour) -/
theorem middleware_all_run (b1 b2 : Call → Outcome) (nMw : Nat) (active isNew : Bool) (ss : List StrategyInfo) :
    (processBook b1 nMw active isNew ss).filter (fun c => c.kind = .mw) = (processBook b2 nMw active isNew ss).filter (fun c => c.kind = .mw) := by
  have key : ∀ b : Call → Outcome, (processBook b nMw active isNew ss).filter (fun c => c.kind = .mw) =
      (List.range nMw).map (fun i => (⟨.middleware i, .mw⟩ : Call)) := by
    intro b
    unfold processBook
    simp only [List.filter_append]
    have h1 : ((List.range nMw).map (fun i => (⟨.middleware i, .mw⟩ : Call))).filter (fun c => c.kind = .mw) =
        (List.range nMw).map (fun i => (⟨.middleware i, .mw⟩ : Call)) := by
      apply List.filter_eq_self.mpr
      intro c hc; obtain ⟨i, _, rfl⟩ := List.mem_map.mp hc; simp
    have h2 : ((if active then ordersCalls ss else []).filter fun c => c.kind = .mw) = [] := by
      apply List.filter_eq_nil_iff.mpr
      intro c hc
      split at hc
      · unfold ordersCalls at hc; obtain ⟨x, _, rfl⟩ := List.mem_map.mp hc; simp
      · cases hc
    have h3 : ((ss.flatMap (strategyCalls b isNew)).filter fun c => c.kind = .mw) = [] := by
      apply List.filter_eq_nil_iff.mpr
      intro c hc
      obtain ⟨y, _, hcy⟩ := List.mem_flatMap.mp hc
      unfold strategyCalls at hcy
      split at hcy
      · simp only [List.mem_append, List.mem_singleton] at hcy
        rcases hcy with (h | h) | h
        · split at h
          · simp only [List.mem_singleton] at h; rw [h]; simp
          · cases h
        · rw [h]; simp
        · split at h
          · simp only [List.mem_singleton] at h; rw [h]; simp
          · cases h
      · cases hcy
    rw [h1, h2, h3]; simp
  rw [key b1, key b2]

/-! ### the per-strategy copy of the traded volume -/

open Flumine.World Flumine.OL

theorem orderExecutionComplete_markets (w : World) (oid : Nat) : (w.orderExecutionComplete oid).markets = w.markets := by
  unfold orderExecutionComplete orderUpdateStatus modifyOrder
  simp only
  split
  · unfold completeTrade ctxReset setCtx setTrade setOrder; simp only; split <;> rfl
  · rfl

theorem matchStep_markets (mid : Nat) (recheck : Bool) (acc : World × List (Nat × Rat × List (Rat × Rat))) (o : Order) :
    (matchStep mid recheck acc o).1.markets = acc.1.markets := by
  obtain ⟨w, lk⟩ := acc
  unfold matchStep
  simp only
  split
  · rfl
  · split
    · rw [orderExecutionComplete_markets]; rfl
    · rfl

/-- matching a strategy's orders works on a copy of the market's traded volume: the market table -
    books and traded-volume analytics, what the next strategy will be matched against - is left
    exactly as it was -/
theorem matchOrders_keeps_markets (w : World) (mid : Nat) (sorted : List Order) (recheck : Bool) :
    (w.matchOrders mid sorted recheck).markets = w.markets := by
  unfold matchOrders
  simp only
  generalize ((w.market! mid).analytics.map fun a => (a.sel, a.hc, a.traded)) = lk0
  have key : ∀ (l : List Order) (acc : World × List (Nat × Rat × List (Rat × Rat))),
      (l.foldl (matchStep mid recheck) acc).1.markets = acc.1.markets := by
    intro l
    induction l with
    | nil => intro acc; rfl
    | cons o os ih => intro acc; rw [List.foldl_cons, ih, matchStep_markets]
  exact key sorted (w, lk0)

theorem matchOrders_keeps_analytics (w : World) (mid mid' : Nat) (sorted : List Order) (recheck : Bool) :
    ((w.matchOrders mid sorted recheck).market! mid').analytics = (w.market! mid').analytics ∧
    ((w.matchOrders mid sorted recheck).market! mid').book = (w.market! mid').book := by
  have h := matchOrders_keeps_markets w mid sorted recheck
  unfold market! market?
  rw [h]; exact ⟨rfl, rfl⟩

/-- the copy every strategy starts from is built from the market's analytics alone -/
theorem matchOrders_starts_from_analytics (w : World) (mid : Nat) (sorted : List Order) (recheck : Bool) :
    w.matchOrders mid sorted recheck =
      (sorted.foldl (matchStep mid recheck) (w, (w.market! mid).analytics.map fun a => (a.sel, a.hc, a.traded))).1 := rfl

/-! ### non-vacuity -/

example : processBook (fun c => if c = ⟨.strategy 0, .check⟩ then .raised else .returned true) 2 true false
    [⟨0, true, true⟩, ⟨1, true, false⟩] =
    [⟨.middleware 0, .mw⟩, ⟨.middleware 1, .mw⟩, ⟨.strategy 0, .orders⟩, ⟨.strategy 0, .check⟩, ⟨.strategy 1, .check⟩, ⟨.strategy 1, .book⟩] := by
  decide +kernel

end Flumine.C13
