/-
  C13 — Strategies are isolated from each other and from callback errors.
  Model: Flumine.Dispatch (dispatch of one update with arbitrary, possibly raising callbacks),
  Mw.matchOrders / mwProcessSimulatedOrders (the per-strategy copy of the traded volume).
-/
import Flumine.Dispatch
import Flumine.Mw
import Flumine.Lemmas.OrderLemmas
import Flumine.Props.C03
import Flumine.Lemmas.Inv
namespace Flumine.C13
open Flumine Flumine.Dispatch

/-! ### error containment in the dispatch of one update -/

def callsOf (t : Nat) (l : List Call) : List Call := l.filter fun c => c.who = .strategy t

/-- two behaviours that agree on strategy t's own callbacks -/
def AgreeOn (t : Nat) (b1 b2 : Call → Outcome) : Prop := ∀ k, b1 ⟨.strategy t, k⟩ = b2 ⟨.strategy t, k⟩

theorem strategyCalls_own (beh : Call → Outcome) (isNew : Bool) (s : StrategyInfo) :
    ∀ c ∈ strategyCalls beh isNew s, c.who = .strategy s.idx := by
  intro c hc
  unfold strategyCalls at hc
  split at hc
  · simp only [List.mem_append, List.mem_singleton] at hc
    rcases hc with (h | h) | h
    · split at h
      · simp only [List.mem_singleton] at h; rw [h]
      · cases h
    · rw [h]
    · split at h
      · simp only [List.mem_singleton] at h; rw [h]
      · cases h
  · cases hc

theorem strategyCalls_congr (b1 b2 : Call → Outcome) (isNew : Bool) (s : StrategyInfo) (h : AgreeOn s.idx b1 b2) :
    strategyCalls b1 isNew s = strategyCalls b2 isNew s := by
  unfold strategyCalls
  rw [h .check]

/-- C13 (containment): whatever the callbacks of the OTHER strategies and of the middleware do -
    return anything, or raise at any invocation - strategy t receives exactly the same calls -/
theorem other_errors_do_not_reach (t : Nat) (b1 b2 : Call → Outcome) (h : AgreeOn t b1 b2)
    (nMw : Nat) (active isNew : Bool) (ss : List StrategyInfo) :
    callsOf t (processBook b1 nMw active isNew ss) = callsOf t (processBook b2 nMw active isNew ss) := by
  unfold processBook callsOf
  simp only [List.filter_append]
  congr 1
  induction ss with
  | nil => rfl
  | cons s ss ih =>
    simp only [List.flatMap_cons, List.filter_append, ih]
    congr 1
    by_cases e : s.idx = t
    · subst e; rw [strategyCalls_congr b1 b2 isNew s h]
    · have h1 : (strategyCalls b1 isNew s).filter (fun c => c.who = .strategy t) = [] := by
        apply List.filter_eq_nil_iff.mpr
        intro c hc; simp only [decide_eq_true_eq]; rw [strategyCalls_own b1 isNew s c hc]
        intro e'; exact e (Who.strategy.inj e')
      have h2 : (strategyCalls b2 isNew s).filter (fun c => c.who = .strategy t) = [] := by
        apply List.filter_eq_nil_iff.mpr
        intro c hc; simp only [decide_eq_true_eq]; rw [strategyCalls_own b2 isNew s c hc]
        intro e'; exact e (Who.strategy.inj e')
      rw [h1, h2]

/-- every subscribed strategy is asked `check_market_book` exactly once per update, whoever raises -/
theorem check_exactly_once (beh : Call → Outcome) (nMw : Nat) (active isNew : Bool) (ss : List StrategyInfo)
    (s : StrategyInfo) (hs : s ∈ ss) (hsub : s.subscribed = true) (hnd : (ss.map (·.idx)).Nodup) :
    ((processBook beh nMw active isNew ss).filter fun c => c = ⟨.strategy s.idx, .check⟩).length = 1 := by
  unfold processBook
  simp only [List.filter_append, List.length_append]
  have h1 : (((List.range nMw).map fun i => (⟨.middleware i, .mw⟩ : Call)).filter fun c => c = ⟨.strategy s.idx, .check⟩) = [] := by
    apply List.filter_eq_nil_iff.mpr
    intro c hc
    obtain ⟨i, _, rfl⟩ := List.mem_map.mp hc
    simp
  have h2 : ((if active then ordersCalls ss else []).filter fun c => c = ⟨.strategy s.idx, .check⟩) = [] := by
    apply List.filter_eq_nil_iff.mpr
    intro c hc
    split at hc
    · unfold ordersCalls at hc
      obtain ⟨x, _, rfl⟩ := List.mem_map.mp hc
      simp
    · cases hc
  rw [h1, h2]
  simp only [List.length_nil, Nat.zero_add]
  clear h1 h2
  induction ss with
  | nil => cases hs
  | cons x xs ih =>
    simp only [List.flatMap_cons, List.filter_append, List.length_append]
    have hnd' := List.nodup_cons.mp hnd
    rcases List.mem_cons.mp hs with e | e
    · subst e
      have hx : ((strategyCalls beh isNew s).filter fun c => c = ⟨.strategy s.idx, .check⟩).length = 1 := by
        unfold strategyCalls
        rw [if_pos hsub]
        simp only [List.filter_append]
        cases isNew <;> cases guarded (beh ⟨.strategy s.idx, .check⟩) <;> simp
      have hr : ((xs.flatMap (strategyCalls beh isNew)).filter fun c => c = ⟨.strategy s.idx, .check⟩) = [] := by
        apply List.filter_eq_nil_iff.mpr
        intro c hc
        obtain ⟨y, hy, hcy⟩ := List.mem_flatMap.mp hc
        simp only [decide_eq_true_eq]
        intro ec
        have := strategyCalls_own beh isNew y c hcy
        rw [ec] at this
        exact hnd'.1 (List.mem_map.mpr ⟨y, hy, (Who.strategy.inj this).symm⟩)
      rw [hx, hr]; rfl
    · have hx : ((strategyCalls beh isNew x).filter fun c => c = ⟨.strategy s.idx, .check⟩) = [] := by
        apply List.filter_eq_nil_iff.mpr
        intro c hc
        simp only [decide_eq_true_eq]
        intro ec
        have := strategyCalls_own beh isNew x c hc
        rw [ec] at this
        exact hnd'.1 (List.mem_map.mpr ⟨s, e, Who.strategy.inj this⟩)
      rw [hx, List.length_nil, Nat.zero_add]
      exact ih e hnd'.2

/-- `process_market_book` is reached iff the strategy's own check returned True (a raising check counts as False) -/
theorem book_iff_own_check (beh : Call → Outcome) (isNew : Bool) (s : StrategyInfo) (hsub : s.subscribed = true) :
    (⟨.strategy s.idx, .book⟩ : Call) ∈ strategyCalls beh isNew s ↔ beh ⟨.strategy s.idx, .check⟩ = .returned true := by
  unfold strategyCalls
  rw [if_pos hsub]
  cases hb : beh ⟨.strategy s.idx, .check⟩ with
  | raised => cases isNew <;> simp [guarded]
  | returned b => cases b <;> cases isNew <;> simp [guarded]

/-- middleware runs before every strategy callback of the update, whoever raises -/
theorem middleware_first (beh : Call → Outcome) (nMw : Nat) (active isNew : Bool) (ss : List StrategyInfo) :
    ∃ rest, processBook beh nMw active isNew ss = (List.range nMw).map (fun i => (⟨.middleware i, .mw⟩ : Call)) ++ rest ∧
      ∀ c ∈ rest, ∀ i, c.who ≠ .middleware i := by
  refine ⟨(if active then ordersCalls ss else []) ++ ss.flatMap (strategyCalls beh isNew), by unfold processBook; rw [List.append_assoc], ?_⟩
  intro c hc i
  rcases List.mem_append.mp hc with h | h
  · split at h
    · unfold ordersCalls at h
      obtain ⟨x, _, rfl⟩ := List.mem_map.mp h
      simp
    · cases h
  · obtain ⟨y, _, hcy⟩ := List.mem_flatMap.mp h
    rw [strategyCalls_own beh isNew y c hcy]; simp

/-- all middleware run even when an earlier one raises (their number does not depend on the behaviour) -/
theorem middleware_all_run (b1 b2 : Call → Outcome) (nMw : Nat) (active isNew : Bool) (ss : List StrategyInfo) :
    (processBook b1 nMw active isNew ss).filter (fun c => c.kind = .mw) = (processBook b2 nMw active isNew ss).filter (fun c => c.kind = .mw) := by
  have key : ∀ b : Call → Outcome, (processBook b nMw active isNew ss).filter (fun c => c.kind = .mw) =
      (List.range nMw).map (fun i => (⟨.middleware i, .mw⟩ : Call)) := by
    intro b
    unfold processBook
    simp only [List.filter_append]
    have h1 : ((List.range nMw).map (fun i => (⟨.middleware i, .mw⟩ : Call))).filter (fun c => c.kind = .mw) =
        (List.range nMw).map (fun i => (⟨.middleware i, .mw⟩ : Call)) := by
      apply List.filter_eq_self.mpr
      intro c hc; obtain ⟨i, _, rfl⟩ := List.mem_map.mp hc; simp
    have h2 : ((if active then ordersCalls ss else []).filter fun c => c.kind = .mw) = [] := by
      apply List.filter_eq_nil_iff.mpr
      intro c hc
      split at hc
      · unfold ordersCalls at hc; obtain ⟨x, _, rfl⟩ := List.mem_map.mp hc; simp
      · cases hc
    have h3 : ((ss.flatMap (strategyCalls b isNew)).filter fun c => c.kind = .mw) = [] := by
      apply List.filter_eq_nil_iff.mpr
      intro c hc
      obtain ⟨y, _, hcy⟩ := List.mem_flatMap.mp hc
      unfold strategyCalls at hcy
      split at hcy
      · simp only [List.mem_append, List.mem_singleton] at hcy
        rcases hcy with (h | h) | h
        · split at h
          · simp only [List.mem_singleton] at h; rw [h]; simp
          · cases h
        · rw [h]; simp
        · split at h
          · simp only [List.mem_singleton] at h; rw [h]; simp
          · cases h
      · cases hcy
    rw [h1, h2, h3]; simp
  rw [key b1, key b2]

/-! ### the per-strategy copy of the traded volume -/

open Flumine.World Flumine.OL

theorem orderExecutionComplete_markets (w : World) (oid : Nat) : (w.orderExecutionComplete oid).markets = w.markets := by
  unfold orderExecutionComplete orderUpdateStatus modifyOrder
  simp only
  split
  · unfold completeTrade ctxReset setCtx setTrade setOrder; simp only; split <;> rfl
  · rfl

theorem matchStep_markets (mid : Nat) (recheck : Bool) (acc : World × List (Nat × Rat × List (Rat × Rat))) (o : Order) :
    (matchStep mid recheck acc o).1.markets = acc.1.markets := by
  obtain ⟨w, lk⟩ := acc
  unfold matchStep
  simp only
  split
  · rfl
  · split
    · rw [orderExecutionComplete_markets]; rfl
    · rfl

/-- matching a strategy's orders works on a copy of the market's traded volume: the market table -
    books and traded-volume analytics, what the next strategy will be matched against - is left
    exactly as it was -/
theorem matchOrders_keeps_markets (w : World) (mid : Nat) (sorted : List Order) (recheck : Bool) :
    (w.matchOrders mid sorted recheck).markets = w.markets := by
  unfold matchOrders
  simp only
  generalize ((w.market! mid).analytics.map fun a => (a.sel, a.hc, a.traded)) = lk0
  have key : ∀ (l : List Order) (acc : World × List (Nat × Rat × List (Rat × Rat))),
      (l.foldl (matchStep mid recheck) acc).1.markets = acc.1.markets := by
    intro l
    induction l with
    | nil => intro acc; rfl
    | cons o os ih => intro acc; rw [List.foldl_cons, ih, matchStep_markets]
  exact key sorted (w, lk0)

theorem matchOrders_keeps_analytics (w : World) (mid mid' : Nat) (sorted : List Order) (recheck : Bool) :
    ((w.matchOrders mid sorted recheck).market! mid').analytics = (w.market! mid').analytics ∧
    ((w.matchOrders mid sorted recheck).market! mid').book = (w.market! mid').book := by
  have h := matchOrders_keeps_markets w mid sorted recheck
  unfold market! market?
  rw [h]; exact ⟨rfl, rfl⟩

/-- the copy every strategy starts from is built from the market's analytics alone -/
theorem matchOrders_starts_from_analytics (w : World) (mid : Nat) (sorted : List Order) (recheck : Bool) :
    w.matchOrders mid sorted recheck =
      (sorted.foldl (matchStep mid recheck) (w, (w.market! mid).analytics.map fun a => (a.sel, a.hc, a.traded))).1 := rfl


/-! ### isolation of the matching step: what another strategy's orders do cannot be seen -/

/-- two worlds that look the same from the orders in S: those orders, the market table and the clients -/
structure Agree (S : Nat → Prop) (w1 w2 : World) : Prop where
  orders : ∀ id, S id → w1.order! id = w2.order! id
  has1 : ∀ id, S id → HasOrder w1 id
  has2 : ∀ id, S id → HasOrder w2 id
  markets : w1.markets = w2.markets
  clients : w1.clients = w2.clients
  clock : w1.clock = w2.clock

theorem orderExecutionComplete_clients (w : World) (oid : Nat) : (w.orderExecutionComplete oid).clients = w.clients := by
  unfold orderExecutionComplete orderUpdateStatus modifyOrder
  simp only
  split
  · unfold completeTrade ctxReset setCtx setTrade setOrder; simp only; split <;> rfl
  · rfl

theorem orderExecutionComplete_clock (w : World) (oid : Nat) : (w.orderExecutionComplete oid).clock = w.clock := by
  unfold orderExecutionComplete orderUpdateStatus modifyOrder
  simp only
  split
  · unfold completeTrade ctxReset setCtx setTrade setOrder; simp only; split <;> rfl
  · rfl

theorem orderExecutionComplete_other (w : World) (a id : Nat) (ha : HasOrder w a) (hne : id ≠ a) :
    (w.orderExecutionComplete a).order! id = w.order! id := by
  unfold orderExecutionComplete
  rw [order!_modify_other _ id a _ hne (by intro x hx; exact hx), orderUpdateStatus_other w id a .executionComplete ha hne]

theorem hasOrder_orderExecutionComplete (w : World) (a id : Nat) (h : HasOrder w id) : HasOrder (w.orderExecutionComplete a) id := by
  unfold orderExecutionComplete
  exact hasOrder_modify _ id a _ (hasOrder_orderUpdateStatus w id a .executionComplete h) (by intro x hx; exact hx)

theorem market!_congr (w1 w2 : World) (h : w1.markets = w2.markets) (mid : Nat) : w1.market! mid = w2.market! mid := by
  unfold market! market?; rw [h]

theorem client!_congr (w1 w2 : World) (h : w1.clients = w2.clients) (cid : Nat) : w1.client! cid = w2.client! cid := by
  unfold client! client?; rw [h]

/-- one order of the matching loop, run in two worlds that agree on S: same private traded copy
    afterwards, and the worlds still agree on S -/
theorem matchStep_agree (S : Nat → Prop) (mid : Nat) (recheck : Bool) (w1 w2 : World) (lk : List (Nat × Rat × List (Rat × Rat)))
    (o0 : Order) (h : Agree S w1 w2) (hs : S o0.id) :
    Agree S (matchStep mid recheck (w1, lk) o0).1 (matchStep mid recheck (w2, lk) o0).1 ∧
    (matchStep mid recheck (w1, lk) o0).2 = (matchStep mid recheck (w2, lk) o0).2 := by
  have ho := h.orders o0.id hs
  have h1 := h.has1 o0.id hs
  have h2 := h.has2 o0.id hs
  have hm := market!_congr w1 w2 h.markets mid
  have hid1 : (w1.order! o0.id).id = o0.id := order!_id w1 o0.id h1
  have hid2 : (w2.order! o0.id).id = o0.id := order!_id w2 o0.id h2
  unfold matchStep
  simp only
  rw [← ho, ← hm, client!_congr w1 w2 h.clients]
  by_cases hr : (recheck && !isMwLive (w1.order! o0.id)) = true
  · rw [if_pos hr, if_pos hr]; exact ⟨h, rfl⟩
  · rw [if_neg hr, if_neg hr]
    simp only
    generalize hcall : (w1.order! o0.id).sim.call ((w1.market! mid).book.getD {}).view
      ((runnerOf ((w1.market! mid).book.getD {}) (w1.order! o0.id).sel (w1.order! o0.id).hc).bind (·.sp))
      (((lk.find? fun e => e.1 = (w1.order! o0.id).sel ∧ e.2.1 = (w1.order! o0.id).hc).map (·.2.2)).getD [])
      (w2.client! ((w1.order! o0.id).client.getD 0)).minBspLiability = r
    refine ⟨?_, trivial⟩
    rw [hid1]
    -- after writing the simulated part back
    have hmod1 := order!_modify_self w1 o0.id (fun x => { x with sim := r.1 }) h1 (by intro x hx; exact hx)
    have hmod2 := order!_modify_self w2 o0.id (fun x => { x with sim := r.1 }) h2 (by intro x hx; exact hx)
    have hh1 := hasOrder_modify w1 o0.id o0.id (fun x => { x with sim := r.1 }) h1 (by intro x hx; exact hx)
    have hh2 := hasOrder_modify w2 o0.id o0.id (fun x => { x with sim := r.1 }) h2 (by intro x hx; exact hx)
    have base : Agree S (w1.modifyOrder o0.id fun x => { x with sim := r.1 }) (w2.modifyOrder o0.id fun x => { x with sim := r.1 }) := by
      refine ⟨?_, ?_, ?_, h.markets, h.clients, h.clock⟩
      · intro id hsid
        by_cases e : id = o0.id
        · subst e; rw [hmod1, hmod2, ho]
        · rw [order!_modify_other w1 id o0.id _ e (by intro x hx; exact hx), order!_modify_other w2 id o0.id _ e (by intro x hx; exact hx)]
          exact h.orders id hsid
      · intro id hsid; exact hasOrder_modify w1 id o0.id _ (h.has1 id hsid) (by intro x hx; exact hx)
      · intro id hsid; exact hasOrder_modify w2 id o0.id _ (h.has2 id hsid) (by intro x hx; exact hx)
    cases r.2.2 with
    | false => exact base
    | true =>
      simp only [if_true]
      generalize (w1.modifyOrder o0.id fun x => { x with sim := r.1 }) = v1 at base hh1
      generalize (w2.modifyOrder o0.id fun x => { x with sim := r.1 }) = v2 at base hh2
      refine ⟨?_, ?_, ?_, ?_, ?_, ?_⟩
      · intro id hsid
        by_cases e : id = o0.id
        · rw [e, C03.executionComplete_self v1 o0.id hh1, C03.executionComplete_self v2 o0.id hh2, base.orders o0.id hs]
          rw [base.clock]
        · rw [orderExecutionComplete_other v1 o0.id id hh1 e, orderExecutionComplete_other v2 o0.id id hh2 e]
          exact base.orders id hsid
      · intro id hsid; exact hasOrder_orderExecutionComplete v1 o0.id id (base.has1 id hsid)
      · intro id hsid; exact hasOrder_orderExecutionComplete v2 o0.id id (base.has2 id hsid)
      · rw [orderExecutionComplete_markets, orderExecutionComplete_markets]; exact base.markets
      · rw [orderExecutionComplete_clients, orderExecutionComplete_clients]; exact base.clients
      · rw [orderExecutionComplete_clock, orderExecutionComplete_clock]; exact base.clock


theorem fold_agree (S : Nat → Prop) (mid : Nat) (recheck : Bool) (l : List Order) (hl : ∀ o ∈ l, S o.id)
    (w1 w2 : World) (lk : List (Nat × Rat × List (Rat × Rat))) (h : Agree S w1 w2) :
    Agree S (l.foldl (matchStep mid recheck) (w1, lk)).1 (l.foldl (matchStep mid recheck) (w2, lk)).1 ∧
    (l.foldl (matchStep mid recheck) (w1, lk)).2 = (l.foldl (matchStep mid recheck) (w2, lk)).2 := by
  induction l generalizing w1 w2 lk with
  | nil => exact ⟨h, rfl⟩
  | cons o os ih =>
    rw [List.foldl_cons, List.foldl_cons]
    obtain ⟨ha, hk⟩ := matchStep_agree S mid recheck w1 w2 lk o h (hl o List.mem_cons_self)
    have e1 : matchStep mid recheck (w1, lk) o = ((matchStep mid recheck (w1, lk) o).1, (matchStep mid recheck (w1, lk) o).2) := rfl
    have e2 : matchStep mid recheck (w2, lk) o = ((matchStep mid recheck (w2, lk) o).1, (matchStep mid recheck (w1, lk) o).2) := by
      rw [hk]
    rw [e1, e2]
    exact ih (fun x hx => hl x (List.mem_cons_of_mem _ hx)) _ _ _ ha

/-- matching the same orders in two worlds that agree on them gives worlds that still agree on them -/
theorem matchOrders_agree (S : Nat → Prop) (mid : Nat) (recheck : Bool) (l : List Order) (hl : ∀ o ∈ l, S o.id)
    (w1 w2 : World) (h : Agree S w1 w2) : Agree S (w1.matchOrders mid l recheck) (w2.matchOrders mid l recheck) := by
  unfold matchOrders
  simp only
  rw [market!_congr w1 w2 h.markets mid]
  exact (fold_agree S mid recheck l hl w1 w2 _ h).1

/-! #### what matching a list of orders leaves alone -/

theorem matchStep_frame (mid : Nat) (recheck : Bool) (w : World) (lk : List (Nat × Rat × List (Rat × Rat))) (o0 : Order)
    (h0 : HasOrder w o0.id) :
    (∀ id, id ≠ o0.id → (matchStep mid recheck (w, lk) o0).1.order! id = w.order! id) ∧
    (∀ id, HasOrder w id → HasOrder (matchStep mid recheck (w, lk) o0).1 id) ∧
    (matchStep mid recheck (w, lk) o0).1.clients = w.clients ∧ (matchStep mid recheck (w, lk) o0).1.clock = w.clock := by
  have hid : (w.order! o0.id).id = o0.id := order!_id w o0.id h0
  unfold matchStep
  simp only
  split
  · exact ⟨fun _ _ => rfl, fun _ h => h, rfl, rfl⟩
  · rw [hid]
    split
    · refine ⟨?_, ?_, ?_, ?_⟩
      · intro id hne
        rw [orderExecutionComplete_other _ o0.id id (hasOrder_modify w o0.id o0.id _ h0 (by intro x hx; exact hx)) hne]
        exact order!_modify_other w id o0.id _ hne (by intro x hx; exact hx)
      · intro id hh
        exact hasOrder_orderExecutionComplete _ o0.id id (hasOrder_modify w id o0.id _ hh (by intro x hx; exact hx))
      · rw [orderExecutionComplete_clients]; rfl
      · rw [orderExecutionComplete_clock]; rfl
    · refine ⟨?_, ?_, rfl, rfl⟩
      · intro id hne; exact order!_modify_other w id o0.id _ hne (by intro x hx; exact hx)
      · intro id hh; exact hasOrder_modify w id o0.id _ hh (by intro x hx; exact hx)

theorem fold_frame (mid : Nat) (recheck : Bool) (l : List Order) (w : World) (lk : List (Nat × Rat × List (Rat × Rat)))
    (hl : ∀ o ∈ l, HasOrder w o.id) :
    (∀ id, (∀ o ∈ l, o.id ≠ id) → (l.foldl (matchStep mid recheck) (w, lk)).1.order! id = w.order! id) ∧
    (∀ id, HasOrder w id → HasOrder (l.foldl (matchStep mid recheck) (w, lk)).1 id) ∧
    (l.foldl (matchStep mid recheck) (w, lk)).1.clients = w.clients ∧ (l.foldl (matchStep mid recheck) (w, lk)).1.clock = w.clock := by
  induction l generalizing w lk with
  | nil => exact ⟨fun _ _ => rfl, fun _ h => h, rfl, rfl⟩
  | cons o os ih =>
    rw [List.foldl_cons]
    obtain ⟨f1, f2, f3, f4⟩ := matchStep_frame mid recheck w lk o (hl o List.mem_cons_self)
    have e1 : matchStep mid recheck (w, lk) o = ((matchStep mid recheck (w, lk) o).1, (matchStep mid recheck (w, lk) o).2) := rfl
    rw [e1]
    obtain ⟨g1, g2, g3, g4⟩ := ih (matchStep mid recheck (w, lk) o).1 (matchStep mid recheck (w, lk) o).2
      (fun x hx => f2 x.id (hl x (List.mem_cons_of_mem _ hx)))
    refine ⟨?_, ?_, ?_, ?_⟩
    · intro id hne
      rw [g1 id (fun x hx => hne x (List.mem_cons_of_mem _ hx))]
      exact f1 id (fun e => hne o List.mem_cons_self e.symm)
    · intro id hh; exact g2 id (f2 id hh)
    · rw [g3, f3]
    · rw [g4, f4]

/-- C13 (isolation of the matching step): whatever orders of OTHER strategies were matched first - any
    number, any fills, any completions - the orders of strategy A end up exactly as if the others had
    not been there: every strategy is matched against the same traded volume and book -/
theorem isolation_of_matching (S : Nat → Prop) (mid : Nat) (recheck : Bool) (LA LB : List Order) (w : World)
    (hA : ∀ o ∈ LA, S o.id) (hB : ∀ o ∈ LB, ¬ S o.id)
    (hasA : ∀ id, S id → HasOrder w id) (hasB : ∀ o ∈ LB, HasOrder w o.id) :
    ∀ id, S id → ((w.matchOrders mid LB recheck).matchOrders mid LA recheck).order! id = (w.matchOrders mid LA recheck).order! id := by
  have hag : Agree S (w.matchOrders mid LB recheck) w := by
    obtain ⟨g1, g2, g3, g4⟩ := fold_frame mid recheck LB w ((w.market! mid).analytics.map fun a => (a.sel, a.hc, a.traded)) hasB
    refine ⟨?_, ?_, hasA, matchOrders_keeps_markets w mid LB recheck, ?_, ?_⟩
    · intro id hs
      exact g1 id (fun o ho e => hB o ho (e ▸ hs))
    · intro id hs; exact g2 id (hasA id hs)
    · exact g3
    · exact g4
  intro id hs
  exact (matchOrders_agree S mid recheck LA hA _ _ hag).orders id hs


/-! #### from the matching step to the per-strategy loop: registration order does not matter -/

theorem mem_insertBy (key : Order → Rat) (o x : Order) (l : List Order) (h : x ∈ insertBy key o l) : x = o ∨ x ∈ l := by
  induction l with
  | nil => simp only [insertBy, List.mem_singleton] at h; exact Or.inl h
  | cons y ys ih =>
    unfold insertBy at h
    split at h
    · rcases List.mem_cons.mp h with e | e
      · exact Or.inl e
      · exact Or.inr e
    · rcases List.mem_cons.mp h with e | e
      · exact Or.inr (by rw [e]; exact List.mem_cons_self)
      · rcases ih e with e' | e'
        · exact Or.inl e'
        · exact Or.inr (List.mem_cons_of_mem _ e')

theorem mem_foldl_insertBy (key : Order → Rat) (l acc : List Order) (x : Order)
    (h : x ∈ l.foldl (fun acc o => insertBy key o acc) acc) : x ∈ acc ∨ x ∈ l := by
  induction l generalizing acc with
  | nil => exact Or.inl h
  | cons y ys ih =>
    rw [List.foldl_cons] at h
    rcases ih (insertBy key y acc) h with e | e
    · rcases mem_insertBy key y x acc e with e' | e'
      · exact Or.inr (by rw [e']; exact List.mem_cons_self)
      · exact Or.inl e'
    · exact Or.inr (List.mem_cons_of_mem _ e)

theorem mem_stableSortBy (key : Order → Rat) (l : List Order) (x : Order) (h : x ∈ stableSortBy key l) : x ∈ l := by
  unfold stableSortBy at h
  rcases mem_foldl_insertBy key l [] x h with e | e
  · cases e
  · exact e

theorem mem_sortOrders (l : List Order) (x : Order) (h : x ∈ sortOrders l) : x ∈ l := by
  unfold sortOrders at h
  simp only [List.mem_append] at h
  rcases h with (h | h) | h
  · exact (List.mem_filter.mp (mem_stableSortBy _ _ x h)).1
  · exact (List.mem_filter.mp (mem_stableSortBy _ _ x h)).1
  · exact (List.mem_filter.mp h).1

/-- the orders strategy `sid` has live in the market carry ids of the blotter, the strategy's tag, and are present -/
theorem strategyLive_spec (w : World) (mid sid : Nat) (x : Order) (h : x ∈ w.strategyLive mid sid) :
    ∃ oid ∈ (w.market! mid).blotter, x = w.order! oid ∧ x.strategy = sid := by
  unfold strategyLive at h
  obtain ⟨hm, hp⟩ := List.mem_filter.mp h
  obtain ⟨oid, ho, rfl⟩ := List.mem_map.mp hm
  simp only [decide_eq_true_eq] at hp
  exact ⟨oid, ho, rfl, hp.1⟩

/-- the strategy tag of every order survives the matching loop -/
theorem matchStep_strategy (mid : Nat) (recheck : Bool) (w : World) (lk : List (Nat × Rat × List (Rat × Rat))) (o0 : Order)
    (h0 : HasOrder w o0.id) (id : Nat) (hid : HasOrder w id) :
    ((matchStep mid recheck (w, lk) o0).1.order! id).strategy = (w.order! id).strategy := by
  by_cases e : id = o0.id
  · subst e
    have hidd : (w.order! o0.id).id = o0.id := order!_id w o0.id h0
    unfold matchStep
    simp only
    split
    · rfl
    · rw [hidd]
      have hm := order!_modify_self w o0.id (fun x => { x with sim := ((w.order! o0.id).sim.call ((w.market! mid).book.getD {}).view
        ((runnerOf ((w.market! mid).book.getD {}) (w.order! o0.id).sel (w.order! o0.id).hc).bind (·.sp))
        (((lk.find? fun e => e.1 = (w.order! o0.id).sel ∧ e.2.1 = (w.order! o0.id).hc).map (·.2.2)).getD [])
        (w.client! ((w.order! o0.id).client.getD 0)).minBspLiability).1 }) h0 (by intro x hx; exact hx)
      split
      · rw [C03.executionComplete_self _ o0.id (hasOrder_modify w o0.id o0.id _ h0 (by intro x hx; exact hx)), hm]; rfl
      · rw [hm]
  · rw [(matchStep_frame mid recheck w lk o0 h0).1 id e]


theorem fold_strategy (mid : Nat) (recheck : Bool) (l : List Order) (w : World) (lk : List (Nat × Rat × List (Rat × Rat)))
    (hl : ∀ o ∈ l, HasOrder w o.id) (id : Nat) (hid : HasOrder w id) :
    ((l.foldl (matchStep mid recheck) (w, lk)).1.order! id).strategy = (w.order! id).strategy := by
  induction l generalizing w lk with
  | nil => rfl
  | cons o os ih =>
    rw [List.foldl_cons]
    have h0 := hl o List.mem_cons_self
    obtain ⟨_, f2, _, _⟩ := matchStep_frame mid recheck w lk o h0
    have e1 : matchStep mid recheck (w, lk) o = ((matchStep mid recheck (w, lk) o).1, (matchStep mid recheck (w, lk) o).2) := rfl
    rw [e1, ih _ _ (fun x hx => f2 x.id (hl x (List.mem_cons_of_mem _ hx))) (f2 id hid)]
    exact matchStep_strategy mid recheck w lk o h0 id hid

theorem matchOrders_strategy (w : World) (mid : Nat) (l : List Order) (recheck : Bool) (hl : ∀ o ∈ l, HasOrder w o.id)
    (id : Nat) (hid : HasOrder w id) : ((w.matchOrders mid l recheck).order! id).strategy = (w.order! id).strategy := by
  unfold matchOrders; exact fold_strategy mid recheck l w _ hl id hid

/-- C13 (registration order): in the isolated matching loop the orders of strategy A come out the same
    whether another strategy B was matched before them or not -/
theorem registration_order_irrelevant (w : World) (mid A B : Nat) (hAB : A ≠ B)
    (hb : ∀ oid ∈ (w.market! mid).blotter, HasOrder w oid) :
    ∀ oid ∈ (w.market! mid).blotter, (w.order! oid).strategy = A →
      (matchStrategy mid (matchStrategy mid w B) A).order! oid = (matchStrategy mid w A).order! oid := by
  -- the orders of A
  let S : Nat → Prop := fun id => id ∈ (w.market! mid).blotter ∧ (w.order! id).strategy = A
  have hasS : ∀ id, S id → HasOrder w id := fun id h => hb id h.1
  -- B's live orders, sorted: present, and none of them is an order of A
  have hLB : ∀ x ∈ sortOrders (w.strategyLive mid B), HasOrder w x.id ∧ ¬ S x.id := by
    intro x hx
    obtain ⟨oid, ho, rfl, hs⟩ := strategyLive_spec w mid B x (mem_sortOrders _ x hx)
    have hid := order!_id w oid (hb oid ho)
    rw [hid]
    exact ⟨hb oid ho, fun hS => hAB (hS.2.symm.trans hs)⟩
  -- the world after B was matched agrees with w on A's orders
  generalize hw' : matchStrategy mid w B = w'
  have hfacts : w'.markets = w.markets ∧ (∀ id, S id → w'.order! id = w.order! id) ∧ (∀ id, HasOrder w id → HasOrder w' id) ∧
      w'.clients = w.clients ∧ w'.clock = w.clock ∧ (∀ id, HasOrder w id → (w'.order! id).strategy = (w.order! id).strategy) := by
    rw [← hw']
    unfold matchStrategy
    simp only
    split
    · exact ⟨rfl, fun _ _ => rfl, fun _ h => h, rfl, rfl, fun _ _ => rfl⟩
    · obtain ⟨g1, g2, g3, g4⟩ := fold_frame mid false (sortOrders (w.strategyLive mid B)) w
        ((w.market! mid).analytics.map fun a => (a.sel, a.hc, a.traded)) (fun x hx => (hLB x hx).1)
      refine ⟨matchOrders_keeps_markets w mid _ false, ?_, g2, g3, g4, ?_⟩
      · intro id hs
        exact g1 id (fun o ho e => (hLB o ho).2 (e ▸ hs))
      · intro id hid
        exact matchOrders_strategy w mid _ false (fun x hx => (hLB x hx).1) id hid
  obtain ⟨hm, hord, hhas, hcl, hck, hstr⟩ := hfacts
  have hag : Agree S w' w := ⟨hord, fun id h => hhas id (hasS id h), hasS, hm, hcl, hck⟩
  -- A's live list is the same in both worlds
  have hlive : w'.strategyLive mid A = w.strategyLive mid A := by
    unfold strategyLive
    rw [market!_congr w' w hm mid]
    have : ∀ (l : List Nat), (∀ oid ∈ l, oid ∈ (w.market! mid).blotter) →
        (l.map w'.order!).filter (fun o => o.strategy = A ∧ isMwLive o) = (l.map w.order!).filter (fun o => o.strategy = A ∧ isMwLive o) := by
      intro l
      induction l with
      | nil => intro _; rfl
      | cons oid os ih =>
        intro hl
        have hin := hl oid List.mem_cons_self
        have iht := ih (fun x hx => hl x (List.mem_cons_of_mem _ hx))
        simp only [List.map_cons, List.filter_cons]
        by_cases hs : (w.order! oid).strategy = A
        · rw [hord oid ⟨hin, hs⟩, iht]
        · have hs' : (w'.order! oid).strategy ≠ A := by rw [hstr oid (hb oid hin)]; exact hs
          simp only [hs, hs', false_and, decide_false, Bool.false_eq_true, if_false]
          exact iht
    exact this _ (fun _ h => h)
  intro oid hin hsA
  have hSoid : S oid := ⟨hin, hsA⟩
  unfold matchStrategy
  simp only
  rw [hlive]
  by_cases he : (w.strategyLive mid A).isEmpty = true
  · rw [if_pos he, if_pos he]; exact hord oid hSoid
  · rw [if_neg he, if_neg he]
    have hLA : ∀ o ∈ sortOrders (w.strategyLive mid A), S o.id := by
      intro x hx
      obtain ⟨oid', ho', rfl, hs'⟩ := strategyLive_spec w mid A x (mem_sortOrders _ x hx)
      have hid := order!_id w oid' (hb oid' ho')
      rw [hid]; exact ⟨ho', hs'⟩
    exact (matchOrders_agree S mid false _ hLA w' w hag).orders oid hSoid


/-! #### the whole isolated loop: strategy A's outcome is independent of every other strategy -/

/-- v is the world w after strategies other than A were matched: same market table, clients and clock;
    every order of w is still there with its strategy tag; A's orders are exactly as in w -/
structure Untouched (mid A : Nat) (w v : World) : Prop where
  markets : v.markets = w.markets
  clients : v.clients = w.clients
  clock : v.clock = w.clock
  has : ∀ id, HasOrder w id → HasOrder v id
  tag : ∀ id, HasOrder w id → (v.order! id).strategy = (w.order! id).strategy
  same : ∀ id, id ∈ (w.market! mid).blotter → (w.order! id).strategy = A → v.order! id = w.order! id

theorem Untouched.refl (mid A : Nat) (w : World) : Untouched mid A w w :=
  ⟨rfl, rfl, rfl, fun _ h => h, fun _ _ => rfl, fun _ _ _ => rfl⟩

theorem untouched_step (mid A B : Nat) (hAB : A ≠ B) (w v : World)
    (hb : ∀ oid ∈ (w.market! mid).blotter, HasOrder w oid) (h : Untouched mid A w v) :
    Untouched mid A w (matchStrategy mid v B) := by
  have hmk : v.market! mid = w.market! mid := market!_congr v w h.markets mid
  -- B's live orders in v
  have hLB : ∀ x ∈ sortOrders (v.strategyLive mid B), HasOrder v x.id ∧
      ¬ (x.id ∈ (w.market! mid).blotter ∧ (w.order! x.id).strategy = A) := by
    intro x hx
    obtain ⟨oid, ho, rfl, hs⟩ := strategyLive_spec v mid B x (mem_sortOrders _ x hx)
    rw [hmk] at ho
    have hv := h.has oid (hb oid ho)
    have hid := order!_id v oid hv
    rw [hid]
    refine ⟨hv, fun hS => ?_⟩
    have := h.tag oid (hb oid ho)
    rw [hs, hS.2] at this
    exact hAB this.symm
  unfold matchStrategy
  simp only
  split
  · exact h
  · obtain ⟨g1, g2, g3, g4⟩ := fold_frame mid false (sortOrders (v.strategyLive mid B)) v
      ((v.market! mid).analytics.map fun a => (a.sel, a.hc, a.traded)) (fun x hx => (hLB x hx).1)
    refine ⟨(matchOrders_keeps_markets v mid _ false).trans h.markets, g3.trans h.clients, g4.trans h.clock, ?_, ?_, ?_⟩
    · intro id hid; exact g2 id (h.has id hid)
    · intro id hid
      rw [matchOrders_strategy v mid _ false (fun x hx => (hLB x hx).1) id (h.has id hid)]
      exact h.tag id hid
    · intro id hin hsA
      have : (v.matchOrders mid (sortOrders (v.strategyLive mid B)) false).order! id = v.order! id :=
        g1 id (fun o ho e => (hLB o ho).2 (e ▸ ⟨hin, hsA⟩))
      rw [this]; exact h.same id hin hsA

theorem untouched_fold (mid A : Nat) (w : World) (hb : ∀ oid ∈ (w.market! mid).blotter, HasOrder w oid)
    (l : List Nat) (hl : ∀ B ∈ l, A ≠ B) (v : World) (h : Untouched mid A w v) :
    Untouched mid A w (l.foldl (matchStrategy mid) v) := by
  induction l generalizing v with
  | nil => exact h
  | cons B bs ih =>
    rw [List.foldl_cons]
    exact ih (fun x hx => hl x (List.mem_cons_of_mem _ hx)) _ (untouched_step mid A B (hl B List.mem_cons_self) w v hb h)

/-- A's own step gives the same orders of A whether or not other strategies were matched before -/
theorem own_step_agrees (mid A : Nat) (w v : World) (hb : ∀ oid ∈ (w.market! mid).blotter, HasOrder w oid)
    (h : Untouched mid A w v) :
    ∀ oid ∈ (w.market! mid).blotter, (w.order! oid).strategy = A →
      (matchStrategy mid v A).order! oid = (matchStrategy mid w A).order! oid := by
  let S : Nat → Prop := fun id => id ∈ (w.market! mid).blotter ∧ (w.order! id).strategy = A
  have hasS : ∀ id, S id → HasOrder w id := fun id hs => hb id hs.1
  have hag : Agree S v w := ⟨fun id hs => h.same id hs.1 hs.2, fun id hs => h.has id (hasS id hs), hasS, h.markets, h.clients, h.clock⟩
  have hlive : v.strategyLive mid A = w.strategyLive mid A := by
    unfold strategyLive
    rw [market!_congr v w h.markets mid]
    have : ∀ (l : List Nat), (∀ oid ∈ l, oid ∈ (w.market! mid).blotter) →
        (l.map v.order!).filter (fun o => o.strategy = A ∧ isMwLive o) = (l.map w.order!).filter (fun o => o.strategy = A ∧ isMwLive o) := by
      intro l
      induction l with
      | nil => intro _; rfl
      | cons oid os ih =>
        intro hl
        have hin := hl oid List.mem_cons_self
        have iht := ih (fun x hx => hl x (List.mem_cons_of_mem _ hx))
        simp only [List.map_cons, List.filter_cons]
        by_cases hs : (w.order! oid).strategy = A
        · rw [h.same oid hin hs, iht]
        · have hs' : (v.order! oid).strategy ≠ A := by rw [h.tag oid (hb oid hin)]; exact hs
          simp only [hs, hs', false_and, decide_false, Bool.false_eq_true, if_false]
          exact iht
    exact this _ (fun _ hx => hx)
  intro oid hin hsA
  unfold matchStrategy
  simp only
  rw [hlive]
  by_cases he : (w.strategyLive mid A).isEmpty = true
  · rw [if_pos he, if_pos he]; exact h.same oid hin hsA
  · rw [if_neg he, if_neg he]
    have hLA : ∀ o ∈ sortOrders (w.strategyLive mid A), S o.id := by
      intro x hx
      obtain ⟨oid', ho', rfl, hs'⟩ := strategyLive_spec w mid A x (mem_sortOrders _ x hx)
      have hid := order!_id w oid' (hb oid' ho')
      rw [hid]; exact ⟨ho', hs'⟩
    exact (matchOrders_agree S mid false _ hLA v w hag).orders oid ⟨hin, hsA⟩

/-- what A's own step leaves in place: the market table, every order (with its tag) -/
theorem own_step_base (mid A : Nat) (w : World) (hb : ∀ oid ∈ (w.market! mid).blotter, HasOrder w oid) :
    (matchStrategy mid w A).markets = w.markets ∧ (∀ id, HasOrder w id → HasOrder (matchStrategy mid w A) id) ∧
    (∀ id, HasOrder w id → ((matchStrategy mid w A).order! id).strategy = (w.order! id).strategy) := by
  have hLA : ∀ x ∈ sortOrders (w.strategyLive mid A), HasOrder w x.id := by
    intro x hx
    obtain ⟨oid, ho, rfl, _⟩ := strategyLive_spec w mid A x (mem_sortOrders _ x hx)
    rw [order!_id w oid (hb oid ho)]; exact hb oid ho
  unfold matchStrategy
  simp only
  split
  · exact ⟨rfl, fun _ hh => hh, fun _ _ => rfl⟩
  · obtain ⟨_, g2, _, _⟩ := fold_frame mid false (sortOrders (w.strategyLive mid A)) w
      ((w.market! mid).analytics.map fun a => (a.sel, a.hc, a.traded)) hLA
    exact ⟨matchOrders_keeps_markets w mid _ false, g2, fun id hid => matchOrders_strategy w mid _ false hLA id hid⟩

/-- C13 (isolation of the matching loop): with strategy isolation on, the orders of strategy A after
    the whole per-strategy loop - any number of other strategies before and after it, in any order -
    are exactly what matching A alone produces -/
theorem isolated_loop (mid A : Nat) (w : World) (before after_ : List Nat)
    (hb : ∀ oid ∈ (w.market! mid).blotter, HasOrder w oid)
    (h1 : ∀ B ∈ before, A ≠ B) (h2 : ∀ B ∈ after_, A ≠ B) :
    ∀ oid ∈ (w.market! mid).blotter, (w.order! oid).strategy = A →
      ((before ++ A :: after_).foldl (matchStrategy mid) w).order! oid = (matchStrategy mid w A).order! oid := by
  intro oid hin hsA
  rw [List.foldl_append, List.foldl_cons]
  -- the strategies before A
  have hv := untouched_fold mid A w hb before h1 w (Untouched.refl mid A w)
  generalize before.foldl (matchStrategy mid) w = v at hv
  have hown := own_step_agrees mid A w v hb hv oid hin hsA
  -- A's own step, then the strategies after A: base world u
  have hbv : ∀ oid ∈ (v.market! mid).blotter, HasOrder v oid := by
    intro x hx; rw [market!_congr v w hv.markets mid] at hx; exact hv.has x (hb x hx)
  obtain ⟨um, uh, ut⟩ := own_step_base mid A v hbv
  generalize hu : matchStrategy mid v A = u at hown um uh ut
  have hbu : ∀ oid ∈ (u.market! mid).blotter, HasOrder u oid := by
    intro x hx; rw [market!_congr u v um mid] at hx; exact uh x (hbv x hx)
  have hfin := untouched_fold mid A u hbu after_ h2 u (Untouched.refl mid A u)
  have hin_u : oid ∈ (u.market! mid).blotter := by
    rw [market!_congr u v um mid, market!_congr v w hv.markets mid]; exact hin
  have htag_u : (u.order! oid).strategy = A := by
    rw [ut oid (hv.has oid (hb oid hin)), hv.tag oid (hb oid hin)]; exact hsA
  rw [hfin.same oid hin_u htag_u]
  exact hown


/-- `isolated_loop` in every reachable state: its well-formedness hypothesis is an invariant of whole
    runs (`Inv.inv_reachable`), so the statement holds unconditionally after any history -/
theorem isolated_loop_reachable (cfg : Config) (cl : List Client) (ss : List Strategy)
    (us : List (Nat × Book × (Nat → List Action))) (mid A : Nat) (before after_ : List Nat)
    (h1 : ∀ B ∈ before, A ≠ B) (h2 : ∀ B ∈ after_, A ≠ B) :
    ∀ oid ∈ ((Inv.runUpdates { cfg := cfg, clients := cl, strategies := ss } us).market! mid).blotter,
      ((Inv.runUpdates { cfg := cfg, clients := cl, strategies := ss } us).order! oid).strategy = A →
      ((before ++ A :: after_).foldl (matchStrategy mid) (Inv.runUpdates { cfg := cfg, clients := cl, strategies := ss } us)).order! oid =
        (matchStrategy mid (Inv.runUpdates { cfg := cfg, clients := cl, strategies := ss } us) A).order! oid :=
  isolated_loop mid A _ before after_ ((Inv.inv_reachable cfg cl ss us).blotter_hasOrder mid) h1 h2

/-! ### non-vacuity -/

example : processBook (fun c => if c = ⟨.strategy 0, .check⟩ then .raised else .returned true) 2 true false
    [⟨0, true, true⟩, ⟨1, true, false⟩] =
    [⟨.middleware 0, .mw⟩, ⟨.middleware 1, .mw⟩, ⟨.strategy 0, .orders⟩, ⟨.strategy 0, .check⟩, ⟨.strategy 1, .check⟩, ⟨.strategy 1, .book⟩] := by
  decide +kernel


/-- two strategies with one resting order each on the same selection: the loop matches both, and the
    outcome for strategy 0 is that of matching strategy 0 alone (the hypotheses of `isolated_loop` hold) -/
def isoOrder (id strat : Nat) : Order :=
  { id := id, trade := id, strategy := strat, market := 1, sel := 1, status := some .executable, log := [.pending, .executable],
    betId := some (7 + id), sim := { side := .back, kind := .limit, price := 2, size := 10 } }
def isoWorld : World :=
  { orders := [isoOrder 0 0, isoOrder 1 1],
    trades := [{ id := 0, strategy := 0, market := 1, sel := 1, orders := [0] }, { id := 1, strategy := 1, market := 1, sel := 1, orders := [1] }],
    markets := [{ id := 1, blotter := [0, 1], live := [0, 1], hasAnalytics := true, analytics := [{ sel := 1, hc := 0, traded := [(2, 8)] }],
                  book := some { runners := [{ sel := 1, atb := [⟨3, 4⟩], atl := [⟨4, 4⟩] }] } }] }

example : ∀ oid ∈ (isoWorld.market! 1).blotter, HasOrder isoWorld oid := by
  intro oid h
  have : oid = 0 ∨ oid = 1 := by simpa [isoWorld, World.market!, World.market?] using h
  rcases this with rfl | rfl
  · exact ⟨isoOrder 0 0, rfl⟩
  · exact ⟨isoOrder 1 1, rfl⟩
example : (([1, 0].foldl (matchStrategy 1) isoWorld).order! 0).sim.matched = [⟨0, 2, 4⟩] := by decide +kernel
example : ((matchStrategy 1 isoWorld 0).order! 0).sim.matched = [⟨0, 2, 4⟩] := by decide +kernel

end Flumine.C13
