/-
  C07 — Simulated latency and bet delay: no look-ahead and no free speed.
  Model: SimExec.checkPendingPackages (`_check_pending_packages`), Txn.createPackages
  (`_create_order_package` + `calc_simulated_delay`), SimLoop.processMarketBook (ordering of the
  steps of `_process_market_books`), Mw.isMwLive (which orders the matching sees).
-/
import Flumine.SimLoop
import Flumine.Lemmas.Inv
import Mathlib.Tactic.Linarith
namespace Flumine.C07
open Flumine Flumine.World

/-- the packages `_check_pending_packages(market_id)` hands to the execution handler: exactly those of
    this market whose age is strictly MORE than their delay, in queue order -/
def duePackages (w : World) (mid : Nat) : List Package :=
  w.queue.filter fun p => decide (p.market = mid ∧ p.delay < elapsedSeconds w.clock p.created)

theorem checkPending_eq (w : World) (mid : Nat) :
    w.checkPendingPackages mid =
      { (duePackages w mid).foldl (fun w p => w.executePackage p) w with
        queue := ((duePackages w mid).foldl (fun w p => w.executePackage p) w).queue.filter
          fun p => !((duePackages w mid).any (·.id = p.id)) } := by
  unfold checkPendingPackages duePackages
  rfl

/-- C07.1 (membership) a package is executed at this update **iff** it is of this market and the
    update is more than its delay after the request; equality (an update exactly `delay` later) is not enough -/
theorem executed_iff_due (w : World) (mid : Nat) (p : Package) :
    p ∈ duePackages w mid ↔ (p ∈ w.queue ∧ p.market = mid ∧ p.delay < elapsedSeconds w.clock p.created) := by
  unfold duePackages
  rw [List.mem_filter, decide_eq_true_iff]

theorem not_due_at_boundary (w : World) (mid : Nat) (p : Package)
    (h : elapsedSeconds w.clock p.created = p.delay) : p ∉ duePackages w mid := by
  rw [executed_iff_due]
  intro ⟨_, _, hlt⟩
  rw [h] at hlt
  exact lt_irrefl _ hlt

theorem other_market_never_due (w : World) (mid : Nat) (p : Package) (h : p.market ≠ mid) :
    p ∉ duePackages w mid := by
  rw [executed_iff_due]; intro ⟨_, hm, _⟩; exact h hm

/-- elapsed time in seconds between two millisecond publish times -/
theorem elapsed_def (now created : Time) : elapsedSeconds now created = ((now - created : Int) : Rat) / 1000 := rfl

theorem foldl_addPackage (kind : PackKind) (t : Txn) (d bd : Rat) (packs : List (Option Int × List Nat)) (w : World) :
    (packs.foldl (addPackage kind t d bd) w).clock = w.clock ∧
    ∀ p ∈ (packs.foldl (addPackage kind t d bd) w).queue,
      p ∈ w.queue ∨ (p.created = w.clock ∧ p.delay = d ∧ p.kind = kind ∧ p.market = t.market) := by
  induction packs generalizing w with
  | nil => exact ⟨rfl, fun p hp => Or.inl hp⟩
  | cons x rest ih =>
    obtain ⟨h1, h2⟩ := ih (addPackage kind t d bd w x)
    refine ⟨h1, ?_⟩
    intro p hp
    rcases h2 p hp with h | h
    · rcases List.mem_append.mp h with h | h
      · exact Or.inl h
      · simp at h; subst h; exact Or.inr ⟨rfl, rfl, rfl, rfl⟩
    · exact Or.inr h

/-- C07.1/4 every package created by a transaction carries the request time (the clock) as its
    creation time and, as its delay, the latency of its kind plus — for placements and replacements
    only — the bet delay of the market's book current at request time -/
theorem created_package (w : World) (t : Txn) (pend : List (Nat × Option Int)) (kind : PackKind) :
    ∀ p ∈ (w.createPackages t pend kind).queue, p ∈ w.queue ∨
      (p.created = w.clock ∧ p.kind = kind ∧ p.market = t.market ∧
       p.delay = delayOf w.cfg kind (((w.market! t.market).book).getD {}).betDelay) := by
  intro p hp
  rcases (foldl_addPackage kind t _ _ (packsOf pend kind) w).2 p hp with h | ⟨a, b, c, d⟩
  · exact Or.inl h
  · exact Or.inr ⟨a, c, d, b⟩

theorem delay_place_replace (cfg : Config) (bd : Rat) :
    delayOf cfg .place bd = cfg.placeLatency + bd ∧ delayOf cfg .replace bd = cfg.replaceLatency + bd ∧
    delayOf cfg .cancel bd = cfg.cancelLatency ∧ delayOf cfg .update bd = cfg.updateLatency := ⟨rfl, rfl, rfl, rfl⟩

/-- C07.2/5 order of the steps of one update: the clock is set to the publish time first, the due
    packages are executed next — *before* the market object receives the new book, so the handlers
    read the book that prevailed immediately before this update — and only then is the book installed,
    the middleware run, the orders completed and the strategies called. -/
theorem update_order_of_steps (w : World) (mid : Nat) (book : Book) (script : Nat → List Action)
    (hq : w.queue ≠ []) (hopen : book.status ≠ .closed) :
    ∃ cont : World → World × List (Nat × List String),
      w.processMarketBook mid book script = cont (({ w with clock := book.pt } : World).checkPendingPackages mid) ∧
      (({ w with clock := book.pt } : World).market? mid = w.market? mid) := by
  refine ⟨fun w1 =>
    let isNew := (w1.market? mid).isNone
    let w2 := if isNew then (({ w1 with markets := w1.markets ++ [({ id := mid, book := some book } : Market)] } : World).emit (.marketEvent mid))
             else if (w1.market! mid).closed then w1.modifyMarket mid fun m => { m with closed := false }
             else w1
    let w3 := w2.modifyMarket mid fun m => { m with book := some book }
    let w4 := w3.simulatedMiddleware mid
    let w5 := if (w4.market! mid).active then w4.processSimulatedOrders mid else w4
    w5.strategies.foldl (fun (acc : World × List (Nat × List String)) s =>
      let (w, outs) := acc
      if s.streams.contains book.streamId then
        let w := if isNew then w.emit (.newMarket s.id mid) else w
        let w := w.emit (.bookCallback s.id mid book.pt)
        let (w, rs) := w.doActions mid (script s.id)
        (w, outs ++ [(s.id, rs)])
      else (w, outs)) (w5, []), ?_, rfl⟩
  unfold processMarketBook setClock
  have hne : (({ w with clock := book.pt } : World).queue.isEmpty) = false := by
    cases hw : w.queue with
    | nil => exact absurd hw hq
    | cons _ _ => simp [hw]
  simp only [hne, Bool.false_eq_true, if_false, hopen]

/-- C07.5 the clock during an update is its publish time -/
theorem clock_is_publish_time (w : World) (pt : Time) : (w.setClock pt).clock = pt := rfl

/-- C07.3 which orders the simulated matching touches -/
theorem pending_not_matched (o : Order) (h : o.status = some .pending) : isMwLive o = false := by
  unfold isMwLive; rw [h]; decide

theorem in_flight_matched_as_executable (o : Order)
    (h : o.status = some .cancelling ∨ o.status = some .updating ∨ o.status = some .replacing ∨ o.status = some .executable) :
    isMwLive o = true := by
  unfold isMwLive
  rcases h with h | h | h | h <;> rw [h] <;> decide

/-- non-vacuity: a package requested at t = 1000 ms with delay 0.12 s is not due at 1120 ms and is due at 1121 ms -/
def samplePkg : Package := { id := 0, kind := .place, market := 1, orders := [0], created := 1000, delay := 12 / 100, client := 0 }
example : (duePackages { clock := 1120, queue := [samplePkg] } 1).length = 0 ∧
          (duePackages { clock := 1121, queue := [samplePkg] } 1).length = 1 := by
  decide +kernel


/-! ### the queue in every reachable state -/

/-- whatever the history - any sequence of updates, any scripted requests, batched or not - every package
    waiting in the simulation's queue refers only to orders that exist: the delayed execution of a package
    (`executePackage`, whose handlers look their orders up by id) never acts on a phantom order -/
theorem queued_packages_refer_to_orders (cfg : Config) (cl : List Client) (ss : List Strategy)
    (us : List (Nat × Book × (Nat → List Action))) :
    ∀ p ∈ (Inv.runUpdates { cfg := cfg, clients := cl, strategies := ss } us).queue,
      ∀ oid ∈ (Inv.runUpdates { cfg := cfg, clients := cl, strategies := ss } us).packageOrders p,
        OL.HasOrder (Inv.runUpdates { cfg := cfg, clients := cl, strategies := ss } us) oid := by
  intro p hp oid ho
  have h := (Inv.inv_reachable cfg cl ss us).queue p hp oid (List.mem_filter.mp ho).1
  exact (Ids.hasOrder_iff _ oid).mpr h

end Flumine.C07
