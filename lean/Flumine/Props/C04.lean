/-
  C04 — Simulated order sizes are conserved.
  The remainder is *derived* from the buckets in code and model alike, so the content is: the
  remainder and the matched size never go negative, matched never decreases (except at a void),
  a cancel never takes more than remains, lapses / failed placements / voids empty the remainder —
  for every reachable state of an order, by induction over operation sequences.
-/
import Flumine.SimOrder
import Flumine.Mw
import Flumine.Lemmas.Round
import Flumine.Lemmas.Cents
import Mathlib.Tactic.Linarith
import Mathlib.Tactic.Ring
namespace Flumine.C04
open Flumine Flumine.SimOrder

/-- the un-rounded remainder -/
def rawRem (o : SimOrder) : Rat := o.size - o.sizeMatched - o.sizeCancelled - o.sizeLapsed - o.sizeVoided

theorem remaining_def (o : SimOrder) (hk : o.kind = .limit) : o.sizeRemaining = round2 (rawRem o) := by
  unfold sizeRemaining rawRem; simp [hk]

/-- C04 bucket identity: requested size = matched + remaining + cancelled + lapsed + voided
    (exact whenever the buckets are 2dp amounts; the remainder is a 2dp rounding of the difference) -/
theorem bucket_identity (o : SimOrder) (hk : o.kind = .limit) (hc : IsCents (rawRem o)) :
    o.size = o.sizeMatched + o.sizeRemaining + o.sizeCancelled + o.sizeLapsed + o.sizeVoided := by
  rw [remaining_def o hk, round2_of_isCents hc]; unfold rawRem; ring

theorem sub_le_remaining_nonneg (x s : Rat) (hs : s ≤ round2 x) : 0 ≤ round2 (x - s) := by
  have h1 : x - round2 x ≤ x - s := by linarith
  have h2 := round2_mono h1
  rwa [round2_residual] at h2

/-! ### the state invariant -/

def sumSizes (m : List Frag) : Rat := sumRat (m.map fun f => f.size)

/-- well-formed fragments: 2dp non-negative sizes at positive prices -/
def FragsOk (m : List Frag) : Prop := ∀ f ∈ m, IsCents f.size ∧ 0 ≤ f.size ∧ 0 < f.price

structure Inv (o : SimOrder) : Prop where
  limit : o.kind = .limit
  frags : FragsOk o.matched
  matched : o.sizeMatched = sumSizes o.matched
  remNonneg : 0 ≤ o.sizeRemaining

theorem sumSizes_append (m : List Frag) (f : Frag) : sumSizes (m ++ [f]) = sumSizes m + f.size := by
  unfold sumSizes
  induction m with
  | nil => simp [sumRat]
  | cons x xs ih => simp only [List.cons_append, List.map_cons, sumRat, ih]; ring

theorem sumSizes_nonneg (m : List Frag) (h : FragsOk m) : 0 ≤ sumSizes m := by
  induction m with
  | nil => simp [sumSizes, sumRat]
  | cons x xs ih =>
    have hx := h x (by simp)
    have := ih (fun f hf => h f (List.mem_cons_of_mem _ hf))
    simp only [sumSizes, List.map_cons, sumRat] at *
    linarith [hx.2.1]

theorem sumSizes_cents (m : List Frag) (h : FragsOk m) : IsCents (sumSizes m) := by
  induction m with
  | nil => exact ⟨0, by simp [sumSizes, sumRat]⟩
  | cons x xs ih =>
    have hx := h x (by simp)
    have := ih (fun f hf => h f (List.mem_cons_of_mem _ hf))
    simp only [sumSizes, List.map_cons, sumRat] at *
    exact hx.1.add this

theorem sumPS_pos (m : List Frag) (h : FragsOk m) (hb : sumSizes m ≠ 0) :
    0 < sumRat (m.map fun f => f.price * f.size) := by
  induction m with
  | nil => simp [sumSizes, sumRat] at hb
  | cons x xs ih =>
    have hx := h x (by simp)
    have hxs : FragsOk xs := fun f hf => h f (List.mem_cons_of_mem _ hf)
    simp only [List.map_cons, sumRat]
    by_cases hz : sumSizes xs = 0
    · have hxne : x.size ≠ 0 := by
        intro e; apply hb; simp only [sumSizes, List.map_cons, sumRat] at *; rw [e, hz]; ring
      have hxpos : 0 < x.size := lt_of_le_of_ne hx.2.1 (Ne.symm hxne)
      have h1 : 0 < x.price * x.size := mul_pos hx.2.2 hxpos
      have h2 : 0 ≤ sumRat (xs.map fun f => f.price * f.size) := by
        clear ih hz hb
        induction xs with
        | nil => simp [sumRat]
        | cons y ys ih2 =>
          have hy := hxs y (by simp)
          simp only [List.map_cons, sumRat]
          have := ih2 (fun f hf => by
            rcases List.mem_cons.mp hf with rfl | hf
            · exact h f (by simp)
            · exact h f (by simp [hf])) (fun f hf => hxs f (List.mem_cons_of_mem _ hf))
          have hm : 0 ≤ y.price * y.size := mul_nonneg (le_of_lt hy.2.2) hy.2.1
          linarith
      linarith
    · have := ih hxs hz
      have hm : 0 ≤ x.price * x.size := mul_nonneg (le_of_lt hx.2.2) hx.2.1
      linarith

/-- under the invariant's fragment condition `wap` reports exactly the sum of the fragment sizes -/
theorem wap_size (m : List Frag) (h : FragsOk m) : (wap m).1 = sumSizes m := by
  unfold wap
  by_cases he : m = []
  · subst he; simp [sumSizes, sumRat]
  · have hemp : m.isEmpty = false := by cases m <;> simp_all
    simp only [hemp]
    by_cases hb : sumSizes m = 0
    · have : sumRat (m.map fun f => f.size) = 0 := hb
      simp [this, hb]
    · have hpos := sumPS_pos m h hb
      have hb' : sumRat (m.map fun f => f.size) ≠ 0 := hb
      have ha' : sumRat (m.map fun f => f.price * f.size) ≠ 0 := ne_of_gt hpos
      simp only [hb', ha', or_self, if_false, Bool.false_eq_true]
      exact round2_of_isCents (sumSizes_cents m h)

/-- appending a well-formed fragment of size `s ≤ remaining` keeps the invariant -/
theorem inv_updateMatched (o : SimOrder) (f : Frag) (hi : Inv o)
    (hf : IsCents f.size ∧ 0 ≤ f.size ∧ 0 < f.price) (hle : f.size ≤ o.sizeRemaining) :
    Inv (o.updateMatched f) ∧ o.sizeMatched ≤ (o.updateMatched f).sizeMatched := by
  have hfr : FragsOk (o.matched ++ [f]) := by
    intro g hg
    rcases List.mem_append.mp hg with h | h
    · exact hi.frags g h
    · simp at h; subst h; exact hf
  have hm : (o.updateMatched f).sizeMatched = sumSizes (o.matched ++ [f]) := by
    show (wap (o.matched ++ [f])).1 = _
    exact wap_size _ hfr
  have hm2 : (o.updateMatched f).sizeMatched = o.sizeMatched + f.size := by
    rw [hm, sumSizes_append, hi.matched]
  refine ⟨⟨hi.limit, hfr, hm, ?_⟩, by rw [hm2]; linarith [hf.2.1]⟩
  have hk : (o.updateMatched f).kind = .limit := hi.limit
  rw [remaining_def _ hk]
  have e : rawRem (o.updateMatched f) = rawRem o - f.size := by
    unfold rawRem
    show o.size - (o.updateMatched f).sizeMatched - o.sizeCancelled - o.sizeLapsed - o.sizeVoided = _
    rw [hm2]; ring
  rw [e]
  apply sub_le_remaining_nonneg
  rw [← remaining_def o hi.limit]; exact hle

/-! ### cancel -/

theorem cancel_notOpen (o : SimOrder) (st : MStatus) (red : Option Rat) (h : st ≠ .open_) :
    o.cancel st red = (o, { status := .failure, errorCode := some "ERROR_IN_ORDER" }) := by
  unfold cancel; rw [if_pos h]

theorem cancel_open (o : SimOrder) (red : Option Rat) (hk : o.kind = .limit) :
    o.cancel .open_ red =
      ({ o with sizeCancelled := o.sizeCancelled + ratMin (effRed o red) o.sizeRemaining },
       { status := .success, sizeCancelled := ratMin (effRed o red) o.sizeRemaining }) := by
  unfold cancel
  simp only [ne_eq, not_true_eq_false, if_false, hk]

/-- C04 a cancel (full, partial, or larger than the remainder) never cancels more than remains,
    leaves the remainder non-negative and leaves matched untouched -/
theorem cancel_inv (o : SimOrder) (st : MStatus) (red : Option Rat) (hi : Inv o)
    (hred : ∀ r, red = some r → 0 ≤ r) :
    Inv (o.cancel st red).1 ∧ (o.cancel st red).1.sizeMatched = o.sizeMatched ∧
    (o.cancel st red).2.sizeCancelled ≤ o.sizeRemaining ∧ 0 ≤ (o.cancel st red).2.sizeCancelled := by
  by_cases hst : st = .open_
  · subst hst
    rw [cancel_open o red hi.limit]
    have hr0 : 0 ≤ effRed o red := by
      unfold effRed
      cases red with
      | none => exact hi.remNonneg
      | some v =>
        simp only
        split_ifs
        · exact hi.remNonneg
        · exact hred v rfl
    have hc1 : ratMin (effRed o red) o.sizeRemaining ≤ o.sizeRemaining := by
      unfold ratMin; split_ifs <;> linarith
    have hc0 : 0 ≤ ratMin (effRed o red) o.sizeRemaining := by
      unfold ratMin; split_ifs <;> linarith [hi.remNonneg]
    refine ⟨⟨hi.limit, hi.frags, hi.matched, ?_⟩, rfl, hc1, hc0⟩
    have hk : ({ o with sizeCancelled := o.sizeCancelled + ratMin (effRed o red) o.sizeRemaining } : SimOrder).kind = .limit := hi.limit
    rw [remaining_def _ hk]
    have e : rawRem ({ o with sizeCancelled := o.sizeCancelled + ratMin (effRed o red) o.sizeRemaining } : SimOrder)
        = rawRem o - ratMin (effRed o red) o.sizeRemaining := by unfold rawRem; ring
    rw [e]
    apply sub_le_remaining_nonneg
    rw [← remaining_def o hi.limit]; exact hc1
  · rw [cancel_notOpen o st red hst]
    exact ⟨hi, rfl, hi.remNonneg, le_refl _⟩

/-- a full cancel (no size reduction) on an open market leaves nothing remaining -/
theorem cancel_full (o : SimOrder) (hk : o.kind = .limit) :
    (o.cancel .open_ none).1.sizeRemaining = 0 := by
  rw [cancel_open o none hk]
  have : ratMin (effRed o none) o.sizeRemaining = o.sizeRemaining := by unfold ratMin effRed; simp
  rw [this]
  have hk' : ({ o with sizeCancelled := o.sizeCancelled + o.sizeRemaining } : SimOrder).kind = .limit := hk
  rw [remaining_def _ hk', remaining_def o hk]
  have e : rawRem ({ o with sizeCancelled := o.sizeCancelled + round2 (rawRem o) } : SimOrder)
      = rawRem o - round2 (rawRem o) := by unfold rawRem; ring
  rw [e]; exact round2_residual _

/-- a refused cancel (market not open, or not a limit order) changes nothing -/
theorem cancel_failure_noop (o : SimOrder) (st : MStatus) (red : Option Rat) (h : st ≠ .open_) :
    (o.cancel st red).1 = o ∧ (o.cancel st red).2.status = .failure := by
  rw [cancel_notOpen o st red h]; exact ⟨rfl, rfl⟩

/-! ### passive matching from traded volume -/

/-- the size `_calculate_process_traded` matches once the queue ahead has traded -/
def tradedSize (o : SimOrder) (ts : Rat) : Rat := round2 (ratMin o.sizeRemaining (ts / 2 - o.piq))

theorem cpt_eq (o : SimOrder) (pt : Int) (ts : Rat) :
    o.calculateProcessTraded pt ts =
      if o.piq - ts / 2 < 0 then
        ({ (if tradedSize o ts ≠ 0 then o.updateMatched ⟨pt, o.price, tradedSize o ts⟩ else o) with piq := 0 },
          (o.piq + tradedSize o ts) * 2)
      else ({ o with piq := o.piq - ts / 2 }, ts) := rfl

theorem processTraded_cons_fst (pt : Int) (tp ts : Rat) (rest : List (Rat × Rat)) (o : SimOrder) :
    (processTraded pt ((tp, ts) :: rest) o).1 =
      if eligible o tp = true then (processTraded pt rest (o.calculateProcessTraded pt ts).1).1
      else (processTraded pt rest o).1 := by
  by_cases he : eligible o tp = true
  · rw [if_pos he]
    simp only [processTraded]
    rw [if_pos he]
  · rw [if_neg he]
    simp only [processTraded]
    rw [if_neg he]

theorem calculateProcessTraded_inv (o : SimOrder) (pt : Int) (ts : Rat) (hi : Inv o) (hp : 0 < o.price) :
    Inv (o.calculateProcessTraded pt ts).1 ∧ o.sizeMatched ≤ (o.calculateProcessTraded pt ts).1.sizeMatched := by
  rw [cpt_eq]
  by_cases hq : o.piq - ts / 2 < 0
  · rw [if_pos hq]
    have hmin0 : 0 ≤ ratMin o.sizeRemaining (ts / 2 - o.piq) := by
      unfold ratMin; split_ifs <;> linarith [hi.remNonneg]
    have hs0 : 0 ≤ tradedSize o ts := round2_nonneg hmin0
    have hsle : tradedSize o ts ≤ o.sizeRemaining := by
      have h1 : ratMin o.sizeRemaining (ts / 2 - o.piq) ≤ o.sizeRemaining := by
        unfold ratMin; split_ifs <;> linarith
      have h2 := round2_mono h1
      have h3 : round2 o.sizeRemaining = o.sizeRemaining := by
        rw [remaining_def o hi.limit, round2_idem]
      rw [h3] at h2
      exact h2
    by_cases hz : tradedSize o ts ≠ 0
    · rw [if_pos hz]
      obtain ⟨a, b⟩ := inv_updateMatched o ⟨pt, o.price, tradedSize o ts⟩ hi ⟨round2_isCents _, hs0, hp⟩ hsle
      exact ⟨⟨a.limit, a.frags, a.matched, a.remNonneg⟩, b⟩
    · rw [if_neg hz]
      exact ⟨⟨hi.limit, hi.frags, hi.matched, hi.remNonneg⟩, le_refl _⟩
  · rw [if_neg hq]
    exact ⟨⟨hi.limit, hi.frags, hi.matched, hi.remNonneg⟩, le_refl _⟩

theorem calculateProcessTraded_price (o : SimOrder) (pt : Int) (ts : Rat) :
    (o.calculateProcessTraded pt ts).1.price = o.price := by
  rw [cpt_eq]
  split_ifs <;> rfl

/-- C04 passive matching over a whole traded dict keeps the invariant and never decreases matched -/
theorem processTraded_inv (pt : Int) (traded : List (Rat × Rat)) (o : SimOrder) (hi : Inv o) (hp : 0 < o.price) :
    Inv (processTraded pt traded o).1 ∧ o.sizeMatched ≤ (processTraded pt traded o).1.sizeMatched := by
  induction traded generalizing o with
  | nil => exact ⟨hi, le_refl _⟩
  | cons x rest ih =>
    obtain ⟨tp, ts⟩ := x
    rw [processTraded_cons_fst]
    by_cases he : eligible o tp = true
    · rw [if_pos he]
      obtain ⟨a, b⟩ := calculateProcessTraded_inv o pt ts hi hp
      obtain ⟨c, d⟩ := ih (o.calculateProcessTraded pt ts).1 a (by rw [calculateProcessTraded_price]; exact hp)
      exact ⟨c, le_trans b d⟩
    · rw [if_neg he]
      exact ih o hi hp

theorem processTraded_price (pt : Int) (traded : List (Rat × Rat)) (o : SimOrder) :
    (processTraded pt traded o).1.price = o.price := by
  induction traded generalizing o with
  | nil => rfl
  | cons x rest ih =>
    obtain ⟨tp, ts⟩ := x
    rw [processTraded_cons_fst]
    split_ifs
    · rw [ih, calculateProcessTraded_price]
    · exact ih o

/-! ### lapse, failed placement, void -/

/-- the lapse on suspension (and the lapse / void / cancel of a failed placement) moves the whole
    remainder: nothing remains, nothing else changes -/
theorem lapse_all (o : SimOrder) (hi : Inv o) :
    Inv { o with sizeLapsed := o.sizeLapsed + o.sizeRemaining } ∧
    ({ o with sizeLapsed := o.sizeLapsed + o.sizeRemaining } : SimOrder).sizeRemaining = 0 := by
  have hz : ({ o with sizeLapsed := o.sizeLapsed + o.sizeRemaining } : SimOrder).sizeRemaining = 0 := by
    have hk : ({ o with sizeLapsed := o.sizeLapsed + o.sizeRemaining } : SimOrder).kind = .limit := hi.limit
    rw [remaining_def _ hk, remaining_def o hi.limit]
    have e : rawRem ({ o with sizeLapsed := o.sizeLapsed + round2 (rawRem o) } : SimOrder)
        = rawRem o - round2 (rawRem o) := by unfold rawRem; ring
    rw [e]; exact round2_residual _
  exact ⟨⟨hi.limit, hi.frags, hi.matched, by rw [hz]⟩, hz⟩

theorem void_all (o : SimOrder) (hi : Inv o) :
    ({ o with sizeVoided := o.sizeVoided + o.sizeRemaining } : SimOrder).sizeRemaining = 0 := by
  have hk : ({ o with sizeVoided := o.sizeVoided + o.sizeRemaining } : SimOrder).kind = .limit := hi.limit
  rw [remaining_def _ hk, remaining_def o hi.limit]
  have e : rawRem ({ o with sizeVoided := o.sizeVoided + round2 (rawRem o) } : SimOrder)
      = rawRem o - round2 (rawRem o) := by unfold rawRem; ring
  rw [e]; exact round2_residual _

/-- C04 / C09 the void of a runner removal (after fix 9e33719): whatever the order's buckets were —
    matched, partly cancelled, lapsed — afterwards nothing is matched, nothing remains, and the whole
    requested size is voided. -/
theorem removal_void_total (w : World) (m : Market) (rsel : Nat) (rhc : Rat) (raf : Option Rat) (o : Order)
    (hk : o.sim.kind = .limit) (hon : o.market = m.id ∧ o.sel = rsel ∧ o.hc = rhc) :
    let o' := w.removalOnOrder m rsel rhc raf o
    o'.sim.sizeMatched = 0 ∧ o'.sim.matched = [] ∧ o'.sim.sizeCancelled = 0 ∧ o'.sim.sizeLapsed = 0 ∧
    o'.sim.sizeVoided = o.sim.size ∧ o'.sim.sizeRemaining = 0 := by
  intro o'
  have e : o' = { o with sim := { o.sim with sizeMatched := 0, avgPrice := 0, matched := [], sizeVoided := o.sim.size,
                                             sizeCancelled := 0, sizeLapsed := 0, bspReconciled := true } } := by
    show w.removalOnOrder m rsel rhc raf o = _
    unfold World.removalOnOrder
    simp [hon, hk]
  rw [e]
  refine ⟨rfl, rfl, rfl, rfl, rfl, ?_⟩
  unfold sizeRemaining
  simp only [hk]
  have : o.sim.size - 0 - 0 - 0 - o.sim.size = 0 := by ring
  rw [this]; exact round2_zero

/-! ### every reachable state: induction over operation sequences -/

/-- operations on a resting simulated limit order (after a successful placement) -/
inductive Op
  | cancel (st : MStatus) (red : Option Rat)        -- any reduction ≥ 0, also larger than the remainder
  | update (book : BookView) (pers : String)
  | traded (pt : Int) (t : List (Rat × Rat))        -- any traded dict
  | lapse                                           -- suspension with a version change, persistence LAPSE

def OpOk : Op → Prop
  | .cancel _ red => ∀ r, red = some r → 0 ≤ r
  | _ => True

def step (o : SimOrder) : Op → SimOrder
  | .cancel st red => (o.cancel st red).1
  | .update book pers => (o.update book pers).1
  | .traded pt t => (processTraded pt t o).1
  | .lapse => { o with sizeLapsed := o.sizeLapsed + o.sizeRemaining }

theorem cancel_price (o : SimOrder) (st : MStatus) (red : Option Rat) : (o.cancel st red).1.price = o.price := by
  by_cases hst : st = .open_
  · subst hst
    unfold cancel
    simp only [ne_eq, not_true_eq_false, if_false]
    split <;> rfl
  · rw [cancel_notOpen o st red hst]

theorem update_fst (o : SimOrder) (book : BookView) (pers : String) :
    (o.update book pers).1 = o ∨ (o.update book pers).1 = { o with persistence := pers } := by
  unfold update
  split_ifs
  · left; rfl
  · left; rfl
  · right; rfl
  · left; rfl

theorem step_price (o : SimOrder) (op : Op) : (step o op).price = o.price := by
  cases op with
  | cancel st red => exact cancel_price o st red
  | update book pers =>
    show (o.update book pers).1.price = o.price
    rcases update_fst o book pers with h | h <;> rw [h]
  | traded pt t => exact processTraded_price pt t o
  | lapse => rfl

theorem step_inv (o : SimOrder) (op : Op) (hi : Inv o) (hp : 0 < o.price) (hok : OpOk op) :
    Inv (step o op) ∧ o.sizeMatched ≤ (step o op).sizeMatched := by
  cases op with
  | cancel st red =>
    obtain ⟨a, b, _, _⟩ := cancel_inv o st red hi hok
    exact ⟨a, by show o.sizeMatched ≤ (o.cancel st red).1.sizeMatched; rw [b]⟩
  | update book pers =>
    show Inv (o.update book pers).1 ∧ o.sizeMatched ≤ (o.update book pers).1.sizeMatched
    rcases update_fst o book pers with h | h <;> rw [h]
    · exact ⟨hi, le_refl _⟩
    · exact ⟨⟨hi.limit, hi.frags, hi.matched, hi.remNonneg⟩, le_refl _⟩
  | traded pt t => exact processTraded_inv pt t o hi hp
  | lapse => exact ⟨(lapse_all o hi).1, le_refl _⟩

/-- C04 for **every** sequence of cancels (full / partial / over-sized), updates, traded-volume
    updates and lapses applied to a resting order: the remainder and the matched size stay
    non-negative and the matched size never decreases. -/
theorem reachable_inv (ops : List Op) (o : SimOrder) (hi : Inv o) (hp : 0 < o.price) (hok : ∀ op ∈ ops, OpOk op) :
    Inv (ops.foldl step o) ∧ o.sizeMatched ≤ (ops.foldl step o).sizeMatched ∧ 0 ≤ (ops.foldl step o).sizeMatched := by
  induction ops generalizing o with
  | nil =>
    refine ⟨hi, le_refl _, ?_⟩
    show 0 ≤ o.sizeMatched
    rw [hi.matched]; exact sumSizes_nonneg _ hi.frags
  | cons op rest ih =>
    obtain ⟨a, b⟩ := step_inv o op hi hp (hok op (by simp))
    obtain ⟨c, d, e⟩ := ih (step o op) a (by rw [step_price]; exact hp) (fun x hx => hok x (List.mem_cons_of_mem _ hx))
    exact ⟨c, le_trans b d, e⟩

/-- non-vacuity: a freshly placed resting order satisfies the invariant -/
def resting : SimOrder := { side := .back, kind := .limit, price := 2, size := 10 }

theorem resting_inv : Inv resting :=
  ⟨rfl, by intro f hf; simp [resting] at hf, by simp [resting, sumSizes, sumRat], by decide +kernel⟩

example : (([Op.traded 5 [(3, 8)], Op.cancel .open_ (some 100), Op.lapse] : List Op).foldl step resting).sizeMatched = 4 := by
  decide +kernel

end Flumine.C04
