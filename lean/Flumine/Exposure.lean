/-
  Exposure.lean — flumine/utils.py calculate_matched_exposure / calculate_unmatched_exposure and
  flumine/markets/blotter.py get_exposures / selection_exposure / market_exposure.
  An order is seen through the attributes those functions read (`XOrder`).
-/
import Flumine.Num
import Flumine.Generated
namespace Flumine

inductive OKind | limit | limitOnClose | marketOnClose
  deriving DecidableEq, Repr, Inhabited

/-- the attributes of an order that the exposure code reads -/
structure XOrder where
  id : Nat                      -- identity (python `order == exclusion` is identity)
  sel : Nat                     -- index of the (selection, handicap) lookup
  side : Side
  kind : OKind
  lineRange : Bool              -- price_ladder_definition == "LINE_RANGE"
  price : Option Rat            -- order_type.price (LIMIT / LIMIT_ON_CLOSE)
  status : Option Status        -- None before the order is placed
  complete : Bool
  sizeMatched : Rat
  avgPrice : Rat
  sizeRemaining : Rat
  liability : Rat               -- SP orders
  deriving Repr, Inhabited

/-- `(price, size)` lists built by get_exposures -/
structure Buckets where
  mb : List (Rat × Rat) := []
  ml : List (Rat × Rat) := []
  ub : List (Rat × Rat) := []
  ul : List (Rat × Rat) := []
  mocWin : Rat := 0
  mocLose : Rat := 0
  deriving Repr

def isPendingStatus (s : Option Status) : Bool :=
  match s with
  | none => false
  | some st => Gen.blotterPendingStatus.contains st

/-- one iteration of the `for order in ...` loop of get_exposures -/
def addOrder (excl : Option Nat) (b : Buckets) (o : XOrder) : Buckets :=
  if excl = some o.id then b
  else if isPendingStatus o.status then b
  else match o.kind with
    | .limit =>
      let b1 :=
        if o.sizeMatched ≠ 0 then
          let ap := if o.lineRange then 2 else o.avgPrice
          match o.side with
          | .back => { b with mb := b.mb ++ [(ap, o.sizeMatched)] }
          | .lay => { b with ml := b.ml ++ [(ap, o.sizeMatched)] }
        else b
      if !o.complete then
        let p : Option Rat := if o.lineRange then some 2 else o.price
        match p with
        | some pr =>
          if pr ≠ 0 ∧ o.sizeRemaining ≠ 0 then
            match o.side with
            | .back => { b1 with ub := b1.ub ++ [(pr, o.sizeRemaining)] }
            | .lay => { b1 with ul := b1.ul ++ [(pr, o.sizeRemaining)] }
          else b1
        | none => b1
      else b1
    | _ =>
      match o.side with
      | .back => { b with mocLose := b.mocLose - o.liability }
      | .lay => { b with mocWin := b.mocWin - o.liability }

/-- the prospective order is counted in full whatever status an earlier attempt left it in (a refused
    order that is placed again still carries VIOLATION, which also counts as complete): the status
    filter and `complete` do not apply to it; the exclusion does -/
def addNew (excl : Option Nat) (b : Buckets) (o : XOrder) : Buckets :=
  if excl = some o.id then b else addOrder none b { o with status := none, complete := false }

def buckets (orders : List XOrder) (excl : Option Nat) (newOrder : Option XOrder) : Buckets :=
  match newOrder with
  | none => orders.foldl (addOrder excl) {}
  | some n => addNew excl ((orders.filter fun o => o.id ≠ n.id).foldl (addOrder excl) {}) n

def sumStake (l : List (Rat × Rat)) : Rat := sumRat (l.map fun (_, s) => s)
def sumRisk (l : List (Rat × Rat)) : Rat := sumRat (l.map fun (p, s) => (p - 1) * s)

/-- exact (unrounded) matched exposure: (profit if win, profit if lose) -/
def matchedExact (mb ml : List (Rat × Rat)) : Rat × Rat :=
  (sumRisk mb - sumRisk ml, sumStake ml - sumStake mb)

/-- calculate_matched_exposure -/
def calcMatched (mb ml : List (Rat × Rat)) : Rat × Rat :=
  if mb.isEmpty && ml.isEmpty then (0, 0)
  else let e := matchedExact mb ml; (round2 e.1, round2 e.2)

def unmatchedExact (ub ul : List (Rat × Rat)) : Rat × Rat :=
  (-(sumRisk ul), -(sumStake ub))

/-- calculate_unmatched_exposure -/
def calcUnmatched (ub ul : List (Rat × Rat)) : Rat × Rat :=
  if ub.isEmpty && ul.isEmpty then (0, 0)
  else let e := unmatchedExact ub ul; (round2 e.1, round2 e.2)

structure Exposures where
  matchedWin : Rat
  matchedLose : Rat
  unmatchedWin : Rat
  unmatchedLose : Rat
  worstWin : Rat
  worstLose : Rat
  deriving Repr

def exposuresOf (b : Buckets) : Exposures :=
  let m := calcMatched b.mb b.ml
  let u := calcUnmatched b.ub b.ul
  { matchedWin := m.1, matchedLose := m.2, unmatchedWin := u.1, unmatchedLose := u.2,
    worstWin := m.1 + u.1 + b.mocWin, worstLose := m.2 + u.2 + b.mocLose }

/-- `Blotter.get_exposures(strategy, lookup, exclusion, new_order)`; `orders` is the
    strategy's order list of the market, the lookup filter is applied here. -/
def getExposures (orders : List XOrder) (sel : Nat) (excl : Option Nat := none)
    (newOrder : Option XOrder := none) : Exposures :=
  exposuresOf (buckets (orders.filter (·.sel = sel)) excl newOrder)

/-- `Blotter.selection_exposure` -/
def selectionExposure (orders : List XOrder) (sel : Nat) : Rat :=
  let e := getExposures orders sel
  ratMax (-(ratMin e.worstWin e.worstLose)) 0

def insertSorted (x : Rat) : List Rat → List Rat
  | [] => [x]
  | y :: ys => if x ≤ y then x :: y :: ys else y :: insertSorted x ys

def sortRat (l : List Rat) : List Rat := l.foldr insertSorted []

def dedupNat : List Nat → List Nat
  | [] => []
  | x :: xs => if xs.contains x then dedupNat xs else x :: dedupNat xs

/-- `Blotter.market_exposure(strategy, market_book, exclusion, new_order)` -/
def marketExposure (orders : List XOrder) (activeRunners winners : Nat)
    (excl : Option Nat := none) (newOrder : Option XOrder := none) : Rat :=
  let runners := dedupNat (orders.map (·.sel) ++ (newOrder.toList.map (·.sel)))
  let wpps := runners.map fun r =>
    getExposures orders r excl (match newOrder with
      | some n => if n.sel = r then some n else none
      | none => none)
  let loses := wpps.map (·.worstLose)
  let diffs := wpps.map (fun w => w.worstWin - w.worstLose) ++
    List.replicate (activeRunners - runners.length) 0
  sumRat loses + sumRat ((sortRat diffs).take winners)

end Flumine
