/-
  Controls.lean — StrategyExposure control (flumine/controls/tradingcontrols.py) and
  MaxTransactionCount (flumine/controls/clientcontrols.py).
-/
import Flumine.Exposure
namespace Flumine

inductive PkgKind | place | cancel | update | replace
  deriving DecidableEq, Repr, Inhabited

def PkgKind.ofName? : String → Option PkgKind
  | "PLACE" => some .place | "CANCEL" => some .cancel | "UPDATE" => some .update
  | "REPLACE" => some .replace | _ => none

inductive LadderTag | classicOrFinest | lineRange | unknown
  deriving DecidableEq, Repr, Inhabited

/-- order as seen by StrategyExposure: the exposure view plus the order-type fields -/
structure COrder where
  x : XOrder
  size : Option Rat
  target : Option Rat
  betdaq : Bool
  ladder : LadderTag
  deriving Repr, Inhabited

structure StratLimits where
  maxOrder : Option Rat
  maxSel : Option Rat
  maxMarket : Option Rat
  deriving Repr

inductive ExpoErr | validateOrder | unknownLadder | order | selection | market
  deriving DecidableEq, Repr

def ExpoErr.name : ExpoErr → String
  | .validateOrder => "validate_order" | .unknownLadder => "unknown_ladder" | .order => "order"
  | .selection => "selection" | .market => "market"

def pyOrR (a b : Option Rat) : Option Rat :=
  match a with
  | some x => if x = 0 then b else some x
  | none => b

/-- the `order_exposure` table of StrategyExposure._validate -/
def orderExposure (o : COrder) : Except ExpoErr Rat :=
  match o.x.kind with
  | .limit =>
    if o.betdaq || o.ladder = .classicOrFinest then
      let size := (pyOrR o.size o.target).getD 0
      match o.x.side with
      | .back => .ok size
      | .lay => .ok (((o.x.price.getD 0) - 1) * size)
    else if o.ladder = .lineRange then .ok ((pyOrR o.size o.target).getD 0)
    else .error .unknownLadder
  | _ => .ok o.x.liability

/-- `StrategyExposure._validate(order, package_type)`.
    `validateOk` is the result of `strategy.validate_order` (modelled in Trade.lean, C10);
    `orders` are the strategy's orders in the market's blotter. -/
def strategyExposure (lim : StratLimits) (orders : List XOrder) (activeRunners winners : Nat)
    (o : COrder) (kind : PkgKind) (validateOk : Bool := true) : Except ExpoErr Unit := do
  if kind = .place ∧ !validateOk then throw .validateOrder
  if kind = .place ∨ kind = .replace ∨ (o.betdaq ∧ kind = .update) then
    let mut oe : Rat := 0
    if lim.maxOrder.isSome ∨ lim.maxSel.isSome then
      oe ← orderExposure o
    match lim.maxOrder with
    | some m => if m < oe then throw .order
    | none => pure ()
    match lim.maxSel with
    | some m =>
      let excl := if kind = .replace then some o.x.id else none
      let cur := getExposures orders o.x.sel excl
      let curExp := match o.x.side with
        | .back => -cur.worstLose
        | .lay => -cur.worstWin
      if m < curExp + oe then throw .selection
    | none => pure ()
    match lim.maxMarket with
    | some m =>
      let excl := if kind = .replace then some o.x.id else none
      let pot := -(marketExposure orders activeRunners winners excl (some o.x))
      if m < pot then throw .market
    | none => pure ()
  pure ()

end Flumine
