/-
  Txn.lean — flumine/execution/transaction.py (Transaction), the default trading controls in the
  order they are registered (OrderValidation, MarketValidation, StrategyExposure, then the client's
  MaxTransactionCount), BaseControl._on_error, and order packaging (_create_order_package, chunks).
-/
import Flumine.World
import Flumine.Validation
import Flumine.Controls
namespace Flumine
open World

/-- `utils.chunks(l, n)` -/
def chunks {α} (l : List α) (n : Nat) : List (List α) :=
  if h : n = 0 ∨ l = [] then (if l = [] then [] else [l])
  else
    have : (l.drop n).length < l.length := by
      have hn : 0 < n := Nat.pos_of_ne_zero (fun e => h (Or.inl e))
      have hl : 0 < l.length := List.length_pos_iff.mpr (fun e => h (Or.inr e))
      simp only [List.length_drop]; omega
    l.take n :: chunks (l.drop n) n
termination_by l.length

/-- group `(order, version)` pairs by version, keys in first-appearance order (defaultdict) -/
def groupByVersion (l : List (Nat × Option Int)) : List (Option Int × List Nat) :=
  l.foldl (fun acc (ov : Nat × Option Int) =>
    if acc.any (·.1 = ov.2) then acc.map fun g => if g.1 = ov.2 then (g.1, g.2 ++ [ov.1]) else g
    else acc ++ [(ov.2, [ov.1])]) []

def packLimit : PackKind → Nat
  | .place => Gen.betfairLimitPlace
  | .cancel => Gen.betfairLimitCancel
  | .update => Gen.betfairLimitUpdate
  | .replace => Gen.betfairLimitReplace

structure Txn where
  market : Nat
  client : Nat
  pendingOrders : Bool := false
  pPlace : List (Nat × Option Int) := []
  pCancel : List (Nat × Option Int) := []
  pUpdate : List (Nat × Option Int) := []
  pReplace : List (Nat × Option Int) := []
  deriving Repr, Inhabited

namespace World

/-- injective code of the (selection, handicap) lookup -/
def lookupCode (sel : Nat) (hc : Rat) : Nat :=
  let h := (hc * 100).floor
  sel * 2000003 + (if 0 ≤ h then 2 * h.toNat else 2 * (-h).toNat - 1)

def toXOrder (o : Order) : XOrder :=
  { id := o.id, sel := lookupCode o.sel o.hc, side := o.sim.side,
    kind := (match o.sim.kind with | .limit => .limit | .limitOnClose => .limitOnClose | .marketOnClose => .marketOnClose),
    lineRange := o.ladder = .lineRange,
    price := (match o.sim.kind with | .marketOnClose => none | _ => some o.sim.price),
    status := o.status, complete := o.complete, sizeMatched := o.sim.sizeMatched, avgPrice := o.sim.avgPrice,
    sizeRemaining := o.sim.sizeRemaining, liability := o.sim.liability }

def toCOrder (o : Order) : COrder :=
  { x := toXOrder o, size := (if o.sim.kind = .limit then some o.sim.size else none), target := none, betdaq := false,
    ladder := (match o.ladder with | .lineRange => .lineRange | _ => .classicOrFinest) }

def toVOrder (o : Order) (line : Option (Rat × Rat × Rat)) : VOrder :=
  let lad : LadderDef := match o.ladder with
    | .classic => .classic
    | .finest => .finest
    | .lineRange => match line with
      | some (a, b, c) => .lineRange a b c
      | none => .classic
  match o.sim.kind with
  | .limit => .limit o.sim.side (some o.sim.price) (some o.sim.size) none lad
  | .limitOnClose => .limitOnClose o.sim.side (some o.sim.liability) (some o.sim.price) lad
  | .marketOnClose => .marketOnClose o.sim.side (some o.sim.liability)

def hourKey (t : Time) : Int := t / 3600000

/-- `MaxTransactionCount._check_hour` + `_set_next_hour` (hour key of now + 1h) -/
def checkHour (c : TxnCounter) (now : Time) : TxnCounter :=
  let nk := hourKey now + 1
  match c.nextHour with
  | none => { c with nextHour := some nk, curCount := 0, curFailed := 0 }
  | some k => if k ≠ nk then { c with nextHour := some nk, curCount := 0, curFailed := 0 } else c

def counterSafe (c : TxnCounter) (limit : Option Nat) : Bool :=
  match limit with
  | none => true
  | some l => decide (c.curCount + c.curFailed ≤ l)

/-- `MaxTransactionCount.add_transaction(count, failed)` -/
def _root_.Flumine.TxnCounter.add (k : TxnCounter) (n : Nat) (failed : Bool) : TxnCounter :=
  if failed then { k with failed := k.failed + n, curFailed := k.curFailed + n }
  else { k with count := k.count + n, curCount := k.curCount + n }

/-- `client.add_transaction` → the client's MaxTransactionCount control -/
def addTransaction (w : World) (cid : Nat) (n : Nat) (failed : Bool := false) : World :=
  let c := w.client! cid
  w.setClient { c with counter := c.counter.add n failed }

inductive Refusal
  | orderValidation (msg : String) | marketValidation (msg : String) | exposure (e : ExpoErr)
  | transactionCount | custom
  deriving Repr, DecidableEq

def Refusal.name : Refusal → String
  | .orderValidation _ => "ORDER_VALIDATION"
  | .marketValidation _ => "MARKET_VALIDATION"
  | .exposure e => "STRATEGY_EXPOSURE:" ++ e.name
  | .transactionCount => "MAX_TRANSACTION_COUNT"
  | .custom => "CUSTOM"

def toPkgKind : PackKind → PkgKind
  | .place => .place | .cancel => .cancel | .update => .update | .replace => .replace

/-- `Transaction._validate_controls(order, package_type)`: the controls in registration order; the
    first refusal marks the order VIOLATION (`BaseControl._on_error`) and stops.  Returns the world
    (MaxTransactionCount may restart its hourly counters even when it accepts) and the refusal. -/
def validateControls (w : World) (oid cid : Nat) (kind : PackKind) : World × Option Refusal :=
  let o := w.order! oid
  let c := w.client! cid
  let cp : ClientParams := ⟨c.minBetValidation, c.minBetSize, c.minBetPayout, c.minBspLiability⟩
  -- OrderValidation
  match validateOrder cp (toVOrder o none) with
  | some msg => (w.orderViolation oid msg, some (.orderValidation msg))
  | none =>
  -- MarketValidation
  let mv : Option String := match w.market? o.market with
    | none => some "Market is not available"
    | some m => match m.book with
      | none => some "MarketBook is not available"
      | some b => if b.status ≠ .open_ then some "Market is not open" else none
  match mv with
  | some msg => (w.orderViolation oid msg, some (.marketValidation msg))
  | none =>
  -- StrategyExposure (for PLACE `strategy.get_runner_context(*order.lookup)` creates the context)
  let w := if kind = .place then w.setCtx (w.ctx ⟨o.strategy, o.market, o.sel, o.hc⟩) else w
  let s := (w.strategy? o.strategy).getD default
  let vok := (w.validateOrderCtx s o).isNone
  let book := ((w.market! o.market).book).getD {}
  let orders := (w.strategyOrders o.market o.strategy).map toXOrder
  match strategyExposure ⟨s.maxOrder, s.maxSel, s.maxMarket⟩ orders book.activeRunners book.winners
      (toCOrder o) (toPkgKind kind) vok with
  | .error e => (w.orderViolation oid ("exposure:" ++ e.name), some (.exposure e))
  | .ok _ =>
  -- client controls: MaxTransactionCount
  let k := checkHour c.counter w.clock
  let w := w.setClient { c with counter := k }
  if counterSafe k c.txLimit then (w, none)
  else (w.orderViolation oid "Max Transaction Count", some .transactionCount)

/-- `BaseOrderPackage.calc_simulated_delay`: latency of the kind, plus the bet delay for PLACE / REPLACE -/
def delayOf (cfg : Config) (kind : PackKind) (betDelay : Rat) : Rat :=
  match kind with
  | .place => cfg.placeLatency + betDelay
  | .cancel => cfg.cancelLatency
  | .update => cfg.updateLatency
  | .replace => cfg.replaceLatency + betDelay

/-- one package appended to the simulation's handler queue (`process_order_package`) -/
def addPackage (kind : PackKind) (t : Txn) (d bd : Rat) (w : World) (vc : Option Int × List Nat) : World :=
  { w with
    queue := w.queue ++ [{ id := w.nextPackage, kind := kind, market := t.market, orders := vc.2, created := w.clock,
                           delay := d, client := t.client, marketVersion := vc.1, betDelay := bd }],
    nextPackage := w.nextPackage + 1 }

/-- the (market version, chunk) pairs `_create_order_package` turns into packages -/
def packsOf (pend : List (Nat × Option Int)) (kind : PackKind) : List (Option Int × List Nat) :=
  (groupByVersion pend).flatMap fun (v, os) => (chunks os (packLimit kind)).map fun ch => (v, ch)

/-- `Transaction._create_order_package` + `flumine.process_order_package` (simulation: append to the
    handler queue); the bet delay is the one of the market's current book -/
def createPackages (w : World) (t : Txn) (pend : List (Nat × Option Int)) (kind : PackKind) : World :=
  let bd := (((w.market! t.market).book).getD {}).betDelay
  (packsOf pend kind).foldl (addPackage kind t (delayOf w.cfg kind bd) bd) w

/-- `Transaction.execute()` -/
def txnExecute (w : World) (t : Txn) : World × Txn :=
  let w := if t.pPlace.isEmpty then w else w.createPackages t t.pPlace .place
  let w := if t.pCancel.isEmpty then w else w.createPackages t t.pCancel .cancel
  let w := if t.pUpdate.isEmpty then w else w.createPackages t t.pUpdate .update
  let w := if t.pReplace.isEmpty then w else w.createPackages t t.pReplace .replace
  let any := !(t.pPlace.isEmpty && t.pCancel.isEmpty && t.pUpdate.isEmpty && t.pReplace.isEmpty)
  (w, { t with pPlace := [], pCancel := [], pUpdate := [], pReplace := [],
               pendingOrders := if any then false else t.pendingOrders })

/-- `Transaction.__exit__` -/
def txnExit (w : World) (t : Txn) : World :=
  if t.pendingOrders then (w.txnExecute t).1 else w

inductive ReqResult
  | accepted | refused (r : Refusal) | error (e : ReqErr)
  deriving Repr, DecidableEq

def ReqResult.name : ReqResult → String
  | .accepted => "True" | .refused r => "False:" ++ r.name | .error e => "EXC:" ++ e.name

/-- `Transaction.place_order(order, market_version, execute, force)` -/
def txnPlace (w : World) (t : Txn) (oid : Nat) (marketVersion : Option Int) (execute : Bool := true)
    (force : Bool := false) : World × Txn × ReqResult :=
  let w := w.modifyOrder oid fun o => { o with client := some t.client }
  let (w, refusal) := if execute && !force then w.validateControls oid t.client .place else (w, none)
  match refusal with
  | some r => (w, t, .refused r)
  | none =>
    -- already in the blotter, or complete without ever entering it (a replacement order whose placement failed)
    if (w.market! t.market).blotter.contains oid || (w.order! oid).status == some .executionComplete then (w, t, .error .alreadyPlaced)
    else
    let book := ((w.market! t.market).book).getD {}
    -- order.place(publish_time, market_version, async)
    let w := w.modifyOrder oid fun o => { o with publishTime := some book.pt, marketVersion := marketVersion }
    let w := w.orderPlacing oid
    let o := w.order! oid
    let newTrade := !((w.market! t.market).blotter.any fun x => (w.order! x).trade = o.trade)
      let w := w.blotterAdd t.market oid
      let w := if newTrade then w.emit (.tradeEvent o.trade) else w
      if execute then
        let w := w.ctxPlace ⟨o.strategy, o.market, o.sel, o.hc⟩ o.trade
        (w, { t with pPlace := t.pPlace ++ [(oid, marketVersion)], pendingOrders := true }, .accepted)
      else (w, t, .accepted)

def txnCancel (w : World) (t : Txn) (oid : Nat) (red : Option Rat) (force : Bool := false) : World × Txn × ReqResult :=
  let o := w.order! oid
  if o.client ≠ some t.client then (w, t, .error .clientMismatch)
  else
    let (w, refusal) := if !force then w.validateControls oid t.client .cancel else (w, none)
    match refusal with
    | some r => (w, t, .refused r)
    | none =>
      match w.orderCancel oid red with
      | .error e => (w, t, .error e)
      | .ok w => (w, { t with pCancel := t.pCancel ++ [(oid, none)], pendingOrders := true }, .accepted)

def txnUpdate (w : World) (t : Txn) (oid : Nat) (pers : String) (force : Bool := false) : World × Txn × ReqResult :=
  let o := w.order! oid
  if o.client ≠ some t.client then (w, t, .error .clientMismatch)
  else
    let (w, refusal) := if !force then w.validateControls oid t.client .update else (w, none)
    match refusal with
    | some r => (w, t, .refused r)
    | none =>
      match w.orderUpdate oid pers with
      | .error e => (w, t, .error e)
      | .ok w => (w, { t with pUpdate := t.pUpdate ++ [(oid, none)], pendingOrders := true }, .accepted)

def txnReplace (w : World) (t : Txn) (oid : Nat) (price : Rat) (marketVersion : Option Int) (force : Bool := false) :
    World × Txn × ReqResult :=
  let o := w.order! oid
  if o.client ≠ some t.client then (w, t, .error .clientMismatch)
  else
    let (w, refusal) := if !force then w.validateControls oid t.client .replace else (w, none)
    match refusal with
    | some r => (w, t, .refused r)
    | none =>
      match w.orderReplace oid price with
      | .error e => (w, t, .error e)
      | .ok w => (w, { t with pReplace := t.pReplace ++ [(oid, marketVersion)], pendingOrders := true }, .accepted)

end World
end Flumine
