/-
  Ref.lean — customer order references: construction, separator validation, fixed-offset parsing,
  and the attribution of an exchange update to an order / strategy by a (second) framework instance.

  flumine/order/order.py  BaseOrder.customer_order_ref, sep setter, BetfairOrder.is_valid_customer_order_ref_character
  flumine/order/process.py process_current_orders / create_order_from_current (the reference-parsing part)
  flumine/strategy/strategy.py Strategies.hashes, BaseStrategy.name_hash
  Strings are lists of characters (Python `str` = sequence of code points).
  Parameters, not modelled: `create_cheap_hash` (SHA-1 prefix: H lower-case hex characters) and
  `uuid1().time` (a natural number, distinct per call).
-/
import Flumine.Generated
namespace Flumine.Ref

/-- `STRATEGY_NAME_HASH_LENGTH` (regenerated from flumine/utils.py) -/
def H : Nat := Gen.strategyNameHashLength

/-- `VALID_BETFAIR_CUSTOMER_ORDER_REF_CHARACTERS` (regenerated from flumine/order/order.py) -/
def validChars : List Char := Gen.validRefChars.toList

/-- `BetfairOrder.is_valid_customer_order_ref_character(c)`: length exactly 1 and in the set -/
def isValidSep (s : List Char) : Bool :=
  match s with
  | [c] => validChars.contains c
  | _ => false

/-- the `sep` setter: (separator afterwards, accepted?) — a refusal (ValueError) leaves the old one -/
def setSep (cur new : List Char) : List Char × Bool :=
  if isValidSep new then (new, true) else (cur, false)

/-- `str(uuid.uuid1().time)` for the time value n -/
def orderId (n : Nat) : List Char := Nat.toDigits 10 n

/-- `"%s%s%s" % (strategy.name_hash, sep, id)` -/
def customerOrderRef (hash sep id : List Char) : List Char := hash ++ sep ++ id

/-- `customer_order_ref[:STRATEGY_NAME_HASH_LENGTH]` -/
def refHash (ref : List Char) : List Char := ref.take H

/-- `customer_order_ref[STRATEGY_NAME_HASH_LENGTH + 1:]` -/
def refId (ref : List Char) : List Char := ref.drop (H + 1)

/-! ### a receiving framework instance -/

structure Strat where
  idx : Nat
  hash : List Char
  deriving Repr, DecidableEq

/-- an order known to the instance: market, id, owning strategy -/
structure KnownOrder where
  market : Nat
  id : List Char
  strat : Nat
  deriving Repr, DecidableEq

structure Inst where
  strategies : List Strat := []
  orders : List KnownOrder := []
  deriving Repr

/-- `Strategies.hashes.get(h)`: a dict comprehension over the strategies, the later entry wins -/
def hashesGet (ss : List Strat) (h : List Char) : Option Nat :=
  (ss.reverse.find? fun s => s.hash = h).map (·.idx)

/-- `markets.get_order(market_id, order_id)` -/
def getOrder (i : Inst) (market : Nat) (id : List Char) : Option KnownOrder :=
  i.orders.find? fun o => o.market = market ∧ o.id = id

inductive Resolved where
  | existing (o : KnownOrder)      -- found in the blotter
  | created (o : KnownOrder)       -- create_order_from_current
  | dropped                        -- "Strategy not available to create order"
  deriving Repr, DecidableEq

/-- the reference-driven part of `process_current_orders` for one current order -/
def processCurrent (i : Inst) (market : Nat) (ref : List Char) : Inst × Resolved :=
  let id := refId ref
  match getOrder i market id with
  | some o => (i, .existing o)
  | none =>
    match hashesGet i.strategies (refHash ref) with
    | none => (i, .dropped)
    | some s =>
      let o : KnownOrder := { market := market, id := id, strat := s }
      ({ i with orders := i.orders ++ [o] }, .created o)

def addStrategy (i : Inst) (hash : List Char) : Inst :=
  { i with strategies := i.strategies ++ [{ idx := i.strategies.length, hash := hash }] }

/-- the bet-id step of `process_current_orders` that follows the lookup by reference ("replaceOrder handling"): a bet that
    replaced another one keeps the customer reference of the bet it replaced, so the order found by reference may be the
    REPLACED one - it is recognised by its different bet id, and the update goes to the order that carries the update's bet id,
    or to nobody.  `byRefBet` is the bet id of the order found by reference (none: the order has no bet id yet), `known` the
    bet ids of the local orders.  Answer: none = skipped, some none = the order found by reference, some (some b) = the order
    with bet id b -/
def pickByBet (byRefBet : Option Nat) (bet : Nat) (known : List Nat) : Option (Option Nat) :=
  match byRefBet with
  | some b => if b ≠ bet then (if known.contains bet then some (some bet) else none) else some none
  | none => some none

/-- `Blotter.process_cleared_orders` for one cleared order (the live cleared-orders path): the order of that market's blotter
    whose id is `customer_order_ref[STRATEGY_NAME_HASH_LENGTH + 1:]` - the blotter module's own constant - gets the cleared
    order attached; nothing else changes -/
def processCleared (i : Inst) (market : Nat) (ref : List Char) : Option KnownOrder :=
  getOrder i market (ref.drop (Gen.blotterHashLength + 1))

inductive Op where
  | add (hash : List Char)
  | update (market : Nat) (ref : List Char)
  | cleared (market : Nat) (ref : List Char)

/-- what an operation answers: how an update was resolved, or which order a cleared order was attached to -/
inductive Answer where
  | resolved (r : Resolved)
  | attached (o : Option KnownOrder)
  deriving Repr, DecidableEq

def step (i : Inst) : Op → Inst × Option Answer
  | .add h => (addStrategy i h, none)
  | .update m r => let (i', x) := processCurrent i m r; (i', some (.resolved x))
  | .cleared m r => (i, some (.attached (processCleared i m r)))

def run (ops : List Op) : List Answer :=
  (ops.foldl (fun (acc : Inst × List Answer) op =>
    let (i', r) := step acc.1 op
    (i', match r with | some x => acc.2 ++ [x] | none => acc.2)) ({}, [])).2

end Flumine.Ref
