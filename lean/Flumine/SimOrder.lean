/-
  SimOrder.lean — flumine/simulation/simulatedorder.py (SimulatedOrder): place / cancel / update /
  __call__ (lapse, traded) / _process_sp / profit, and utils.wap.  Exact arithmetic.
-/
import Flumine.Num
import Flumine.Status
namespace Flumine

inductive OKindS | limit | limitOnClose | marketOnClose
  deriving DecidableEq, Repr, Inhabited

/-- one entry of `SimulatedOrder.matched`: [publishTime, price, size] -/
structure Frag where
  pt : Int
  price : Rat
  size : Rat
  deriving Repr, DecidableEq, Inhabited

structure Level where
  price : Rat
  size : Rat
  deriving Repr, DecidableEq, Inhabited

inductive MStatus | open_ | suspended | closed | inactive
  deriving DecidableEq, Repr, Inhabited

inductive RStatus | active | removed | winner | loser | placed | hidden
  deriving DecidableEq, Repr, Inhabited

/-- what the simulated order reads from a runner book -/
structure RunnerView where
  status : RStatus := .active
  atb : List Level := []
  atl : List Level := []
  sp : Option Rat := none       -- get_sp(runner): actual SP when available
  deriving Repr, Inhabited

/-- what the simulated order reads from the market book -/
structure BookView where
  status : MStatus := .open_
  version : Int := 0
  inplay : Bool := false
  bspReconciled : Bool := false
  bspMarket : Bool := true
  persistenceEnabled : Bool := true
  pt : Int := 0
  deriving Repr, Inhabited

/-- the simulated part of an order together with the order-type fields it reads -/
structure SimOrder where
  side : Side
  kind : OKindS
  price : Rat := 0                 -- LIMIT / LIMIT_ON_CLOSE price
  size : Rat := 0                  -- LIMIT size (or bet_target_size)
  liability : Rat := 0             -- SP orders
  persistence : String := "LAPSE"
  lineRange : Bool := false
  matched : List Frag := []
  sizeMatched : Rat := 0
  avgPrice : Rat := 0
  sizeCancelled : Rat := 0
  sizeLapsed : Rat := 0
  sizeVoided : Rat := 0
  marketVersion : Option Int := none
  piq : Rat := 0
  bspReconciled : Bool := false
  deriving Repr, Inhabited

/-- `utils.wap(matched)` → (size, average price) -/
def wap (m : List Frag) : Rat × Rat :=
  let a := sumRat (m.map fun f => f.price * f.size)
  let b := sumRat (m.map fun f => f.size)
  if m.isEmpty then (0, 0)
  else if b = 0 ∨ a = 0 then (0, 0)
  else (round2 b, round2 (a / b))

namespace SimOrder

def sizeRemaining (o : SimOrder) : Rat :=
  match o.kind with
  | .limit => round2 (o.size - o.sizeMatched - o.sizeCancelled - o.sizeLapsed - o.sizeVoided)
  | _ => 0

def takeSp (o : SimOrder) : Bool :=
  match o.kind with
  | .limit => o.persistence == "MARKET_ON_CLOSE"
  | _ => true

/-- `SimulatedOrder.status` -/
def simStatus (o : SimOrder) : Status :=
  if o.takeSp then (if o.bspReconciled then .executionComplete else .executable)
  else (if o.sizeRemaining ≠ 0 then .executable else .executionComplete)

def updateMatched (o : SimOrder) (f : Frag) : SimOrder :=
  let m := o.matched ++ [f]
  let w := wap m
  { o with matched := m, sizeMatched := w.1, avgPrice := w.2 }

def crosses (side : Side) (price availPrice : Rat) : Bool :=
  match side with
  | .back => decide (price ≤ availPrice)
  | .lay => decide (availPrice ≤ price)

/-- `_process_price_matched`: walk the levels while they are at or better than the limit -/
def processPriceMatched (pt : Int) (price : Rat) : Rat → List Level → SimOrder → SimOrder
  | _, [], o => o
  | rem, lv :: rest, o =>
    if rem = 0 then o
    else if crosses o.side price lv.price then
      let rem' := ratMax (rem - lv.size) 0
      let sm := if rem' = 0 then rem else lv.size
      processPriceMatched pt price rem' rest (o.updateMatched ⟨pt, lv.price, round2 sm⟩)
    else o

/-- the loop of `_process_price_matched_vwap` (without the min-fill roll-back) -/
def vwapLoop (pt : Int) (price : Rat) : Rat → List Level → SimOrder → SimOrder
  | _, [], o => o
  | rem, lv :: rest, o =>
    if rem = 0 then o
    else
      let rem' := ratMax (rem - lv.size) 0
      let sm := if rem' = 0 then rem else lv.size
      let f : Frag := ⟨pt, lv.price, round2 sm⟩
      let avg := (wap (o.matched ++ [f])).2
      let ok := match o.side with
        | .back => decide (price ≤ avg)
        | .lay => decide (avg ≤ price)
      if ok then vwapLoop pt price rem' rest (o.updateMatched f) else o

/-- `_process_price_matched_vwap` -/
def processPriceMatchedVwap (pt : Int) (price size : Rat) (avail : List Level) (minFill : Rat)
    (o : SimOrder) : SimOrder :=
  let o1 := vwapLoop pt price size avail o
  if o1.sizeMatched < minFill then
    let o2 := { o1 with matched := [], sizeMatched := 0, avgPrice := 0 }
    { o2 with sizeCancelled := o2.sizeCancelled + o2.sizeRemaining }
  else o1

inductive RespStatus | success | failure
  deriving DecidableEq, Repr, Inhabited

structure PlaceResp where
  status : RespStatus
  orderStatus : Status          -- EXECUTABLE / EXECUTION_COMPLETE as reported
  errorCode : Option String := none
  betId : Option Nat := none
  deriving Repr, Inhabited

/-- `_create_place_response` -/
def createPlaceResponse (o : SimOrder) (fullMatch : Bool) (betId : Option Nat)
    (status : RespStatus := .success) (err : Option String := none) : SimOrder × PlaceResp :=
  let o1 :=
    if fullMatch ∧ status = .success ∧ o.sizeRemaining ≠ 0 then
      o.updateMatched ⟨0, o.price, o.sizeRemaining⟩
    else o
  let os := if o1.sizeRemaining = 0 then Status.executionComplete else Status.executable
  (o1, { status := status, orderStatus := os, errorCode := err, betId := betId })

def fail (o : SimOrder) (fullMatch : Bool) (err : String) : SimOrder × PlaceResp :=
  createPlaceResponse o fullMatch none .failure (some err)

def bestPrice (l : List Level) (dflt : Rat) : Rat :=
  match l with
  | [] => dflt
  | lv :: _ => if lv.price = 0 then dflt else lv.price

def bestSize (l : List Level) : Rat :=
  match l with
  | [] => 0
  | lv :: _ => lv.size

def findPiq (price : Rat) : List Level → Option Rat
  | [] => none
  | lv :: rest => if lv.price = price then some lv.size else findPiq price rest

/-- `instruction["limitOrder"].get("minFillSize") or size` -/
def minFillOf (size : Rat) (minFillInstr : Option Rat) : Rat :=
  match minFillInstr with
  | some m => if m = 0 then size else m
  | none => size

/-- best price on the side the order takes from (`get_price(..., 0) or 1.01 / 1000`) -/
def bestFor (side : Side) (runner : RunnerView) : Rat :=
  match side with
  | .back => bestPrice runner.atb (101 / 100)
  | .lay => bestPrice runner.atl 1000

def availFor (side : Side) (runner : RunnerView) : List Level :=
  match side with
  | .back => runner.atb
  | .lay => runner.atl

def otherFor (side : Side) (runner : RunnerView) : List Level :=
  match side with
  | .back => runner.atl
  | .lay => runner.atb

/-- the limit is through the best price (the order would be price-improved) -/
def isThrough (side : Side) (price best : Rat) : Bool :=
  match side with
  | .back => decide (price < best)
  | .lay => decide (best < price)

/-- the limit is behind the best price (nothing to match) -/
def isBehind (side : Side) (price best : Rat) : Bool :=
  match side with
  | .back => decide (best < price)
  | .lay => decide (price < best)

/-- the LIMIT branch of `place`, after the market / version / runner checks -/
def placeLimit (o : SimOrder) (bpe fullMatch : Bool) (pt : Int) (runner : RunnerView) (fok : Bool)
    (minFillInstr : Option Rat) (betId : Nat) : SimOrder × PlaceResp :=
  if fok ∧ o.size < minFillOf o.size minFillInstr then
    fail { o with sizeCancelled := o.sizeCancelled + o.sizeRemaining } fullMatch "INVALID_MIN_FILL_SIZE"
  else if !bpe && isThrough o.side o.price (bestFor o.side runner) then
    fail { o with sizeLapsed := o.sizeLapsed + o.sizeRemaining } fullMatch
      "BET_LAPSED_PRICE_IMPROVEMENT_TOO_LARGE"
  else if fok then
    if isBehind o.side o.price (bestFor o.side runner) then
      createPlaceResponse { o with sizeCancelled := o.sizeCancelled + o.sizeRemaining } fullMatch (some betId)
    else if o.price = bestFor o.side runner then
      let o1 := if minFillOf o.size minFillInstr ≤ bestSize (availFor o.side runner)
        then processPriceMatched pt o.price o.size (availFor o.side runner) o else o
      createPlaceResponse { o1 with sizeCancelled := o1.sizeCancelled + o1.sizeRemaining } fullMatch (some betId)
    else
      let o1 := processPriceMatchedVwap pt o.price o.size (availFor o.side runner) (minFillOf o.size minFillInstr) o
      createPlaceResponse { o1 with sizeCancelled := o1.sizeCancelled + o1.sizeRemaining } fullMatch (some betId)
  else if !isBehind o.side o.price (bestFor o.side runner) then
    createPlaceResponse (processPriceMatched pt o.price o.size (availFor o.side runner) o) fullMatch (some betId)
  else
    let o1 := match findPiq o.price (otherFor o.side runner) with
      | some q => { o with piq := q }
      | none => o
    createPlaceResponse o1 fullMatch (some betId)

/-- `SimulatedOrder.place(order_package, market_book, instruction, bet_id)`.
    `pkgVersion` = order_package.market_version["version"] when set; `bpe` = client.best_price_execution;
    `fok` / `minFillInstr` from the place instruction (absent for replacement orders). -/
def place (o : SimOrder) (pkgVersion : Option Int) (bpe fullMatch : Bool) (book : BookView)
    (runner : RunnerView) (fok : Bool) (minFillInstr : Option Rat) (betId : Nat) : SimOrder × PlaceResp :=
  if book.status ≠ .open_ then
    fail { o with sizeVoided := o.sizeVoided + o.sizeRemaining } fullMatch "ERROR_IN_ORDER"
  else
    let o := { o with marketVersion := some book.version }
    if (match pkgVersion with | some v => decide (v ≠ 0 ∧ v ≠ book.version) | none => false) then
      fail { o with sizeLapsed := o.sizeLapsed + o.sizeRemaining } fullMatch "BET_TAKEN_OR_LAPSED"
    else if runner.status = .removed then
      fail { o with sizeVoided := o.sizeVoided + o.sizeRemaining } fullMatch "RUNNER_REMOVED"
    else match o.kind with
    | .limit => placeLimit o bpe fullMatch book.pt runner fok minFillInstr betId
    | _ =>
      if !book.bspMarket ∨ book.bspReconciled ∨ book.inplay then
        fail { o with sizeVoided := o.sizeVoided + o.sizeRemaining } fullMatch "MARKET_NOT_OPEN_FOR_BSP_BETTING"
      else createPlaceResponse o fullMatch (some betId)

structure CancelResp where
  status : RespStatus
  sizeCancelled : Rat := 0
  errorCode : Option String := none
  deriving Repr, Inhabited

/-- `update_data.get("size_reduction") or self.size_remaining` -/
def effRed (o : SimOrder) (red : Option Rat) : Rat :=
  match red with
  | some r => if r = 0 then o.sizeRemaining else r
  | none => o.sizeRemaining

/-- `SimulatedOrder.cancel(market_book)`; `sizeReduction` = order.update_data.get("size_reduction") -/
def cancel (o : SimOrder) (bookStatus : MStatus) (sizeReduction : Option Rat) : SimOrder × CancelResp :=
  if bookStatus ≠ .open_ then (o, { status := .failure, errorCode := some "ERROR_IN_ORDER" })
  else match o.kind with
    | .limit =>
      let c := ratMin (effRed o sizeReduction) o.sizeRemaining
      ({ o with sizeCancelled := o.sizeCancelled + c }, { status := .success, sizeCancelled := c })
    | _ => (o, { status := .failure, errorCode := some "BET_ACTION_ERROR" })

/-- `SimulatedOrder.update(market_book, instruction)` -/
def update (o : SimOrder) (book : BookView) (newPersistence : String) : SimOrder × RespStatus × Option String :=
  if book.status ≠ .open_ then (o, .failure, some "ERROR_IN_ORDER")
  else if !book.persistenceEnabled then (o, .failure, some "INVALID_PERSISTENCE_TYPE")
  else if o.kind = .limit ∧ 0 < o.sizeRemaining then
    ({ o with persistence := newPersistence }, .success, none)
  else (o, .failure, some "BET_ACTION_ERROR")

/-- `_calculate_process_traded(publish_time, traded_size)` → (order, consumed volume) -/
def calculateProcessTraded (o : SimOrder) (pt : Int) (tradedSize : Rat) : SimOrder × Rat :=
  let t := tradedSize / 2
  if o.piq - t < 0 then
    let size := round2 (ratMin o.sizeRemaining (t - o.piq))
    let o1 := if size ≠ 0 then o.updateMatched ⟨pt, o.price, size⟩ else o
    ({ o1 with piq := 0 }, (o.piq + size) * 2)
  else ({ o with piq := o.piq - t }, tradedSize)

/-- a traded price counts for the order: at or through its limit -/
def eligible (o : SimOrder) (tp : Rat) : Bool :=
  match o.side with
  | .back => decide (o.price ≤ tp)
  | .lay => decide (tp ≤ o.price)

/-- `_process_traded(publish_time, traded)`; `traded` is the (price → size) dict as an association
    list in dict order; returns the order and the dict with the consumed volume written back. -/
def processTraded (pt : Int) : List (Rat × Rat) → SimOrder → SimOrder × List (Rat × Rat)
  | [], o => (o, [])
  | (tp, ts) :: rest, o =>
    if eligible o tp then
      let (o1, m) := calculateProcessTraded o pt ts
      let ts' := if m ≠ 0 then ratMax (ts - m) 0 else ts
      let (o2, rest') := processTraded pt rest o1
      (o2, (tp, ts') :: rest')
    else
      let (o2, rest') := processTraded pt rest o
      (o2, (tp, ts) :: rest')

inductive SpOutcome | none_ | completed
  deriving DecidableEq, Repr

/-- `_process_sp(publish_time, runner)`; returns the order and whether `order.execution_complete()`
    was called. `minBspLiability` = client.min_bsp_liability -/
def processSp (o : SimOrder) (pt : Int) (sp : Option Rat) (minBspLiability : Rat) : SimOrder × Bool :=
  match sp with
  | none => (o, false)
  | some actual =>
    if actual = 0 then (o, false) else
    let o := { o with bspReconciled := true }
    match o.kind with
    | .limit =>
      match o.side with
      | .back => (o.updateMatched ⟨pt, actual, o.sizeRemaining⟩, true)
      | .lay =>
        let risk := (o.price - 1) * o.sizeRemaining
        if minBspLiability ≤ risk then
          let size := round2 (risk / (actual - 1))
          let o1 := { o with sizeCancelled := o.sizeCancelled + round2 (o.sizeRemaining - size) }
          (o1.updateMatched ⟨pt, actual, size⟩, true)
        else ({ o with sizeLapsed := o.sizeLapsed + o.sizeRemaining }, true)
    | .limitOnClose =>
      match o.side with
      | .back => if actual < o.price then (o, true) else (o.updateMatched ⟨pt, actual, o.liability⟩, true)
      | .lay => if o.price < actual then (o, true)
                else (o.updateMatched ⟨pt, actual, round2 (o.liability / (actual - 1))⟩, true)
    | .marketOnClose =>
      match o.side with
      | .back => (o.updateMatched ⟨pt, actual, o.liability⟩, true)
      | .lay => (o.updateMatched ⟨pt, actual, round2 (o.liability / (actual - 1))⟩, true)

/-- `SimulatedOrder.__call__(market_book, runner_traded)` without simulation_available_prices.
    Returns (order, traded dict after write-back, execution_complete() called). -/
def call (o : SimOrder) (book : BookView) (runnerSp : Option Rat) (traded : List (Rat × Rat))
    (minBspLiability : Rat) : SimOrder × List (Rat × Rat) × Bool :=
  if !o.bspReconciled ∧ book.bspReconciled ∧ o.takeSp then
    let (o1, c) := processSp o book.pt runnerSp minBspLiability
    (o1, traded, c)
  else
    let o := if !o.bspReconciled ∧ book.bspReconciled then { o with bspReconciled := true } else o
    match o.kind with
    | .limit =>
      if o.marketVersion ≠ some book.version then
        let o1 := { o with marketVersion := some book.version }
        if book.status = .suspended ∧ o1.persistence == "LAPSE" then
          ({ o1 with sizeLapsed := o1.sizeLapsed + o1.sizeRemaining }, traded, false)
        else
          if traded.isEmpty then (o1, traded, false)
          else let (o2, t2) := processTraded book.pt traded o1; (o2, t2, false)
      else
        if traded.isEmpty then (o, traded, false)
        else let (o2, t2) := processTraded book.pt traded o; (o2, t2, false)
    | _ => (o, traded, false)

end SimOrder
end Flumine
