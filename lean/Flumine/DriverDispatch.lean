/- DriverDispatch.lean — line-protocol command for the dispatch model (driver only). -/
import Flumine.Dispatch
import Flumine.Proto
namespace Flumine.DriverDispatch
open Flumine.Dispatch Flumine.Proto

def kindName : Kind → String
  | .mw => "mw" | .orders => "orders" | .newMarket => "newMarket" | .check => "check" | .book => "book" | .closed => "closed"

def parseKind? : String → Option Kind
  | "mw" => some .mw | "orders" => some .orders | "newMarket" => some .newMarket | "check" => some .check
  | "book" => some .book | "closed" => some .closed | _ => none

def showCall (c : Call) : String :=
  (match c.who with | .middleware i => "m" ++ toString i | .strategy i => "s" ++ toString i) ++ "." ++ kindName c.kind

def parseWho? (s : String) : Option Who :=
  if s.startsWith "m" then (s.drop 1).toNat?.map Who.middleware
  else if s.startsWith "s" then (s.drop 1).toNat?.map Who.strategy else none

/-- `s0.check=R` (raises) or `s0.check=F` (returns False) -/
def parseOverride? (s : String) : Option (Call × Outcome) :=
  match s.splitOn "=" with
  | [c, o] =>
    match c.splitOn "." with
    | [w, k] => do
      let out ← if o = "R" then some Outcome.raised else if o = "F" then some (Outcome.returned false) else none
      some (⟨← parseWho? w, ← parseKind? k⟩, out)
    | _ => none
  | _ => none

def parseStrategy? (s : String) : Option StrategyInfo :=
  match s.splitOn ":" with
  | [i, sub, has] => do some { idx := ← i.toNat?, subscribed := ← parseBool? sub, hasOrders := ← parseBool? has }
  | _ => none

def handle (toks : List String) : Option String := do
  match toks with
  | ["dispatch", nMw, active, isNew, strats, overrides] =>
    let ss ← parseList? parseStrategy? strats
    let ovs ← parseList? parseOverride? overrides
    let beh : Call → Outcome := fun c => ((ovs.find? fun p => p.1 = c).map (·.2)).getD (.returned true)
    some (showList showCall (processBook beh (← nMw.toNat?) (← parseBool? active) (← parseBool? isNew) ss))
  | ["dispatch.close", strats] =>
    let ss ← parseList? parseStrategy? strats
    some (showList showCall (processClose ss))
  | _ => none

end Flumine.DriverDispatch
