/-
  World.lean — the state of a flumine instance as the model sees it, and the order / trade /
  runner-context state machines:
    flumine/order/order.py        BaseOrder._update_status and the status setters, BetfairOrder.place/cancel/update/replace
    flumine/order/trade.py        Trade._update_status / complete / complete_trade / __enter__ / __exit__
    flumine/strategy/runnercontext.py  RunnerContext.place / reset
    flumine/strategy/strategy.py  BaseStrategy.validate_order
    flumine/markets/blotter.py    Blotter.__setitem__ / complete_order and the views
  Mutation becomes state passing; dicts become insertion-ordered association lists.
-/
import Flumine.SimOrder
import Flumine.Generated
namespace Flumine

abbrev Time := Int    -- milliseconds since the epoch

structure UpdateData where
  hasReduction : Bool := false          -- key "size_reduction" present
  sizeReduction : Option Rat := none
  newPrice : Option Rat := none
  deriving Repr, Inhabited, DecidableEq

inductive LadderKind | classic | finest | lineRange
  deriving DecidableEq, Repr, Inhabited

structure Order where
  id : Nat
  trade : Nat
  strategy : Nat
  client : Option Nat := none           -- None until update_client (place)
  market : Nat
  sel : Nat
  hc : Rat := 0
  sim : SimOrder
  fok : Bool := false
  minFill : Option Rat := none
  ladder : LadderKind := .classic
  status : Option Status := none
  log : List Status := []
  complete : Bool := false
  betId : Option Nat := none
  ud : UpdateData := {}
  violationMsg : Option String := none
  created : Time := 0                   -- date_time_created
  placedAt : Option Time := none        -- responses.date_time_placed
  statusAt : Time := 0                  -- date_time_status_update
  completeAt : Option Time := none      -- date_time_execution_complete
  marketVersion : Option Int := none    -- order.market_version (argument of place)
  publishTime : Option Time := none
  inBlotter : Bool := false
  blotterClient : Option Nat := none    -- the client under which Blotter.__setitem__ filed the order (_client_orders key)
  cancelResponses : Nat := 0
  updateResponses : Nat := 0
  -- settlement attributes copied by Blotter.process_closed_market
  runnerStatus : Option RStatus := none
  marketType : Option String := none
  ewDivisor : Option Rat := some 1
  deadHeat : Option Nat := none
  lineResult : Option Rat := none
  deriving Repr, Inhabited

structure Trade where
  id : Nat
  strategy : Nat
  market : Nat
  sel : Nat
  hc : Rat := 0
  orders : List Nat := []
  status : TradeStatus := .live
  log : List TradeStatus := []
  pendingOrders : Bool := false
  placeResetSeconds : Rat := 0
  resetSeconds : Rat := 0
  completeAt : Option Time := none
  deriving Repr, Inhabited

structure CtxKey where
  strategy : Nat
  market : Nat
  sel : Nat
  hc : Rat
  deriving Repr, DecidableEq, Inhabited

structure RunnerCtx where
  key : CtxKey
  invested : Bool := false
  trades : List Nat := []
  liveTrades : List Nat := []
  lastPlaced : Option Time := none
  lastReset : Option Time := none
  resetWarnings : Nat := 0              -- "not present in live_trades on reset" warnings
  deriving Repr, Inhabited

structure Runner where
  sel : Nat
  hc : Rat := 0
  status : RStatus := .active
  af : Option Rat := none
  atb : List Level := []
  atl : List Level := []
  trd : List (Rat × Rat) := []          -- ex.traded_volume (cumulative ladder)
  sp : Option Rat := none               -- get_sp(runner)
  deriving Repr, Inhabited

structure Book where
  status : MStatus := .open_
  version : Int := 0
  inplay : Bool := false
  bspReconciled : Bool := false
  bspMarket : Bool := true
  persistenceEnabled : Bool := true
  betDelay : Rat := 0
  pt : Time := 0
  winners : Nat := 1
  activeRunners : Nat := 0
  marketType : String := "WIN"
  ewDivisor : Option Rat := none
  runners : List Runner := []
  streamId : Nat := 0
  deriving Repr, Inhabited

def Book.view (b : Book) : BookView :=
  { status := b.status, version := b.version, inplay := b.inplay, bspReconciled := b.bspReconciled,
    bspMarket := b.bspMarket, persistenceEnabled := b.persistenceEnabled, pt := b.pt }

def Runner.view (r : Runner) : RunnerView := { status := r.status, atb := r.atb, atl := r.atl, sp := r.sp }

structure Analytics where
  sel : Nat
  hc : Rat
  traded : List (Rat × Rat) := []       -- price → size traded since last update (dict order)
  tvPrev : List (Rat × Rat) := []       -- _traded_volume
  pv : List (Rat × Rat) := []           -- _p_v
  deriving Repr, Inhabited

structure Market where
  id : Nat
  book : Option Book := none
  closed : Bool := false
  closedAt : Option Time := none
  blotter : List Nat := []              -- Blotter._orders in insertion order
  live : List Nat := []                 -- Blotter._live_orders
  active : Bool := false                -- Blotter.active
  analytics : List Analytics := []      -- SimulatedMiddleware.markets[market_id]
  hasAnalytics : Bool := false
  removals : List (Nat × Rat × Option Rat) := []   -- SimulatedMiddleware._market_runner_removals[market_id]
  lineRangeResult : Option Rat := none  -- market.context["line_range_result"]
  updateCatalogue : Bool := true
  transactionId : Nat := 0
  deriving Repr, Inhabited

inductive PackKind | place | cancel | update | replace
  deriving DecidableEq, Repr, Inhabited

def PackKind.name : PackKind → String
  | .place => "PLACE" | .cancel => "CANCEL" | .update => "UPDATE" | .replace => "REPLACE"

structure Package where
  id : Nat
  kind : PackKind
  market : Nat
  orders : List Nat
  created : Time
  delay : Rat                           -- simulated_delay (seconds)
  client : Nat
  marketVersion : Option Int := none
  betDelay : Rat := 0
  deriving Repr, Inhabited

structure TxnCounter where
  count : Nat := 0
  failed : Nat := 0
  curCount : Nat := 0
  curFailed : Nat := 0
  nextHour : Option Int := none         -- hour key (hours since epoch) of `_next_hour`
  deriving Repr, Inhabited, DecidableEq

structure Client where
  id : Nat
  bpe : Bool := true
  fullMatch : Bool := false
  minBetValidation : Bool := true
  txLimit : Option Nat := none
  commission : Rat := 5 / 100
  minBetSize : Rat := 1
  minBetPayout : Rat := 10
  minBspLiability : Rat := 10
  counter : TxnCounter := {}
  deriving Repr, Inhabited

structure Strategy where
  id : Nat
  streams : List Nat := []              -- stream ids the strategy is subscribed to
  emptyFilter : Bool := false           -- market_filter == {}
  maxOrder : Option Rat := some 10
  maxSel : Option Rat := some 100
  maxMarket : Option Rat := none
  maxTrade : Nat := 1000000
  maxLive : Nat := 1
  multiOrder : Bool := false
  deriving Repr, Inhabited

/-- things the framework emits that observers see -/
inductive Ev
  | closedCallback (strategy market : Nat) (pt : Time)
  | clearedOrders (market : Nat) (n : Nat)
  | clearedMarket (market client : Nat) (profit commission : Rat) (betCount : Nat)
  | closeEvent (market : Nat)
  | marketEvent (market : Nat)
  | tradeEvent (trade : Nat)
  | orderEvent (order : Nat)
  | processOrders (strategy market : Nat) (n : Nat)
  | newMarket (strategy market : Nat)
  | bookCallback (strategy market : Nat) (pt : Time)
  | warnNoMarket (market : Nat)
  | removedMarket (market : Nat)
  deriving Repr, Inhabited, DecidableEq

structure Config where
  isolation : Bool := true
  placeLatency : Rat := Gen.placeLatency
  cancelLatency : Rat := Gen.cancelLatency
  updateLatency : Rat := Gen.updateLatency
  replaceLatency : Rat := Gen.replaceLatency
  simulated : Bool := true
  deriving Repr, Inhabited

structure World where
  cfg : Config := {}
  clock : Time := 0
  orders : List Order := []
  trades : List Trade := []
  ctxs : List RunnerCtx := []
  markets : List Market := []
  removals : List (Nat × Rat × Option Rat) := []     -- SimulatedMiddleware._runner_removals
  queue : List Package := []
  clients : List Client := []
  strategies : List Strategy := []
  betId : Nat := Gen.betIdStart
  nextPackage : Nat := 0
  out : List Ev := []
  foreign : Nat := 0                    -- ghost: requests made through a market other than the order's own (see SimLoop.doAction)
  deriving Repr, Inhabited

namespace World

/-! ### lookups and functional updates -/

def order? (w : World) (id : Nat) : Option Order := w.orders.find? (·.id = id)
def trade? (w : World) (id : Nat) : Option Trade := w.trades.find? (·.id = id)
def market? (w : World) (id : Nat) : Option Market := w.markets.find? (·.id = id)
def client? (w : World) (id : Nat) : Option Client := w.clients.find? (·.id = id)
def strategy? (w : World) (id : Nat) : Option Strategy := w.strategies.find? (·.id = id)

def order! (w : World) (id : Nat) : Order := (w.order? id).getD default
def trade! (w : World) (id : Nat) : Trade := (w.trade? id).getD default
def market! (w : World) (id : Nat) : Market := (w.market? id).getD default
def client! (w : World) (id : Nat) : Client := (w.client? id).getD default

def setOrder (w : World) (o : Order) : World :=
  { w with orders := w.orders.map fun x => if x.id = o.id then o else x }
def setTrade (w : World) (t : Trade) : World :=
  { w with trades := w.trades.map fun x => if x.id = t.id then t else x }
def setMarket (w : World) (m : Market) : World :=
  { w with markets := w.markets.map fun x => if x.id = m.id then m else x }
def setClient (w : World) (c : Client) : World :=
  { w with clients := w.clients.map fun x => if x.id = c.id then c else x }

def modifyOrder (w : World) (id : Nat) (f : Order → Order) : World :=
  { w with orders := w.orders.map fun x => if x.id = id then f x else x }
def modifyMarket (w : World) (id : Nat) (f : Market → Market) : World :=
  { w with markets := w.markets.map fun x => if x.id = id then f x else x }

def emit (w : World) (e : Ev) : World := { w with out := w.out ++ [e] }

/-! ### runner context -/

/-- `strategy.get_runner_context(market_id, selection_id, handicap)` (creates on first use) -/
def ctx (w : World) (k : CtxKey) : RunnerCtx :=
  (w.ctxs.find? (·.key = k)).getD { key := k }

def setCtx (w : World) (c : RunnerCtx) : World :=
  if w.ctxs.any (·.key = c.key) then
    { w with ctxs := w.ctxs.map fun x => if x.key = c.key then c else x }
  else { w with ctxs := w.ctxs ++ [c] }

/-- `RunnerContext.place(trade_id)` -/
def _root_.Flumine.RunnerCtx.place (c : RunnerCtx) (now : Time) (trade : Nat) : RunnerCtx :=
  { c with
    invested := true, lastPlaced := some now,
    trades := if c.trades.contains trade then c.trades else c.trades ++ [trade],
    liveTrades := if c.liveTrades.contains trade then c.liveTrades else c.liveTrades ++ [trade] }

/-- `RunnerContext.reset(trade_id)` -/
def _root_.Flumine.RunnerCtx.reset (c : RunnerCtx) (now : Time) (trade : Nat) : RunnerCtx :=
  if c.liveTrades.contains trade then { c with lastReset := some now, liveTrades := c.liveTrades.erase trade }
  else { c with lastReset := some now, resetWarnings := c.resetWarnings + 1 }

def ctxPlace (w : World) (k : CtxKey) (trade : Nat) : World := w.setCtx ((w.ctx k).place w.clock trade)

def ctxReset (w : World) (k : CtxKey) (trade : Nat) : World := w.setCtx ((w.ctx k).reset w.clock trade)

/-! ### trade -/

def tradeKey (t : Trade) : CtxKey := ⟨t.strategy, t.market, t.sel, t.hc⟩

/-- `Trade.complete` property -/
def tradeComplete (w : World) (t : Trade) : Bool :=
  t.status = .live && !t.pendingOrders && t.orders.all fun oid => (w.order! oid).complete

/-- `Trade.complete_trade()`: status COMPLETE (whose `_update_status` re-tests `complete`, false by
    then because the status is no longer LIVE), then `runner_context.reset` -/
def completeTrade (w : World) (tid : Nat) : World :=
  let t := w.trade! tid
  let w := w.setTrade { t with status := .complete, log := t.log ++ [.complete], completeAt := some w.clock }
  w.ctxReset (tradeKey t) tid

/-- `Trade._update_status(status)` -/
def tradeUpdateStatus (w : World) (tid : Nat) (s : TradeStatus) : World :=
  let t := w.trade! tid
  let t' := { t with status := s, log := t.log ++ [s] }
  let w := w.setTrade t'
  if w.tradeComplete t' then w.completeTrade tid else w

/-- `with order.trade:` entry / normal exit -/
def tradeEnter (w : World) (tid : Nat) : World := w.tradeUpdateStatus tid .pending
def tradeExit (w : World) (tid : Nat) : World := w.tradeUpdateStatus tid .live

/-! ### order status -/

def isCompleteStatus (s : Status) : Bool := Gen.orderCompleteStatus.contains s
def isLiveStatus (s : Status) : Bool := Gen.orderLiveStatus.contains s

/-- `BaseOrder._is_complete()` -/
def statusComplete (s : Status) : Bool :=
  if isLiveStatus s then false else if isCompleteStatus s then true else false

/-- `BaseOrder._update_status(status)` -/
def orderUpdateStatus (w : World) (oid : Nat) (s : Status) : World :=
  let o := w.order! oid
  let c := statusComplete s
  let w := w.setOrder { o with status := some s, log := o.log ++ [s], statusAt := w.clock, complete := c }
  let t := w.trade! o.trade
  if c && w.tradeComplete t && s ≠ .violation then w.completeTrade o.trade else w

def orderPlacing (w : World) (oid : Nat) : World := w.orderUpdateStatus oid .pending

/-- `executable()`: a completed order is final (only `update_data.clear()`); otherwise status,
    then `update_data.clear()` -/
def orderExecutable (w : World) (oid : Nat) : World :=
  if (w.order! oid).complete then w.modifyOrder oid fun o => { o with ud := {} }
  else (w.orderUpdateStatus oid .executable).modifyOrder oid fun o => { o with ud := {} }

def orderExecutionComplete (w : World) (oid : Nat) : World :=
  (w.orderUpdateStatus oid .executionComplete).modifyOrder oid fun o =>
    { o with ud := {}, completeAt := some w.clock }

def orderCancelling (w : World) (oid : Nat) : World := w.orderUpdateStatus oid .cancelling
def orderUpdating (w : World) (oid : Nat) : World := w.orderUpdateStatus oid .updating
def orderReplacing (w : World) (oid : Nat) : World := w.orderUpdateStatus oid .replacing

/-- `violation(msg)`: only an order that has not been sent (no status yet, or refused before) is
    marked; an order at the exchange is left as it is (fix: a refused request changes nothing) -/
def orderViolation (w : World) (oid : Nat) (msg : String) : World :=
  if (w.order! oid).status.isSome ∧ (w.order! oid).status ≠ some .violation then w
  else (w.orderUpdateStatus oid .violation).modifyOrder oid fun o => { o with ud := {}, violationMsg := some msg }

/-! ### BetfairOrder request guards (order.py) -/

inductive ReqErr
  | noBetId | sizeReductionTooLarge | status | onlyLimit | persistenceMatch | pricesMatch
  | onlyLimitOrLoc | clientMismatch | alreadyPlaced
  deriving DecidableEq, Repr, Inhabited

def ReqErr.name : ReqErr → String
  | .noBetId => "OrderUpdateError:no-bet-id" | .sizeReductionTooLarge => "OrderUpdateError:size-reduction"
  | .status => "OrderUpdateError:status" | .onlyLimit => "OrderUpdateError:only-limit"
  | .persistenceMatch => "OrderUpdateError:persistence-match" | .pricesMatch => "OrderUpdateError:prices-match"
  | .onlyLimitOrLoc => "OrderUpdateError:only-limit-or-loc" | .clientMismatch => "OrderError:client"
  | .alreadyPlaced => "OrderError:already-placed"

/-- the size the order sees as remaining (`BetfairOrder.size_remaining` with a simulated current order) -/
def orderSizeRemaining (o : Order) : Rat := o.sim.sizeRemaining

/-- `size_reduction and self.size_remaining - size_reduction < 0` -/
def reductionTooLarge (o : Order) (red : Option Rat) : Bool :=
  match red with
  | some r => decide (r ≠ 0 ∧ orderSizeRemaining o - r < 0)
  | none => false

/-- `BetfairOrder.cancel(size_reduction)` -/
def orderCancel (w : World) (oid : Nat) (red : Option Rat) : Except ReqErr World :=
  let o := w.order! oid
  if o.betId.isNone then .error .noBetId
  else if o.sim.kind = .limit then
    if reductionTooLarge o red then .error .sizeReductionTooLarge
    else if o.status ≠ some .executable then .error .status
    else
      let w := w.setOrder { o with ud := { o.ud with hasReduction := true, sizeReduction := red } }
      .ok (w.orderCancelling oid)
  else .error .onlyLimit

/-- `BetfairOrder.update(new_persistence_type)` -/
def orderUpdate (w : World) (oid : Nat) (pers : String) : Except ReqErr World :=
  let o := w.order! oid
  if o.betId.isNone then .error .noBetId
  else if o.sim.kind = .limit then
    if o.sim.persistence = pers then .error .persistenceMatch
    else if o.status ≠ some .executable then .error .status
    else
      let w := w.setOrder { o with sim := { o.sim with persistence := pers } }
      .ok (w.orderUpdating oid)
  else .error .onlyLimit

/-- `BetfairOrder.replace(new_price)` -/
def orderReplace (w : World) (oid : Nat) (price : Rat) : Except ReqErr World :=
  let o := w.order! oid
  if o.betId.isNone then .error .noBetId
  else if o.sim.kind = .limit ∨ o.sim.kind = .limitOnClose then
    if o.sim.price = price then .error .pricesMatch
    else if o.status ≠ some .executable then .error .status
    else
      let w := w.setOrder { o with ud := { o.ud with newPrice := some price } }
      .ok (w.orderReplacing oid)
  else .error .onlyLimitOrLoc

/-! ### blotter -/

/-- `Blotter.__setitem__` -/
def blotterAdd (w : World) (mid oid : Nat) : World :=
  (w.modifyMarket mid fun m => { m with active := true, blotter := m.blotter ++ [oid], live := m.live ++ [oid] })
    |>.modifyOrder oid fun o => { o with inBlotter := true, blotterClient := o.client }

/-- `Blotter.complete_order` -/
def blotterComplete (w : World) (mid oid : Nat) : World :=
  w.modifyMarket mid fun m => { m with live := m.live.erase oid }

def strategyOrders (w : World) (mid sid : Nat) : List Order :=
  ((w.market! mid).blotter.map w.order!).filter (·.strategy = sid)

/-! ### strategy.validate_order -/

def elapsedSeconds (now then_ : Time) : Rat := ((now - then_ : Int) : Rat) / 1000

/-- `BaseStrategy.validate_order(runner_context, order)`; `none` = True -/
def validateOrderCtx (w : World) (s : Strategy) (o : Order) : Option String :=
  let t := w.trade! o.trade
  let c := w.ctx ⟨o.strategy, o.market, o.sel, o.hc⟩
  if s.multiOrder && c.liveTrades.contains t.id then none
  else
    let resetEl := c.lastReset.map (elapsedSeconds w.clock)
    let placedEl := c.lastPlaced.map (elapsedSeconds w.clock)
    if (match resetEl with | some e => decide (e < t.resetSeconds) | none => false) then some "reset_elapsed_seconds"
    else if (match placedEl with | some e => decide (e < t.placeResetSeconds) | none => false) then some "placed_elapsed_seconds"
    else if (c.trades.length = s.maxTrade ∧ !c.trades.contains t.id) ∨ c.trades.length > s.maxTrade then some "trade_count"
    else if (c.liveTrades.length = s.maxLive ∧ !c.liveTrades.contains t.id) ∨ c.liveTrades.length > s.maxLive then some "live_trade_count"
    else none

end World
end Flumine
