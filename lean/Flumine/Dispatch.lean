/-
  Dispatch.lean — how one market update reaches middleware and strategies, and what an exception in a
  callback does (raise_errors = False): flumine/utils.py call_strategy_error_handling,
  call_middleware_error_handling, call_process_orders_error_handling; the dispatch loops of
  FlumineSimulation._process_market_books / _process_simulated_orders / _process_close_market.
  Callbacks are arbitrary: the behaviour function says, for every possible call, whether it returns
  (and what check_market_book answers) or raises.
-/
namespace Flumine.Dispatch

inductive Who
  | middleware (idx : Nat)
  | strategy (idx : Nat)
  deriving DecidableEq, Repr, Inhabited

inductive Kind | mw | orders | newMarket | check | book | closed
  deriving DecidableEq, Repr, Inhabited

structure Call where
  who : Who
  kind : Kind
  deriving DecidableEq, Repr, Inhabited

inductive Outcome
  | returned (answer : Bool)      -- the value matters for check_market_book only
  | raised
  deriving DecidableEq, Repr, Inhabited

structure StrategyInfo where
  idx : Nat
  subscribed : Bool               -- market_book.streaming_unique_id in strategy.stream_ids
  hasOrders : Bool                -- blotter.strategy_orders(strategy) is not empty
  deriving Repr, Inhabited

/-- `call_strategy_error_handling(func, ...)`: the value, or False when the callback raised -/
def guarded (o : Outcome) : Bool :=
  match o with
  | .returned b => b
  | .raised => false

/-- the strategy part of `_process_market_books` for one strategy -/
def strategyCalls (beh : Call → Outcome) (isNew : Bool) (s : StrategyInfo) : List Call :=
  if s.subscribed then
    (if isNew then [⟨.strategy s.idx, .newMarket⟩] else []) ++
    [⟨.strategy s.idx, .check⟩] ++
    (if guarded (beh ⟨.strategy s.idx, .check⟩) then [⟨.strategy s.idx, .book⟩] else [])
  else []

/-- `_process_simulated_orders`: process_orders for every strategy that has orders in the market -/
def ordersCalls (ss : List StrategyInfo) : List Call :=
  (ss.filter (·.hasOrders)).map fun s => ⟨.strategy s.idx, .orders⟩

/-- all callback invocations of one (non-closing) update, in order -/
def processBook (beh : Call → Outcome) (nMiddleware : Nat) (active : Bool) (isNew : Bool) (ss : List StrategyInfo) : List Call :=
  (List.range nMiddleware).map (fun i => ⟨.middleware i, .mw⟩) ++
  (if active then ordersCalls ss else []) ++
  ss.flatMap (strategyCalls beh isNew)

/-- a closing update: `process_closed_market` for the subscribed strategies -/
def processClose (ss : List StrategyInfo) : List Call :=
  (ss.filter (·.subscribed)).map fun s => ⟨.strategy s.idx, .closed⟩

end Flumine.Dispatch
