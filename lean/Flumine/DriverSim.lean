/- DriverSim.lean — line-protocol handlers for the SimulatedOrder model (pure domain). -/
import Flumine.Proto
import Flumine.SimOrder
import Flumine.SimLoop
namespace Flumine.DriverSim
open Flumine Flumine.Proto

def parseLevel? (s : String) : Option Level :=
  match s.splitOn "@" with
  | [p, z] => do some ⟨← parseRat? p, ← parseRat? z⟩
  | _ => none

def parsePair? (s : String) : Option (Rat × Rat) :=
  match s.splitOn "@" with
  | [p, z] => do some (← parseRat? p, ← parseRat? z)
  | _ => none

def parseMStatus? : String → Option MStatus
  | "OPEN" => some .open_ | "SUSPENDED" => some .suspended | "CLOSED" => some .closed
  | "INACTIVE" => some .inactive | _ => none

def parseRStatus? : String → Option RStatus
  | "ACTIVE" => some .active | "REMOVED" => some .removed | "WINNER" => some .winner
  | "LOSER" => some .loser | "PLACED" => some .placed | "HIDDEN" => some .hidden | _ => none

def parseKind? : String → Option OKindS
  | "L" => some .limit | "LOC" => some .limitOnClose | "MOC" => some .marketOnClose | _ => none

def parseOptInt? (s : String) : Option (Option Int) :=
  if s = "-" then some none else (parseInt? s).map some

def showFrag (f : Frag) : String := s!"{f.pt}:{showRat f.price}:{showRat f.size}"

def showState (o : SimOrder) : String :=
  " ".intercalate [showList showFrag o.matched, showRat o.sizeMatched, showRat o.avgPrice,
    showRat o.sizeCancelled, showRat o.sizeLapsed, showRat o.sizeVoided, showRat o.sizeRemaining,
    showRat o.piq, o.simStatus.name, o.persistence]

def showResp : SimOrder.RespStatus → String
  | .success => "SUCCESS" | .failure => "FAILURE"

def stepOp (o : SimOrder) (toks : List String) : Option (SimOrder × String) := do
  match toks with
  | ["place", pkgver, bpe, full, mst, ver, inpl, bspRec, bspMkt, ptt, rst, atbs, atls, fok, minfill] =>
    let st ← parseMStatus? mst
    let v ← parseInt? ver
    let ip ← parseBool? inpl
    let br ← parseBool? bspRec
    let bm ← parseBool? bspMkt
    let t ← parseInt? ptt
    let rs ← parseRStatus? rst
    let ab ← parseList? parseLevel? atbs
    let al ← parseList? parseLevel? atls
    let book : BookView := { status := st, version := v, inplay := ip, bspReconciled := br, bspMarket := bm, pt := t }
    let runner : RunnerView := { status := rs, atb := ab, atl := al }
    let pv ← parseOptInt? pkgver
    let b1 ← parseBool? bpe
    let b2 ← parseBool? full
    let b3 ← parseBool? fok
    let mf ← parseOptRat? minfill
    let (o1, r) := o.place pv b1 b2 book runner b3 mf 1
    some (o1, " ".intercalate [showResp r.status, r.errorCode.getD "-", r.orderStatus.name, showState o1])
  | ["cancel", mst, red] =>
    let st ← parseMStatus? mst
    let rd ← parseOptRat? red
    let (o1, r) := o.cancel st rd
    some (o1, " ".intercalate [showResp r.status, r.errorCode.getD "-", showRat r.sizeCancelled, showState o1])
  | ["update", mst, pe, np] =>
    let st ← parseMStatus? mst
    let p ← parseBool? pe
    let book : BookView := { status := st, persistenceEnabled := p }
    let (o1, rst, err) := o.update book np
    some (o1, " ".intercalate [showResp rst, err.getD "-", showState o1])
  | ["call", mst, ver, bspRec, ptt, sp, traded, minbsp] =>
    let st ← parseMStatus? mst
    let v ← parseInt? ver
    let br ← parseBool? bspRec
    let t ← parseInt? ptt
    let book : BookView := { status := st, version := v, bspReconciled := br, pt := t }
    let spv ← parseOptRat? sp
    let tr ← parseList? parsePair? traded
    let mb ← parseRat? minbsp
    let (o1, t2, c) := o.call book spv tr mb
    some (o1, " ".intercalate [showBool c, showList (fun (p : Rat × Rat) => showRat p.1 ++ "@" ++ showRat p.2) t2, showState o1])
  | _ => none

def runOps (o : SimOrder) : List (List String) → List String → Option (List String)
  | [], acc => some acc.reverse
  | op :: rest, acc => do
    let (o1, out) ← stepOp o op
    runOps o1 rest (out :: acc)

/-- `profit side kind ladder(C/L) price sm avg runnerStatus marketType ew|- deadheat|- lineResult|-` -/
def handleProfit (toks : List String) : Option String := do
  match toks with
  | [sd, kd, ld, pr, sm, avg, rst, mtype, ew, dh, lr] =>
    let side ← Side.ofName? sd
    let kind ← parseKind? kd
    let price ← parseRat? pr
    let sm' ← parseRat? sm
    let avg' ← parseRat? avg
    let rs : Option RStatus ← (if rst = "-" then some none else (parseRStatus? rst).map some)
    let ew' ← parseOptRat? ew
    let dh' : Option Nat ← (if dh = "-" then some none else dh.toNat?.map some)
    let lr' ← parseOptRat? lr
    let so : SimOrder := { side := side, kind := kind, price := price, size := sm', sizeMatched := sm', avgPrice := avg' }
    let lad : LadderKind := if ld = "L" then .lineRange else .classic
    let mt : Option String := if mtype = "-" then none else some mtype
    let o : Order := { id := 0, trade := 0, strategy := 0, market := 0, sel := 0, sim := so, ladder := lad, runnerStatus := rs, marketType := mt, ewDivisor := ew', deadHeat := dh', lineResult := lr' }
    some (showRat (simProfit o))
  | _ => none

def splitBar (toks : List String) : List (List String) :=
  let r := toks.foldl (fun (acc : List (List String) × List String) t =>
    if t == "|" then (acc.2.reverse :: acc.1, []) else (acc.1, t :: acc.2)) ([], [])
  (r.2.reverse :: r.1).reverse

/-- `simorder side kind price size liab persistence line | op | op ...` -/
def handle (toks : List String) : Option String := do
  let groups := splitBar toks
  match groups with
  | [sd, kd, pr, sz, liab, pers, line] :: ops =>
    let sd' ← Side.ofName? sd
    let kd' ← parseKind? kd
    let pr' ← parseRat? pr
    let sz' ← parseRat? sz
    let lb' ← parseRat? liab
    let ln' ← parseBool? line
    let o : SimOrder := { side := sd', kind := kd', price := pr', size := sz', liability := lb', persistence := pers, lineRange := ln' }
    let outs ← runOps o ops []
    some (" | ".intercalate outs)
  | _ => none

end Flumine.DriverSim
