/-
  Mw.lean — flumine/markets/middleware.py: RunnerAnalytics, SimulatedMiddleware.__call__,
  _process_runner_removal, _calculate_reduction_factor, _process_simulated_orders, _sort_orders.
-/
import Flumine.SimExec
namespace Flumine
open World

/-! ### RunnerAnalytics -/

def dictSet (d : List (Rat × Rat)) (k v : Rat) : List (Rat × Rat) :=
  if d.any (·.1 = k) then d.map fun kv => if kv.1 = k then (k, v) else kv else d ++ [(k, v)]

/-- `{i["price"]: i["size"] for i in traded_volume}` -/
def dictOf (l : List (Rat × Rat)) : List (Rat × Rat) := l.foldl (fun d kv => dictSet d kv.1 kv.2) []

def dictGet? (d : List (Rat × Rat)) (k : Rat) : Option Rat := (d.find? (·.1 = k)).map (·.2)

/-- `RunnerAnalytics._calculate_traded(traded_volume)` → (traded, new `_p_v`) -/
def calculateTraded (pv tv : List (Rat × Rat)) : List (Rat × Rat) × List (Rat × Rat) :=
  let cv := dictOf tv
  let traded := cv.foldl (fun t kv =>
    match dictGet? pv kv.1 with
    | some old =>
      let nv := kv.2 - old
      if 0 < nv then dictSet t kv.1 (round2 nv) else t
    | none => dictSet t kv.1 kv.2) []
  (traded, cv)

/-- `RunnerAnalytics.__call__(runner)` -/
def Analytics.call (a : Analytics) (tv : List (Rat × Rat)) : Analytics :=
  if a.tvPrev = tv then { a with traded := [] }
  else
    let (traded, cv) := calculateTraded a.pv tv
    { a with traded := traded, tvPrev := tv, pv := cv }

/-- `RunnerAnalytics(runner)` followed by the first `__call__` (`_process_runner` on a new runner) -/
def Analytics.create (r : Runner) : Analytics :=
  ({ sel := r.sel, hc := r.hc, traded := [], tvPrev := r.trd, pv := dictOf r.trd } : Analytics).call r.trd

/-- `SimulatedMiddleware._process_runner` -/
def processRunner (as : List Analytics) (r : Runner) : List Analytics :=
  if as.any (fun a => a.sel = r.sel ∧ a.hc = r.hc) then
    as.map fun a => if a.sel = r.sel ∧ a.hc = r.hc then a.call r.trd else a
  else as ++ [Analytics.create r]

/-! ### runner removal -/

/-- `_calculate_reduction_factor(price, adjustment_factor)` -/
def reductionFactor (price af : Rat) : Rat := ratMax (round2 (price * (1 - af / 100))) (101 / 100)

namespace World

/-- the effect of one removal on one order (`_process_runner_removal` loop body) -/
def removalOnOrder (w : World) (m : Market) (rsel : Nat) (rhc : Rat) (raf : Option Rat) (o : Order) : Order :=
  if o.market = m.id ∧ o.sel = rsel ∧ o.hc = rhc then      -- order.lookup == (market_id, selection_id, handicap)
    -- cancel and void the order
    let voided := match o.sim.kind with
      | .limit => o.sim.size
      | _ => o.sim.liability
    { o with sim := { o.sim with sizeMatched := 0, avgPrice := 0, matched := [], sizeVoided := voided,
                                 sizeCancelled := 0, sizeLapsed := 0, bspReconciled := true } }
  else if o.sim.kind = .marketOnClose ∧ o.sim.side = .lay then
    let book := m.book.getD {}
    let af := raf.getD 0
    if book.marketType = "WIN" then
      let runnerAf := ((runnerOf book o.sel o.hc).bind (·.af)).getD 0
      let mult := 1 - af / (100 - runnerAf)
      let liab := o.sim.liability * mult
      let sim : SimOrder := { o.sim with liability := liab }
      -- `if order.average_price_matched:` (NR declared in-play): re-derive the matched size
      if sim.avgPrice ≠ 0 then { o with sim := { sim with sizeMatched := round2 (liab / (sim.avgPrice - 1)) } }
      else { o with sim := sim }
    else if book.marketType = "PLACE" ∨ book.marketType = "OTHER_PLACE" then
      let mult := (100 - af) * (1 / 100)
      let liab := o.sim.liability * mult
      let sim : SimOrder := { o.sim with liability := liab }
      if sim.avgPrice ≠ 0 then { o with sim := { sim with sizeMatched := round2 (liab / (sim.avgPrice - 1)) } }
      else { o with sim := sim }
    else o
  else match raf with
    | some af =>
      if af ≠ 0 ∧ Gen.winMinimumAdjustmentFactor ≤ af then
        let ms := o.sim.matched.map fun f => { f with price := reductionFactor f.price af }
        { o with sim := { o.sim with matched := ms, avgPrice := (wap ms).2 } }
      else o
    | none => o

/-- `SimulatedMiddleware._process_runner_removal(market, sel, handicap, adjustment_factor)` -/
def processRunnerRemoval (w : World) (mid : Nat) (rsel : Nat) (rhc : Rat) (raf : Option Rat) : World :=
  let m := w.market! mid
  m.blotter.foldl (fun w oid => w.modifyOrder oid (w.removalOnOrder m rsel rhc raf)) w

/-- `_sort_orders`: LAY by descending price, then BACK by ascending price, then MARKET_ON_CLOSE;
    python's sort is stable -/
def insertBy (key : Order → Rat) (o : Order) : List Order → List Order
  | [] => [o]
  | x :: xs => if key o < key x then o :: x :: xs else x :: insertBy key o xs

def stableSortBy (key : Order → Rat) (l : List Order) : List Order :=
  l.foldl (fun acc o => insertBy key o acc) []

def sortOrders (l : List Order) : List Order :=
  let lays := (l.filter fun o => o.sim.side = .lay ∧ o.sim.kind ≠ .marketOnClose)
  let backs := (l.filter fun o => o.sim.side = .back ∧ o.sim.kind ≠ .marketOnClose)
  let moc := l.filter fun o => o.sim.kind = .marketOnClose
  stableSortBy (fun o => -o.sim.price) lays ++ stableSortBy (fun o => o.sim.price) backs ++ moc

def isMwLive (o : Order) : Bool :=
  match o.status with
  | some s => Gen.middlewareLiveStatus.contains s
  | none => false

/-- one order of the matching loop: (world, the loop's private copy of the traded dicts) -/
def matchStep (mid : Nat) (recheck : Bool) (acc : World × List (Nat × Rat × List (Rat × Rat))) (o0 : Order) :
    World × List (Nat × Rat × List (Rat × Rat)) :=
  let (w, lk) := acc
  let book := (w.market! mid).book.getD {}
  let o := w.order! o0.id
  if recheck && !isMwLive o then (w, lk)
  else
    let traded := ((lk.find? fun e => e.1 = o.sel ∧ e.2.1 = o.hc).map (·.2.2)).getD []
    -- runner_traded[0] is the analytics' runner (its SP is read by _process_sp through market_book)
    let sp := ((runnerOf book o.sel o.hc).bind (·.sp))
    let r := o.sim.call book.view sp traded (w.client! (o.client.getD 0)).minBspLiability
    let w := w.modifyOrder o.id fun x => { x with sim := r.1 }
    let w := if r.2.2 then w.orderExecutionComplete o.id else w
    (w, lk.map fun e => if e.1 = o.sel ∧ e.2.1 = o.hc then (e.1, e.2.1, r.2.1) else e)

/-- run `order.simulated(market_book, runner_traded)` for the orders in `sorted`, threading one
    copy of the traded dicts (`_lookup`) through them; the copy is dropped afterwards -/
def matchOrders (w : World) (mid : Nat) (sorted : List Order) (recheck : Bool) : World :=
  let lookup : List (Nat × Rat × List (Rat × Rat)) := (w.market! mid).analytics.map fun a => (a.sel, a.hc, a.traded)
  (sorted.foldl (matchStep mid recheck) (w, lookup)).1

/-- the live orders of one strategy in the market's blotter, in blotter order -/
def strategyLive (w : World) (mid sid : Nat) : List Order :=
  ((w.market! mid).blotter.map w.order!).filter fun o => o.strategy = sid ∧ isMwLive o

/-- one iteration of `for strategy, orders in market.blotter._strategy_orders.items()` -/
def matchStrategy (mid : Nat) (w : World) (sid : Nat) : World :=
  let live := w.strategyLive mid sid
  if live.isEmpty then w else w.matchOrders mid (sortOrders live) false

/-- `SimulatedMiddleware._process_simulated_orders` -/
def mwProcessSimulatedOrders (w : World) (mid : Nat) : World :=
  let m := w.market! mid
  if w.cfg.isolation then
    -- strategies in order of their first order in the blotter
    let strategies := (m.blotter.map fun oid => (w.order! oid).strategy).eraseDups
    strategies.foldl (matchStrategy mid) w
  else
    let live := m.live.map w.order!
    if live.isEmpty then w else w.matchOrders mid (sortOrders live) true

/-- the REMOVED runners of a book that are not yet in `known` (the market's removal list):
    returns (updated list, newly detected removals in book order) -/
def detectRemovals (runners : List Runner) (known : List (Nat × Rat × Option Rat)) :
    List (Nat × Rat × Option Rat) × List (Nat × Rat × Option Rat) :=
  runners.foldl (fun (acc : List (Nat × Rat × Option Rat) × List (Nat × Rat × Option Rat)) r =>
    if r.status = .removed then
      if acc.1.contains (r.sel, r.hc, r.af) then acc
      else (acc.1 ++ [(r.sel, r.hc, r.af)], acc.2 ++ [(r.sel, r.hc, r.af)])
    else acc) (known, [])

/-- first half of `SimulatedMiddleware.__call__`: analytics for the ACTIVE runners and detection of new
    removals against the market's own list; returns the newly detected removals -/
def mwUpdateAnalytics (w : World) (mid : Nat) : World × List (Nat × Rat × Option Rat) :=
  let m := w.market! mid
  let book := m.book.getD {}
  let as := book.runners.foldl (fun as r => if r.status = .active then processRunner as r else as) m.analytics
  let dr := detectRemovals book.runners m.removals
  let w := { w with removals := w.removals ++ dr.2 }
  (w.modifyMarket mid fun m => { m with analytics := as, hasAnalytics := true, removals := dr.1 }, dr.2)

/-- `SimulatedMiddleware.__call__(market)` -/
def simulatedMiddleware (w : World) (mid : Nat) : World :=
  let p := w.mwUpdateAnalytics mid
  let w := p.2.foldl (fun w k => w.processRunnerRemoval mid k.1 k.2.1 k.2.2) p.1
  if (w.market! mid).active then w.mwProcessSimulatedOrders mid else w

end World
end Flumine
