/- DriverRef.lean — line-protocol commands for the customer-order-reference model (driver only). -/
import Flumine.Ref
import Flumine.Proto
namespace Flumine.DriverRef
open Flumine.Ref Flumine.Proto

/-- strings travel as '_'-joined decimal code points, "." = empty string -/
def parseStr? (s : String) : Option (List Char) :=
  if s = "." then some [] else (s.splitOn "_").mapM fun t => t.toNat?.map Char.ofNat

def showStr (l : List Char) : String :=
  if l.isEmpty then "." else "_".intercalate (l.map fun c => toString c.toNat)

def parseOp? (s : String) : Option Op :=
  match s.splitOn ":" with
  | ["A", h] => (parseStr? h).map Op.add
  | ["U", m, r] => do some (Op.update (← m.toNat?) (← parseStr? r))
  | ["K", m, r] => do some (Op.cleared (← m.toNat?) (← parseStr? r))
  | _ => none

def showResolved : Resolved → String
  | .existing o => "E" ++ toString o.strat ++ "/" ++ showStr o.id
  | .created o => "C" ++ toString o.strat ++ "/" ++ showStr o.id
  | .dropped => "D"

def showAnswer : Answer → String
  | .resolved r => showResolved r
  | .attached (some o) => "K" ++ toString o.strat ++ "/" ++ showStr o.id
  | .attached none => "K-"

def handle (toks : List String) : Option String := do
  match toks with
  | ["ref.valid", s] => some (showBool (isValidSep (← parseStr? s)))
  | ["ref.setsep", cur, new] =>
    let r := setSep (← parseStr? cur) (← parseStr? new)
    some (showStr r.1 ++ " " ++ showBool r.2)
  | ["ref.build", hash, sep, n] =>
    let ref := customerOrderRef (← parseStr? hash) (← parseStr? sep) (orderId (← n.toNat?))
    some (showStr ref ++ " " ++ toString ref.length ++ " " ++ showBool (ref.all fun c => validChars.contains c) ++ " " ++
      showStr (refHash ref) ++ " " ++ showStr (refId ref))
  | ["ref.bybet", rb, bet, known] =>
    let r ← (if rb = "-" then some none else rb.toNat?.map some)
    let ks ← (if known = "." then some [] else (known.splitOn ",").mapM String.toNat?)
    some (match pickByBet r (← bet.toNat?) ks with
      | none => "S"
      | some none => "R"
      | some (some b) => "B" ++ toString b)
  | ["ref.inst", ops] =>
    let os ← (ops.splitOn ";").mapM parseOp?
    some (showList showAnswer (run os))
  | _ => none

end Flumine.DriverRef
