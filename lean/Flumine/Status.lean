/- Status.lean — order / trade status enums (mirrors flumine/order/order.py OrderStatus,
   flumine/order/trade.py TradeStatus). -/
namespace Flumine

inductive Status
  | pending | cancelling | updating | replacing
  | executable | executionComplete | expired | violation
  deriving DecidableEq, Repr, Inhabited

def Status.name : Status → String
  | .pending => "PENDING" | .cancelling => "CANCELLING" | .updating => "UPDATING"
  | .replacing => "REPLACING" | .executable => "EXECUTABLE"
  | .executionComplete => "EXECUTION_COMPLETE" | .expired => "EXPIRED" | .violation => "VIOLATION"

def Status.ofName? : String → Option Status
  | "PENDING" => some .pending | "CANCELLING" => some .cancelling | "UPDATING" => some .updating
  | "REPLACING" => some .replacing | "EXECUTABLE" => some .executable
  | "EXECUTION_COMPLETE" => some .executionComplete | "EXPIRED" => some .expired
  | "VIOLATION" => some .violation | _ => none

/-- one step of the documented order lifecycle (the table the whole-run theorem `C03W.legal_transitions_whole_run` is about;
    `none` = the order has no status yet): pending -> executable | complete; executable -> cancelling | updating | replacing |
    complete; cancelling / updating / replacing -> executable | complete; complete stays complete; a new order may be refused
    (violation) or, as a replacement whose placement is refused, complete at once; a refused order that never left may be
    submitted or refused again.  Kept here, free of proof-library imports, so that the driver can answer `status.legal` -/
def Status.legalStep : Option Status → Status → Bool
  | none, .pending => true
  | none, .violation => true
  | none, .executionComplete => true
  | some .pending, .executable => true
  | some .pending, .executionComplete => true
  | some .executable, .cancelling => true
  | some .executable, .updating => true
  | some .executable, .replacing => true
  | some .executable, .executionComplete => true
  | some .cancelling, .executable => true
  | some .cancelling, .executionComplete => true
  | some .updating, .executable => true
  | some .updating, .executionComplete => true
  | some .replacing, .executable => true
  | some .replacing, .executionComplete => true
  | some .executionComplete, .executionComplete => true
  | some .violation, .pending => true
  | some .violation, .violation => true
  | _, _ => false

inductive TradeStatus | pending | live | complete
  deriving DecidableEq, Repr, Inhabited

def TradeStatus.name : TradeStatus → String
  | .pending => "PENDING" | .live => "LIVE" | .complete => "COMPLETE"

inductive Side | back | lay
  deriving DecidableEq, Repr, Inhabited

def Side.name : Side → String | .back => "BACK" | .lay => "LAY"
def Side.ofName? : String → Option Side | "BACK" => some .back | "LAY" => some .lay | _ => none

end Flumine
