/- Status.lean — order / trade status enums (mirrors flumine/order/order.py OrderStatus,
   flumine/order/trade.py TradeStatus). -/
namespace Flumine

inductive Status
  | pending | cancelling | updating | replacing
  | executable | executionComplete | expired | violation
  deriving DecidableEq, Repr, Inhabited

def Status.name : Status → String
  | .pending => "PENDING" | .cancelling => "CANCELLING" | .updating => "UPDATING"
  | .replacing => "REPLACING" | .executable => "EXECUTABLE"
  | .executionComplete => "EXECUTION_COMPLETE" | .expired => "EXPIRED" | .violation => "VIOLATION"

def Status.ofName? : String → Option Status
  | "PENDING" => some .pending | "CANCELLING" => some .cancelling | "UPDATING" => some .updating
  | "REPLACING" => some .replacing | "EXECUTABLE" => some .executable
  | "EXECUTION_COMPLETE" => some .executionComplete | "EXPIRED" => some .expired
  | "VIOLATION" => some .violation | _ => none

inductive TradeStatus | pending | live | complete
  deriving DecidableEq, Repr, Inhabited

def TradeStatus.name : TradeStatus → String
  | .pending => "PENDING" | .live => "LIVE" | .complete => "COMPLETE"

inductive Side | back | lay
  deriving DecidableEq, Repr, Inhabited

def Side.name : Side → String | .back => "BACK" | .lay => "LAY"
def Side.ofName? : String → Option Side | "BACK" => some .back | "LAY" => some .lay | _ => none

end Flumine
