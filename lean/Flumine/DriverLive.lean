/- DriverLive.lean — line-protocol command for the live-execution model (driver only). -/
import Flumine.Live
import Flumine.Proto
namespace Flumine.DriverLive
open Flumine Flumine.Live Flumine.Proto

def parseRep? : String → Option RepStatus
  | "S" => some .success | "F" => some .failure | "T" => some .timeout | _ => none

def parseOStatus? : String → Option (Option Status)
  | "-" => some none | "P" => some (some .pending) | "E" => some (some .executable)
  | "C" => some (some .executionComplete) | "X" => some (some .expired) | _ => none

def parseOptNat? (s : String) : Option (Option Nat) := if s = "-" then some none else s.toNat?.map some

def modify (os : List LOrder) (id : Nat) (f : LOrder → LOrder) : List LOrder :=
  os.map fun o => if o.id = id then f o else o

/-- accepted cancel / update / replace request (the guards of BetfairOrder: EXECUTABLE with a bet id) -/
def request (s : Status) (o : LOrder) : LOrder :=
  if o.status = some .executable ∧ o.betId.isSome then setStatus o s else o

def step (os : List LOrder) (op : String) : Option (List LOrder) :=
  match op.splitOn ":" with
  | ["N", id, async, size] => do
    let o : LOrder := { id := ← id.toNat?, async := ← parseBool? async, size := ← parseRat? size }
    some (os ++ [setStatus o .pending])
  | ["PR", id, st, ost, bet, sm] => do
    let r : PlaceRep := { status := ← parseRep? st, orderStatus := ← parseOStatus? ost, betId := ← parseOptNat? bet, sizeMatched := ← parseRat? sm }
    some (modify os (← id.toNat?) fun o => placeReport o r)
  | ["CQ", id] => do some (modify os (← id.toNat?) (request .cancelling))
  | ["UQ", id] => do some (modify os (← id.toNat?) (request .updating))
  | ["RQ", id] => do some (modify os (← id.toNat?) (request .replacing))
  | ["CR", id, st, tol, sc] => do
    let r : CancelRep := { status := ← parseRep? st, takenOrLapsed := ← parseBool? tol, sizeCancelled := ← parseRat? sc }
    some (modify os (← id.toNat?) fun o => cancelReport o r)
  | ["CM", id] => do some (modify os (← id.toNat?) cancelMissing)
  | ["UR", id, st] => do
    let r ← parseRep? st
    some (modify os (← id.toNat?) fun o => updateReport o r)
  | ["RR", id, st] => do
    let r ← parseRep? st
    some (modify os (← id.toNat?) fun o => replaceCancelReport o r)
  | ["RP", id, newId, bet, size] => do
    let oid ← id.toNat?
    let o ← os.find? (·.id = oid)
    some (os ++ [replacementOf { o with size := ← parseRat? size } (← newId.toNat?) (← bet.toNat?)])
  | ["RS", id, c] => do
    let cb ← parseBool? c
    some (modify os (← id.toNat?) (resetOrder cb))
  | ["SN", id, bet, st, sm, rem] => do
    let s : Snap := { betId := ← bet.toNat?, status := (← parseOStatus? st).getD .executable, sizeMatched := ← parseRat? sm, sizeRemaining := ← parseRat? rem }
    some (modify os (← id.toNat?) fun o => processCurrent o s)
  | _ => none

def showOrder (o : LOrder) : String :=
  ":".intercalate [toString o.id, (o.status.map Status.name).getD "-", showBool o.complete,
    (match o.betId with | some b => toString b | none => "-"),
    (if o.log.isEmpty then "." else "+".intercalate (o.log.map Status.name)),
    toString o.cancelResponses, toString o.updateResponses, showRat (sizeRemaining o)]

def handle (toks : List String) : Option String := do
  match toks with
  | ["live", ops] =>
    let os ← (ops.splitOn ";").foldlM step []
    some (showList showOrder os)
  | ["live.calls", errors] => some (toString (callsMade (← errors.toNat?) {}))
  | ["live.adopt", kind, price, size, liab, pers] =>
    let k ← (match kind with | "LIMIT" => some CoKind.limit | "LIMIT_ON_CLOSE" => some .limitOnClose | "MARKET_ON_CLOSE" => some .marketOnClose | _ => none)
    let a := adoptType { kind := k, price := ← parseRat? price, size := ← parseRat? size, bspLiability := ← parseRat? liab, persistence := pers }
    let sh (x : Option Rat) : String := match x with | some r => showRat r | none => "."
    some (" ".intercalate [(match a.kind with | .limit => "LIMIT" | .limitOnClose => "LIMIT_ON_CLOSE" | .marketOnClose => "MARKET_ON_CLOSE"),
      sh a.price, sh a.size, sh a.liability, a.persistence.getD "."])
  | _ => none

end Flumine.DriverLive
