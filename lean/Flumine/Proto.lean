/- Proto.lean — token helpers for the line protocol (driver only; no proofs depend on it). -/
import Flumine.Status
namespace Flumine.Proto

def parseInt? (s : String) : Option Int :=
  if s.startsWith "-" then (s.drop 1).toNat?.map (fun n => -(n : Int))
  else s.toNat?.map (fun n => (n : Int))

/-- "n", "-n", "n/d" -/
def parseRat? (s : String) : Option Rat :=
  match s.splitOn "/" with
  | [n] => (parseInt? n).map (fun i => (i : Rat))
  | [n, d] => do
      let i ← parseInt? n
      let k ← d.toNat?
      if k = 0 then none else some ((i : Rat) / (k : Rat))
  | _ => none

/-- "-" is None -/
def parseOptRat? (s : String) : Option (Option Rat) :=
  if s = "-" then some none else (parseRat? s).map some

def showRat (r : Rat) : String :=
  if r.den = 1 then toString r.num else toString r.num ++ "/" ++ toString r.den

def showOptRat : Option Rat → String
  | none => "-"
  | some r => showRat r

def showBool (b : Bool) : String := if b then "T" else "F"
def parseBool? (s : String) : Option Bool :=
  if s = "T" then some true else if s = "F" then some false else none

/-- comma separated list, "" or "." = empty -/
def parseList? {α} (f : String → Option α) (s : String) : Option (List α) :=
  if s = "." || s = "" then some [] else (s.splitOn ",").mapM f

def showList {α} (f : α → String) (l : List α) : String :=
  if l.isEmpty then "." else ",".intercalate (l.map f)

end Flumine.Proto
